"""HOOKS correspondence: the lookup of Model/HookTable.v (class registry, then the predicate list newest-first,
with the model's meaning of the _compat predicates on its type constructors) selects, for real typing objects
of every constructor and spelling, the same registered entry as the real dispatcher of a live converter."""
import enum
import typing
from collections.abc import Mapping, MutableMapping, MutableSequence, MutableSet, Sequence
from typing import Annotated, Any, Dict, FrozenSet, List, Literal, NewType, Optional, Set, Tuple

import attrs
import dataclasses

from cattrs import BaseConverter, Converter, UnstructureStrategy
from cattrs.dispatch import _DispatchNotFound

from common import parse_coq_value, run_cases_file
from t1_translate import HOOK_CLS, HOOK_HANDLER_ST, HOOK_HANDLER_UN, HOOK_PRED


class _E(enum.Enum):
    A = 1


@attrs.define
class _A:
    x: int = 0


@dataclasses.dataclass
class _D:
    x: int = 0


_NT = NewType("_NT", int)

SAMPLES = {
    "KAny": [Any],
    "KStr": [str], "KBytes": [bytes], "KInt": [int], "KFloat": [float], "KBool": [bool], "KEnum": [_E],
    "KLit": [Literal[1, "a"], Literal[None]],
    "KList": [List[int], list[int], Sequence[int], MutableSequence[int], List[_A]],
    "KTupleHom": [Tuple[int, ...], tuple[int, ...], Tuple[_A, ...]],
    "KTuple": [Tuple[int, str], tuple[int, str], Tuple[int], Tuple[_A, int]],
    "KSet": [Set[int], set[int], MutableSet[int]],
    "KFrozenSet": [FrozenSet[int], frozenset[int]],
    "KDict": [Dict[str, int], dict[str, int], Mapping[str, int], MutableMapping[int, _A]],
    "KOpt": [Optional[int], Optional[_A], Optional[List[int]], typing.Union[int, None]],
    "KClass": [_A, _D],
    "KNewType": [_NT, NewType("_NT2", _A)],
    "KAnnot": [Annotated[int, "m"], Annotated[List[int], "m"]],
}


def _entry_name(d, tables, idx_reg, direction):
    """constructor of the handler registered at registration index idx_reg (base list, then the active Converter registrations)"""
    ent = tables[idx_reg]
    hd = HOOK_HANDLER_ST if direction == "structure" else HOOK_HANDLER_UN
    return hd[ent["handler"]]


def check_hooks(v, t1_summary):
    cv = t1_summary.get("converters")
    if not cv:
        v.obligation("correspondence:HOOKS (model lookup = real dispatcher)", False, "converters section not translated")
        return
    cases, meta = [], []
    for full in (True, False):
        for strat in ("dict", "tuple"):
            conv = (Converter if full else BaseConverter)(unstruct_strat=UnstructureStrategy.AS_DICT if strat == "dict" else UnstructureStrategy.AS_TUPLE)
            for direction, disp in (("structure", conv._structure_func), ("unstructure", conv._unstructure_func)):
                reg = list(cv["base_tables"][direction]["func"])
                if full:
                    reg += [e for e in cv["conv_regs"][direction] if e["cond"] != "AS_DICT" or strat == "dict"]
                pairs = disp._function_dispatch._handler_pairs
                if len(pairs) != len(reg):
                    v.obligation("correspondence:HOOKS (model lookup = real dispatcher)", False,
                                 f"{type(conv).__name__}/{strat}/{direction}: {len(pairs)} registered predicates, the translated tables have {len(reg)}")
                    return
                tag = "st" if direction == "structure" else "un"
                hd = HOOK_HANDLER_ST if direction == "structure" else HOOK_HANDLER_UN
                for kind, types in SAMPLES.items():
                    for T in types:
                        # the real lookup: class registry first
                        real = None
                        try:
                            sd = disp._single_dispatch.dispatch(T)
                            if sd is not _DispatchNotFound:
                                for c in T.__mro__:
                                    if c in disp._single_dispatch.registry and c is not object:
                                        ent = next((e for e in cv["base_tables"][direction]["cls"] if e["cls"] == c.__name__), None)
                                        real = hd[ent["handler"]] if ent else "?"
                                        break
                        except Exception:
                            pass
                        if real is None:
                            for j, (pred, handler, *_rest) in enumerate(pairs):
                                try:
                                    ok = pred(T)
                                except Exception:
                                    continue
                                if ok:
                                    real = hd[reg[len(reg) - 1 - j]["handler"]]
                                    break
                        want = f"(Some {real})" if real is not None else "None"
                        cases.append(f"hh_eqb (lookup {'true' if full else 'false'} {'true' if strat == 'dict' else 'false'} src_{tag}_cls src_{tag}_base src_{tag}_conv {kind}) {want}")
                        meta.append({"converter": type(conv).__name__, "strategy": strat, "direction": direction, "type": repr(T), "kind": kind, "real_entry": real})
    src = ("From V.Model Require Import Base HookTable ConvLane.\nFrom V.Gen Require Import HooksSrc.\nDefinition cs : list bool := [\n" + ";\n".join(cases) +
           "\n].\nEval vm_compute in (bad_from 0 cs).\n")
    rc, out = run_cases_file(f"hooks_{v.seed}", src)
    vals = parse_coq_value(out)
    if rc != 0 or not vals:
        v.obligation("correspondence:HOOKS:coqc", False, out[-600:])
        return
    import re
    bad = [int(x) for x in re.findall(r"\d+", vals[-1])]
    v.obligation("correspondence:HOOKS (model lookup over the translated registration tables = the registered entry the real dispatcher selects, "
                 f"{len(cases)} (converter, strategy, direction, type) cases over every constructor and spelling)", not bad,
                 "" if not bad else f"{len(bad)} disagree, first: {meta[bad[0]]}")
    v.coverage["hooks_cases"] = len(cases)
