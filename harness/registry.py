"""Which files, theorems and lanes decide which property."""
import disp_checks
import tpl_checks
import field_checks
import pass_checks
import tagged_checks
import dis_checks
import thr_checks
import pep563_checks
import sub_checks
import gen_checks
import conv_checks
import cycle_checks
import err_checks
import alias_checks
import pre_checks
import hooks_checks
import union_checks
import twin_checks
import recwarm_checks
import litenum_checks
import copyopt_checks
import overrides_checks

CORE_A = ["Model/Base.v", "Model/Dispatch.v", "Model/Routing.v", "Model/DispLane.v", "Gen/DispatchSrc.v", "Gen/ConvSrc.v",
          "Proofs/DispatchProofs.v", "Proofs/RoutingProofs.v", "Proofs/SrcObligations.v"]

SIZES = {"quick": 1, "thorough": 12}


def _c07(v, b, tier):
    n = 120 * SIZES[tier]
    disp_checks.check_c07(v, b.t1_summary, n, 22 if tier == "quick" else 60)


def _c08(v, b, tier):
    n = 90 * SIZES[tier]
    disp_checks.check_c08(v, b.t1_summary, n, 22 if tier == "quick" else 60)
    twin_checks.check_c08_twin(v, 150 * SIZES[tier])
    recwarm_checks.check_recwarm(v, "C08", 50 * SIZES[tier])


def _c18(v, b, tier):
    n = 90 * SIZES[tier]
    disp_checks.check_c18(v, b.t1_summary, n, 14 if tier == "quick" else 40)
    copyopt_checks.copyopt_battery(v, "C18", 80 * SIZES[tier])
    copyopt_checks.copy_engine_battery(v, "C18")


def default_summary():
    import json
    from common import COQ
    return json.loads((COQ / "GenDefault" / "t1_summary.json").read_text())


CORE_TPL = ["Model/Base.v", "Model/Templates.v", "Model/TdTemplates.v", "Model/TplLane.v", "Gen/GenSrc.v", "Proofs/TemplatesProofs.v", "Proofs/SrcObligationsGen.v"]


def _c04(v, b, tier):
    tpl_checks.check_c04(v, b.t1_summary, 70 * SIZES[tier], 6)
    hooks_checks.check_hooks(v, b.t1_summary)
    conv_checks.check_conv(v, "C04", b.t1_summary, 30 * SIZES[tier])
    cycle_checks.cycle_battery(v, "C04", 150 * SIZES[tier])
    cycle_checks.generic_battery(v, "C04", 60 * SIZES[tier])
    union_checks.union_battery(v, "C04", 50 * SIZES[tier])
    overrides_checks.iter_battery(v, 0)
    overrides_checks.unsupported_field_battery(v)


def _c09(v, b, tier):
    tpl_checks.check_c09(v, b.t1_summary, 80 * SIZES[tier], 5)


def _c20(v, b, tier):
    field_checks.check_c20(v, tier)


def _c15(v, b, tier):
    pass_checks.check_c15(v, b.t1_summary, 60 * SIZES[tier])


def _c13(v, b, tier):
    tagged_checks.check_c13(v, 50 * SIZES[tier])
    twin_checks.strategy_after_warm(v, v.coverage.setdefault("strategy_after_use", {}), only=["configure_tagged_union"], lane="TAG/C13 strategy applied after the converter was used")


def _c12(v, b, tier):
    dis_checks.check_c12(v, b.t1_summary, 40 * SIZES[tier], [1, 7] if tier == "quick" else [1, 2, 3, 5, 7, 11, 13, 17])


def _c19(v, b, tier):
    thr_checks.check_c19(v, b.t1_summary, 70 * SIZES[tier], 6 * SIZES[tier])
    recwarm_checks.check_recwarm_threads(v, 36 * min(SIZES[tier], 4))
    pep563_checks.pep563_schedule_battery(v)
    pep563_checks.preemption_battery(v, 150 * min(SIZES[tier], 6))


def _c14(v, b, tier):
    sub_checks.check_c14(v, b.t1_summary, 30 * SIZES[tier])
    twin_checks.strategy_after_warm(v, v.coverage.setdefault("strategy_after_use", {}), only=["include_subclasses"], lane="SUB/C14 strategy applied after the converter was used")


def _c17(v, b, tier):
    gen_checks.check_c17(v, 45 * SIZES[tier])
    cycle_checks.generic_battery(v, "C17", 60 * SIZES[tier])


def _c10(v, b, tier):
    tpl_checks.check_c10(v, b.t1_summary, 60 * SIZES[tier], 5)
    tagged_checks.check_c10_tagged(v, 80 * SIZES[tier])
    copyopt_checks.copyopt_battery(v, "C10", 60 * SIZES[tier])


CORE_CONV = ["Model/Base.v", "Model/Templates.v", "Model/Conv.v", "Model/ConvSpec.v", "Model/ConvLane.v", "Model/HookTable.v", "Gen/GenSrc.v", "Gen/HooksSrc.v",
             "Proofs/TemplatesProofs.v", "Proofs/SrcObligationsGen.v", "Proofs/SrcObligationsHooks.v", "Proofs/ClassSound.v"]
T1_CONV = ["gen", "converters", "hooks"]

RULE_CONV = ("worlds = 2 enums + 1-4 generated classes (attrs, frozen attrs, dataclasses; 0-4 attributes in random order, required / default / factory, kw_only, "
             "private names, untyped, recursive references through Optional / List / Dict) ; per world 2-3 top-level types drawn from every constructor of the nested "
             "universe (Any, int/float/str/bytes/bool, Enum, Literal, List/list/Sequence/MutableSequence, homogeneous and heterogeneous tuples, Set/FrozenSet, "
             "Dict/Mapping, Optional, classes, NewType, Annotated; depth <= 3, random spelling); per type 2 conforming values; per value 4 of the 8 converter configurations "
             "(class x validation mode x strategy, 25% with forbid_extra_keys), converters kept alive for the whole world; per configuration: unstructure, structure of the "
             "result by the same and by other configurations, two mutated payloads (corrupt / drop / add / retype a component at any depth) and one junk object; "
             "non-trivial = composite type or class; distinct = sha1 of (world, operation, configuration, type, input) ; PLUS the CYCLE battery (oracle only): "
             "families of 1-3 mutually recursive classes of mixed kinds (attrs, dataclass, NamedTuple, TypedDict) defined as source text in a fresh module, "
             "cycle closed through Optional / List / Dict / Tuple[.., ...] / a direct reference, 0-2 plain attributes (int, str, float, bool, Enum, List[int], "
             "Optional[str], Dict[str, Enum]), optional second edge, optional attrs field converters on the reference-carrying attributes; per family the classes are "
             "used in a random order on converters that live as long as the family; per class 2 values x (unstructure, structure back in both modes, 3 corrupted payloads "
             "+ every single-key deletion) ; PLUS the GENERIC battery (oracle only, Converter): a generic attrs class or dataclass Box[T] with 1-4 TypeVar-typed attributes "
             "(T, List[T], Dict[str, T], Optional[T], Tuple[T, ...]; attrs field converters on 45% of them), used as Box[A] for two A of {int, str, Enum, attrs class, dataclass}, "
             "as a non-parametrised subclass of Box[A] and as its child; values / expected encodings / conformance from the SUBSTITUTED annotations ; PLUS the UNION battery "
             "(oracle only): unions of 2-3 attrs classes / dataclasses, each with a unique required attribute (+ shared, defaulted attributes), optionally one fallback member "
             "(no attributes, or only shared / defaulted ones), optionally None, members in random order; at top level, in List / Dict / Tuple and as a class attribute; "
             "both converter classes, both validation modes, valid / mutated / key-deleted / junk payloads")


def _conv(prop, base):
    def run(v, b, tier):
        hooks_checks.check_hooks(v, b.t1_summary)
        conv_checks.check_conv(v, prop, b.t1_summary, base * SIZES[tier])
        cycle_checks.cycle_battery(v, prop, 150 * SIZES[tier])
        if prop != "C06":
            cycle_checks.generic_battery(v, prop, 60 * SIZES[tier])      # generic classes: documented for Converter only
        if prop == "C02":
            pass_checks.check_c02_passthrough(v, 60 * SIZES[tier])
        union_checks.union_battery(v, prop, 50 * SIZES[tier], b.t1_summary)
        if prop in ("C01", "C02", "C03"):
            litenum_checks.litenum_battery(v, prop, 40 * SIZES[tier])
        if prop in ("C01", "C03"):
            overrides_checks.namedtuple_battery(v, prop, 10 * SIZES[tier])
        if prop == "C01":
            overrides_checks.user_built_pair_battery(v)
        if prop == "C03":
            copyopt_checks.copyopt_battery(v, prop, 60 * SIZES[tier])
            overrides_checks.overrides_battery(v, 32)
            overrides_checks.omit_default_encoding_battery(v)
        if prop == "C06":
            tpl_checks.key_modes_classes(v, v.coverage.setdefault("key_modes", {}))
            copyopt_checks.copy_engine_battery(v, "C06")
    return run


RULE_TPL = ("scenarios = a generated attrs class or dataclass (0-6 attributes in random order, each independently required / default / factory, "
            "kw_only, init=False, private or explicit alias, field converter, untyped) x generator options (forbid, use_alias, include_init_false) x "
            "per-attribute overrides (omit, rename incl. quote/backslash keys) ; payloads = mostly-valid dicts (missing / bad / extra keys) plus "
            "junk objects (lists, tuples, strings, ints, None, non-dict Mappings); a case is non-trivial if its class has >= 2 attributes; "
            "distinct = distinct sha1 of (scenario, payload)")

RULE_DISP = ("sessions of public-API operations (register_*_hook on classes/NewTypes/unions, *_hook_func, *_hook_factory plain and "
             "converter-taking, get_*_hook cached/uncached, structure/unstructure calls, copy) drawn from one PRNG over a pool of ~70 types "
             "and 13 predicates; a case is non-trivial if it has >= 3 operations of >= 2 kinds; distinct = distinct sha1 of the step list")

REGISTRY = {
    "C01": {"props_file": "Props/C01.v", "files": CORE_CONV + ["Model/TdTemplates.v", "Proofs/TdProofs.v", "Proofs/TdRoundtrip.v", "Model/Disambig.v", "Model/UnionStruct.v", "Gen/UStructSrc.v", "Gen/DisSrc.v",
                                                             "Proofs/DisambigProofs.v", "Proofs/UnionStructProofs.v", "Proofs/SrcObligationsUnion.v", "Proofs/UnstructProofs.v", "Proofs/ClassRoundtrip.v", "Proofs/ConvRoundtrip.v", "Proofs/ConvMono.v", "Proofs/ConvUnAgree.v", "Proofs/BaseRoundtrip.v", "Proofs/ConvCfg.v", "Props/C01.v"],
            "run": _conv("C01", 40), "rule": RULE_CONV, "t1_sections": T1_CONV + ["disambig", "unionstruct"]},
    "C03": {"props_file": "Props/C03.v", "files": CORE_CONV + ["Model/ConvEnc.v", "Proofs/UnstructProofs.v", "Proofs/ClassRoundtrip.v", "Proofs/ConvSound.v", "Proofs/ConvPrim.v", "Proofs/ConvRoundtrip.v", "Proofs/ConvEncProofs.v", "Proofs/ConvCfg.v", "Props/C03.v"],
            "run": _conv("C03", 40), "rule": RULE_CONV, "t1_sections": T1_CONV},
    "C06": {"props_file": "Props/C06.v", "files": CORE_CONV + ["Proofs/UnstructProofs.v", "Proofs/ClassRoundtrip.v", "Proofs/ConvSound.v", "Proofs/ConvRoundtrip.v", "Proofs/ConvAgree.v", "Proofs/ConvMono.v", "Proofs/ConvUnAgree.v", "Proofs/ConvCfg.v", "Props/C06.v"],
            "run": _conv("C06", 40), "rule": RULE_CONV, "t1_sections": T1_CONV},
    "C05": {"props_file": "Props/C05.v", "files": CORE_CONV + ["Model/ConvErr.v", "Proofs/ConvErrProofs.v", "Proofs/ConvErrGlobal.v", "Proofs/ConvCfg.v", "Props/C05.v"],
            "run": (lambda v, b, tier: (hooks_checks.check_hooks(v, b.t1_summary), err_checks.check_c05(v, b.t1_summary, 60 * SIZES[tier]), overrides_checks.initfalse_fault_battery(v))), "t1_sections": T1_CONV,
            "rule": "worlds as in the CONV lane plus TypedDicts (25% of the classes); per world 3 target types (a class, or a class inside list / mapping / tuple / Optional), "
                    "per type 3 valid payloads (the unstructured form of a generated value); into each payload k in {0,1,1,2,2,3,4,6} independent faults are injected at random "
                    "positions of any depth: a leaf its type cannot accept (int/float/bytes/enum/literal positions), a required key removed, an extra key (when forbid_extra_keys is on); "
                    "faults never sit inside a component another fault replaces or removes; k = 0 is the control (must be accepted); non-trivial = every faulted payload; "
                    "distinct = sha1 of (world, type, payload, forbid)"},
    "C11": {"props_file": "Props/C11.v", "files": ["Model/Base.v", "Model/Alias.v", "Gen/AliasSrc.v", "Proofs/ClassSound.v", "Proofs/AliasProofs.v", "Props/C11.v"],
            "run": (lambda v, b, tier: alias_checks.check_c11(v, 60 * SIZES[tier])), "t1_sections": ["alias"],
            "rule": "worlds as in the CONV lane plus TypedDicts; per world 3 types x 2 values x 3 converter configurations: unstructure the value, then structure the result, "
                    "a mutated copy and a junk object; plus per world a tagged-union battery (2-3 members x forbid on/off x default or not x validation mode; member instances; "
                    "payloads with known / unknown / missing tag, extra keys, reordered keys) and a battery of TypedDict hooks built with renames / omissions and forbid_extra_keys "
                    "(valid payloads, extra keys, missing keys, bad values, non-mappings); every call is bracketed by a deep identity snapshot of the argument; non-trivial = every call; "
                    "distinct = sha1 of (operation, configuration, type, input)"},
    "C16": {"props_file": "Props/C16.v", "files": CORE_CONV + ["Model/Preconf.v", "Model/PreconfSpec.v", "Proofs/ConvSound.v", "Proofs/ConvPrim.v", "Proofs/PreconfProofs.v", "Proofs/UnstructProofs.v", "Proofs/ClassRoundtrip.v", "Proofs/ConvRoundtrip.v", "Proofs/JsonRoundtrip.v", "Proofs/YamlRoundtrip.v", "Proofs/ConvCfg.v", "Props/C16.v"],
            "run": (lambda v, b, tier: (hooks_checks.check_hooks(v, b.t1_summary), pre_checks.check_c16(v, 40 * SIZES[tier], conv_checks.flags_of(b.t1_summary)),
                               copyopt_checks.preconf_copy_battery(v, pre_checks.FORMATS, 30 * SIZES[tier]))), "t1_sections": T1_CONV,
            "rule": "worlds as in the CONV lane with datetime / date leaves, no Any / untyped positions; per world 4 types x 2 values x every importable format (json, pyyaml, msgspec): "
                    "dumps, loads, deep equality -- skipped when the type is outside the format's limits (bool / float / bytes / class keys and int-valued enum keys in text formats, bytes "
                    "literals); for json additionally the model comparison; per world the user-hook battery: a hook pair registered for an attrs class and for a dataclass, used at top level, "
                    "in a list, inside an attrs class and inside a dataclass, for every format; non-trivial = composite type or class, and every hook check; distinct = sha1 of "
                    "(world, format, type, value)"},
    "C02": {"props_file": "Props/C02.v", "files": CORE_CONV + ["Model/TdTemplates.v", "Proofs/TdProofs.v", "Model/Disambig.v", "Model/UnionStruct.v", "Gen/UStructSrc.v", "Proofs/ConvSound.v", "Proofs/ConvCfg.v", "Props/C02.v"], "run": _conv("C02", 40), "rule": RULE_CONV, "t1_sections": T1_CONV + ["disambig", "unionstruct"]},
    "C04": {"props_file": "Props/C04.v", "files": CORE_TPL + ["Model/Conv.v", "Proofs/TdProofs.v", "Proofs/UnstructProofs.v", "Proofs/ClassSound.v", "Proofs/ClassRoundtrip.v", "Proofs/ConvAgree.v", "Proofs/ConvCfg.v", "Props/C04.v"], "run": _c04,
            "rule": RULE_TPL + " ; PLUS the CONV worlds (see C01) extended with Counter / defaultdict / deque and TypedDict positions (oracle only): every structure call is repeated on the same converter class and options with the other validation mode", "t1_sections": ["gen", "converters", "hooks"]},
    "C09": {"props_file": "Props/C09.v", "files": CORE_TPL + ["Proofs/UnstructProofs.v", "Props/C09.v"], "run": _c09, "rule": RULE_TPL, "t1_sections": ["gen"]},
    "C20": {"props_file": "Props/C20.v", "files": ["Model/Base.v", "Model/FieldConv.v", "Props/C20.v"], "run": _c20, "t1_sections": [],
            "rule": "exhaustive enumeration of the decision domain {converter?} x {prefer_attrib_converters} x {untyped, hook found, hook not found, hook found but "
                    "fails lazily} x class shapes (position of the attribute, 0-3 other attributes, default or not) x {Converter, BaseConverter} x validation mode x strategy; "
                    "every case is non-trivial; distinct = distinct configuration"},
    "C15": {"props_file": "Props/C15.v", "files": ["Model/Base.v", "Model/Passthrough.v", "Gen/UnionsSrc.v", "Proofs/PassthroughProofs.v", "Props/C15.v"],
            "run": _c15, "t1_sections": ["unions"],
            "rule": "unions of 2-5 members drawn from classes {NoneType,str,bool,int,float,bytes, two attrs classes}, Literal[...] of look-alike values "
                    "(0/False, 1/True, '', b'', None) and NewTypes; configured class sets S of 2-7 classes (30% the JSON set, 20% with an int subclass); "
                    "18 probe values incl. 0/False/0.0, 1/True/1.0 and subclass instances; every rotation plus two random permutations of the members; "
                    "non-trivial = union has >= 2 members; distinct = (union, S, value)"},
    "C13": {"props_file": "Props/C13.v", "files": CORE_A + ["Model/Tagged.v", "Proofs/TemplatesProofs.v", "Proofs/TaggedProofs.v", "Props/C13.v"],
            "run": _c13, "t1_sections": ["dispatch", "converters"],
            "rule": "configurations = union of 2-4 of four classes (attrs and dataclass, overlapping field names) x tag generator (class name, dict, "
                    "prefixed, non-injective) x tag name (incl. names colliding with member fields) x default (none, a member, a class outside) x "
                    "forbid_extra_keys x converter class x validation mode; per configuration every member instance, a subclass instance, and payload "
                    "variants (tagged, tag first, tag missing, unknown tag, extra key); every case non-trivial; distinct = (configuration, instance)"},
    "C12": {"props_file": "Props/C12.v", "files": ["Model/Base.v", "Model/Disambig.v", "Model/DisambigSrc.v", "Gen/DisSrc.v", "Proofs/DisambigProofs.v", "Props/C12.v"],
            "run": _c12, "t1_sections": ["disambig"],
            "rule": "unions of 2-5 generated attrs classes / dataclasses with 1-4 attributes drawn from 7 names (overlapping), each required or defaulted, "
                    "12% init=False, 20% Literal-typed, 30% of unions with a shared Literal `kind` attribute, 15% with None; every rotation plus two "
                    "random permutations of the members; two instances per member; the whole battery re-run in subprocesses under other PYTHONHASHSEEDs; "
                    "non-trivial = >= 2 members; distinct = (union, order)"},
    "C19": {"props_file": "Props/C19.v", "files": ["Model/Base.v", "Model/Threads.v", "Model/LateBinding.v", "Gen/ThreadSrc.v", "Gen/LateSrc.v", "Proofs/ThreadsProofs.v", "Proofs/LateBindingProofs.v", "Props/C19.v"],
            "run": _c19, "t1_sections": ["threads", "latebinding"],
            "rule": "forced schedules: 2-3 threads, each with 1-2 first-use requests over a cyclic and a diamond class graph, random schedules of 4-14 "
                    "macro-steps (a step runs one thread to its next parking point: a hook factory on a marker field type blocks it mid-generation), "
                    "both directions; every structure-direction schedule is run twice, with the working set as in the source and with it rebound to a "
                    "shared object (what-if), and compared with the model under the matching scope; plus free-running stress rounds (12 threads x 2 "
                    "object graphs on one fresh converter) against a sequential reference; plus the PEP 563 schedule battery: 4 class shapes with string annotations x "
                    "3 x 3 operations of the two threads x thread A stopped after resolving 1 or 2 annotations x both validation modes, thread B running its whole first use "
                    "in between, compared (results of both threads and of later calls) with a sequential run on a fresh copy of the classes; plus the preemption battery: two threads make the same "
                    "first-use call (unions of attrs classes / dataclasses, a class graph with lists, dicts and unions, both directions) on fresh class objects and a fresh converter, thread A "
                    "preempted once after its k-th executed line inside cattrs (k over an evenly spaced sample of all lines of the first use), thread B running to completion in between; "
                    "non-trivial = schedule of >= 3 steps"},
    "C14": {"props_file": "Props/C14.v", "files": ["Model/Base.v", "Model/Disambig.v", "Model/Subclasses.v", "Model/Tagged.v", "Model/SubUnion.v", "Gen/DisSrc.v", "Gen/SubSrc.v", "Proofs/DisambigProofs.v", "Proofs/TaggedProofs.v", "Proofs/SubUnionProofs.v",
                                                   "Proofs/SubclassesProofs.v", "Props/C14.v"],
            "run": _c14, "t1_sections": ["disambig", "subclasses"],
            "rule": "random class trees of 2-7 attrs classes (depth <= 3, own attributes 0-2 drawn from 8 names, required or defaulted, field-less "
                    "subclasses included), forbid_extra_keys and validation mode random, 25% with an explicit shuffled subclasses tuple; both the "
                    "automatic variant and the tagged-union strategy; every (K, x) pair with x an instance of K or a descendant; non-trivial = tree of "
                    ">= 3 classes; distinct = (tree, strategy, K, x)"},
    "C17": {"props_file": "Props/C17.v", "files": ["Model/Base.v", "Model/Generics.v", "Proofs/GenericsProofs.v", "Props/C17.v"],
            "run": _c17, "t1_sections": [],
            "rule": "generated generic attrs classes / dataclasses with 1-2 TypeVars and 1-5 attributes whose annotations are drawn from 12 shapes (bare T, "
                    "List/Optional/Dict/Tuple/nested containers, Annotated inside and at top level, nested generic class, builtin list, concrete), 30% "
                    "deriving from a parametrised base (concrete, by the child's TypeVar, with a reused TypeVar name); two parametrisations per class used "
                    "interleaved on one converter; per parametrisation: unstructure, structure, structure of a corrupted payload, each compared with the "
                    "hand-substituted non-generic clone; non-trivial = class with >= 2 attributes; distinct = (class, parametrisation, round)"},
    "C10": {"props_file": "Props/C10.v", "files": CORE_TPL + ["Model/Tagged.v", "Proofs/TaggedProofs.v", "Proofs/TdProofs.v", "Props/C10.v"], "run": _c10, "t1_sections": ["gen"],
            "rule": RULE_TPL + " ; PLUS the systematic key-modes battery (attribute kind x key mode x forbid x 21 payloads, no randomness) ; PLUS tagged unions (oracle only): 2-4 members x tag generator x tag name x default member or none x forbid on/off x validation mode; payloads = a member's "
                    "own dict + the tag (known / unknown / missing) + a known set of 0-2 extra keys, key order reversed half of the time, at top level, inside List[U] and inside an attrs class attribute"},
    "C07": {"props_file": "Props/C07.v", "files": CORE_A + ["Props/C07.v"], "run": _c07, "rule": RULE_DISP},
    "C08": {"props_file": "Props/C08.v", "files": CORE_A + ["Model/LateBinding.v", "Gen/LateSrc.v", "Proofs/LateBindingProofs.v", "Props/C08.v"], "run": _c08, "rule": RULE_DISP,
            "t1_sections": ["dispatch", "converters", "latebinding"]},
    "C18": {"props_file": "Props/C18.v", "files": CORE_A + ["Props/C18.v"], "run": _c18, "rule": RULE_DISP},
}
