"""Which files, theorems and lanes decide which property."""
import disp_checks

CORE_A = ["Model/Base.v", "Model/Dispatch.v", "Model/Routing.v", "Model/DispLane.v", "Gen/DispatchSrc.v", "Gen/ConvSrc.v",
          "Proofs/DispatchProofs.v", "Proofs/RoutingProofs.v", "Proofs/SrcObligations.v"]

SIZES = {"quick": 1, "thorough": 12}


def _c07(v, b, tier):
    n = 120 * SIZES[tier]
    disp_checks.check_c07(v, b.t1_summary if b.t1_ok else default_summary(), n, 22 if tier == "quick" else 60)


def _c08(v, b, tier):
    n = 90 * SIZES[tier]
    disp_checks.check_c08(v, b.t1_summary if b.t1_ok else default_summary(), n, 22 if tier == "quick" else 60)


def _c18(v, b, tier):
    n = 90 * SIZES[tier]
    disp_checks.check_c18(v, b.t1_summary if b.t1_ok else default_summary(), n, 14 if tier == "quick" else 40)


def default_summary():
    import json
    from common import COQ
    return json.loads((COQ / "GenDefault" / "t1_summary.json").read_text())


RULE_DISP = ("sessions of public-API operations (register_*_hook on classes/NewTypes/unions, *_hook_func, *_hook_factory plain and "
             "converter-taking, get_*_hook cached/uncached, structure/unstructure calls, copy) drawn from one PRNG over a pool of ~70 types "
             "and 13 predicates; a case is non-trivial if it has >= 3 operations of >= 2 kinds; distinct = distinct sha1 of the step list")

REGISTRY = {
    "C07": {"props_file": "Props/C07.v", "files": CORE_A + ["Props/C07.v"], "run": _c07, "rule": RULE_DISP},
    "C08": {"props_file": "Props/C08.v", "files": CORE_A + ["Props/C08.v"], "run": _c08, "rule": RULE_DISP},
    "C18": {"props_file": "Props/C18.v", "files": CORE_A + ["Props/C18.v"], "run": _c18, "rule": RULE_DISP},
}
