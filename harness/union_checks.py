"""UNION battery (no model): unions of attrs classes / dataclasses under the default (unique-field) disambiguation, with and
without None, with and without a fallback member (a class without a unique required attribute, e.g. one without attributes
at all), at top level and nested in collections and class attributes.  The C01 / C02 / C03 / C04 / C06 oracles are applied
directly to the implementation: class unions are part of "every supported type" and are not in the nested Coq model.

Every union generated here is disambiguable by construction: each non-fallback member has a required attribute whose name
no other member uses; at most one member has none."""
from __future__ import annotations

import copy
import dataclasses
import random
import typing
from typing import Any, Dict, List, Optional, Tuple, Union

import attrs

import re

from common import Verdict, parse_coq_value, run_cases_file
from lane_tpl import Interner, cN, c_bool, c_list
from cycle_checks import deep_same, key_deletions, leaf_corruptions, listify, mutate, primitive_only, run, same_outcome

LEAVES = [("int", int), ("str", str), ("float", float), ("bool", bool), ("list_int", List[int]), ("dict_str_int", Dict[str, int]), ("opt_int", Optional[int])]
NODEFAULT = object()


def leaf_value(rng, name):
    if name == "int":
        return rng.choice([0, 1, -3, 7])
    if name == "str":
        return rng.choice(["", "a", "xyz"])
    if name == "float":
        return rng.choice([0.0, 1.5, -2.25])
    if name == "bool":
        return rng.random() < 0.5
    if name == "list_int":
        return [rng.randrange(5) for _ in range(rng.randrange(3))]
    if name == "dict_str_int":
        return {rng.choice("abc"): rng.randrange(5) for _ in range(rng.randrange(3))}
    if name == "opt_int":
        return rng.choice([None, 0, 4])
    raise ValueError(name)


def leaf_default(rng, name):
    return {"int": rng.choice([0, 5]), "str": rng.choice(["", "d"]), "float": 0.5, "bool": False, "opt_int": None}.get(name, NODEFAULT)


def leaf_conforms(name, v):
    if name == "int":
        return type(v) is int
    if name == "str":
        return type(v) is str
    if name == "float":
        return type(v) is float
    if name == "bool":
        return type(v) is bool
    if name == "list_int":
        return type(v) is list and all(type(e) is int for e in v)
    if name == "dict_str_int":
        return type(v) is dict and all(type(k) is str and type(e) is int for k, e in v.items())
    if name == "opt_int":
        return v is None or type(v) is int
    return False


class UWorld:
    """2-3 members with a unique required attribute each (+ optional shared / defaulted attributes), optionally one fallback
    member; the union in a random member order and spelling."""

    def __init__(self, rng: random.Random, idx: int):
        self.rng = rng
        k = rng.randint(2, 3)
        shared = rng.random() < 0.5
        shared_leaf = rng.choice(LEAVES[:4])
        shared_required = rng.random() < 0.5
        self.specs = []          # (class name, kind, [(attr name, leaf name, default)])
        for i in range(k):
            fields = [(f"u{i}", rng.choice(LEAVES), NODEFAULT)]
            if rng.random() < 0.4:
                fields.append((f"v{i}", rng.choice(LEAVES), NODEFAULT))
            if shared:
                fields.append(("s", shared_leaf, NODEFAULT if shared_required else leaf_default(rng, shared_leaf[0])))
            if rng.random() < 0.5:
                lf = rng.choice(LEAVES[:4])
                fields.append((f"d{i}", lf, leaf_default(rng, lf[0])))
            fields.sort(key=lambda f: f[2] is not NODEFAULT)       # mandatory attributes first
            self.specs.append((f"UM{idx}_{i}", rng.choice(["attrs", "frozen", "dataclass"]), fields))
        self.fallback = None
        if rng.random() < 0.55:
            r = rng.random()
            if r < 0.5:
                fields = []                                   # no attributes at all: its payload is {}
            elif r < 0.75 and shared:
                fields = [("s", shared_leaf, NODEFAULT if shared_required else leaf_default(rng, shared_leaf[0]))]
            else:
                lf = rng.choice(LEAVES[:4])
                fields = [("only_default", lf, leaf_default(rng, lf[0]))]
            self.fallback = len(self.specs)
            self.specs.append((f"UF{idx}", rng.choice(["attrs", "dataclass"]), fields))
        self.cls = [self._make(*s) for s in self.specs]
        order = list(range(len(self.cls)))
        rng.shuffle(order)
        self.has_none = rng.random() < 0.5
        args = [self.cls[i] for i in order]
        if self.has_none:
            args.insert(rng.randrange(len(args) + 1), type(None))
        self.order = order
        self.U = Union[tuple(args)]
        self.spelling = "Union[" + ", ".join("None" if a is type(None) else a.__name__ for a in args) + "]"

    @staticmethod
    def _make(name, kind, fields):
        if kind == "dataclass":
            fl = []
            for n, (_ln, ty), d in fields:
                if d is NODEFAULT:
                    fl.append((n, ty))
                else:
                    fl.append((n, ty, dataclasses.field(default=d)))
            return dataclasses.make_dataclass(name, fl)
        attrs_fields = {n: (attrs.field(type=ty) if d is NODEFAULT else attrs.field(type=ty, default=d)) for n, (_ln, ty), d in fields}
        return attrs.make_class(name, attrs_fields, frozen=(kind == "frozen"))

    def instance(self, i):
        rng = self.rng
        kw = {}
        for n, (ln, _ty), d in self.specs[i][2]:
            if d is not NODEFAULT and rng.random() < 0.5:
                continue
            kw[n] = leaf_value(rng, ln)
        return self.cls[i](**kw)

    def encode(self, x):
        if x is None:
            return None
        i = self.cls.index(type(x))
        return {n: copy.deepcopy(getattr(x, n)) for n, _l, _d in self.specs[i][2]}

    def conforms(self, v):
        if v is None:
            return self.has_none
        if type(v) not in self.cls:
            return False
        i = self.cls.index(type(v))
        return all(leaf_conforms(ln, getattr(v, n)) for n, (ln, _ty), _d in self.specs[i][2])

    def describe(self):
        return {"union": self.spelling,
                "members": [f"{n}({k}): " + ", ".join(f"{a}: {ln}" + ("" if d is NODEFAULT else f" = {d!r}") for a, (ln, _t), d in fs) for n, k, fs in self.specs],
                "fallback_member": self.specs[self.fallback][0] if self.fallback is not None else None}


def positions(w: UWorld, rng):
    """(label, type, wrap a member value, encode, conforms)"""
    U = w.U
    Holder = attrs.make_class("UHolder", {"x": attrs.field(type=U), "n": attrs.field(type=int, default=0)})
    out = [("top", U, lambda x: x, w.encode, w.conforms),
           ("List[U]", List[U], lambda x: [x, w.instance(rng.randrange(len(w.cls)))], lambda l: [w.encode(e) for e in l],
            lambda v: type(v) is list and all(w.conforms(e) for e in v)),
           ("Dict[str, U]", Dict[str, U], lambda x: {"k": x}, lambda d: {k: w.encode(e) for k, e in d.items()},
            lambda v: type(v) is dict and all(type(k) is str and w.conforms(e) for k, e in v.items())),
           ("Tuple[U, int]", Tuple[U, int], lambda x: (x, 3), lambda t: (w.encode(t[0]), t[1]),
            lambda v: type(v) is tuple and len(v) == 2 and w.conforms(v[0]) and type(v[1]) is int),
           ("attribute x: U", Holder, lambda x: Holder(x, 4), lambda h: {"x": w.encode(h.x), "n": h.n},
            lambda v: type(v) is Holder and w.conforms(v.x) and type(v.n) is int)]
    return out


def union_battery(v: Verdict, prop: str, n_worlds: int, t1_summary=None):
    from cattrs import BaseConverter, Converter
    lane_cases, lane_meta, intern = [], [], Interner()
    rng = random.Random(v.seed * 15485863 + sum(map(ord, prop)) + 5)
    hist = {"worlds": 0, "members": {}, "with_none": 0, "with_fallback": 0, "empty_fallback": 0, "positions": {}, "values": 0, "none_values": 0,
            "roundtrips": 0, "structure_calls": 0, "mode_pairs": 0, "class_pairs": 0}
    for wi in range(n_worlds):
        w = UWorld(rng, wi)
        hist["worlds"] += 1
        hist["members"][len(w.cls)] = hist["members"].get(len(w.cls), 0) + 1
        hist["with_none"] += w.has_none
        hist["with_fallback"] += w.fallback is not None
        hist["empty_fallback"] += w.fallback is not None and not w.specs[w.fallback][2]
        convs = {}

        def conv(full, dv):
            if (full, dv) not in convs:
                convs[(full, dv)] = (Converter if full else BaseConverter)(detailed_validation=dv)
            return convs[(full, dv)]
        if prop in ("C01", "C02") and t1_summary is not None:
            union_lane_cases(w, conv(True, rng.random() < 0.5), t1_summary, intern, lane_cases, lane_meta, v)
        pos = positions(w, rng)
        desc = dict(w.describe(), battery="UNION")
        for label, T, wrap, enc, conf in rng.sample(pos, 3) if v.tier == "quick" else pos:
            hist["positions"][label] = hist["positions"].get(label, 0) + 1
            members = list(range(len(w.cls))) + ([None] if w.has_none else [])
            for mi in members:
                inner = None if mi is None else w.instance(mi)
                x = wrap(inner)
                hist["values"] += 1
                hist["none_values"] += inner is None
                base_ok = label != "Tuple[U, int]"      # heterogeneous tuples are outside BaseConverter's documented support
                dv = rng.random() < 0.5
                c1 = conv(True, dv)
                case = dict(desc, position=label, value=repr(x), detailed_validation=dv)
                v.count(repr((w.spelling, [s[2] for s in w.specs], label, repr(x), dv)), True)
                ures = run(c1.unstructure, x, T)
                if ures[0] != "ok":
                    if prop in ("C01", "C03"):
                        v.violation("unstructure raised on a value of a class union", dict(case, unstructure=ures[1]))
                    continue
                u = ures[1]
                if prop == "C03":
                    exp = enc(x)
                    if not primitive_only(u) or not deep_same(listify(u), listify(exp)):
                        v.violation("unstructured output of a class-union position differs from the member's own encoding",
                                    dict(case, unstructured=repr(u), expected=repr(exp)))
                if prop == "C01":
                    for full2 in ((True, False) if base_ok else (True,)):
                        for dv2 in (True, False):
                            sres = run(conv(full2, dv2).structure, copy.deepcopy(u), T)
                            hist["roundtrips"] += 1
                            if not (sres[0] == "ok" and deep_same(sres[1], x)):
                                v.violation("round trip through a class union does not give back the value",
                                            dict(case, unstructured=repr(u), structuring_converter="Converter" if full2 else "BaseConverter",
                                                 structure_detailed_validation=dv2, structured=repr(sres[1])))
                    ub = run(conv(False, dv).unstructure, x, T) if base_ok else ("skip", None)
                    if ub[0] == "ok":
                        sres = run(conv(True, dv).structure, copy.deepcopy(ub[1]), T)
                        hist["roundtrips"] += 1
                        if not (sres[0] == "ok" and deep_same(sres[1], x)):
                            v.violation("round trip BaseConverter -> Converter through a class union does not give back the value",
                                        dict(case, unstructured=repr(ub[1]), structured=repr(sres[1])))
                if prop == "C06" and base_ok:
                    ub = run(conv(False, dv).unstructure, x, T)
                    hist["class_pairs"] += 1
                    if not (ub[0] == "ok" and deep_same(listify(ub[1]), listify(u))):
                        v.violation("Converter and BaseConverter unstructure a class-union value differently",
                                    dict(case, converter=repr(u), base_converter=repr(ub[1])))
                if prop in ("C02", "C04", "C06"):
                    payloads = [u] + [mutate(rng, u) for _ in range(2)] + key_deletions(u, 6) + leaf_corruptions(u, 4) + [{}, None, [], 0]
                    for o in payloads:
                        hist["structure_calls"] += 1
                        r1 = run(c1.structure, copy.deepcopy(o), T)
                        v.count(repr((w.spelling, label, repr(o), dv, "S")), True)
                        if prop == "C02" and r1[0] == "ok" and not conf(r1[1]):
                            v.violation("structure returned a value that is not of the (class-union) target type",
                                        dict(case, payload=repr(o), structured=repr(r1[1])))
                        if prop == "C04":
                            r2 = run(conv(True, not dv).structure, copy.deepcopy(o), T)
                            hist["mode_pairs"] += 1
                            if not same_outcome(r1, r2):
                                v.violation("detailed_validation changes acceptance or the result at a class-union position",
                                            dict(case, payload=repr(o), this_mode=repr(r1), other_mode=repr(r2)))
                        if prop == "C06" and base_ok and mapping_shaped(label, o):
                            r2 = run(conv(False, dv).structure, copy.deepcopy(o), T)
                            hist["class_pairs"] += 1
                            if not same_outcome(r1, r2):
                                v.violation("Converter and BaseConverter disagree on the same payload at a class-union position",
                                            dict(case, payload=repr(o), converter=repr(r1), base_converter=repr(r2)))
    if lane_cases:
        hist["model_cases"] = len(lane_cases)
        run_union_lane(v, prop, lane_cases, lane_meta)
    v.coverage["union_battery"] = hist


def mapping_shaped(label, o):
    """class positions hold mappings with string keys: the inputs on which the two converter classes are documented to agree"""
    def member(p):
        return p is None or (type(p) is dict and all(type(k) is str for k in p))
    if label == "top":
        return member(o)
    if label == "List[U]":
        return type(o) is list and all(member(e) for e in o)
    if label == "Dict[str, U]":
        return type(o) is dict and all(member(e) for e in o.values())
    if label == "Tuple[U, int]":
        return type(o) in (list, tuple) and len(o) == 2 and member(o[0])
    if label == "attribute x: U":
        return type(o) is dict and all(type(k) is str for k in o) and ("x" not in o or member(o["x"]))
    return False


# ------------------------------------------------------------------------------------ UNION lane (model correspondence)

def union_lane_cases(w: UWorld, conv, t1_summary, intern, cases, meta, v):
    """which member (or None, or an error) the union hook of the implementation hands a payload to, vs
    Model/UnionStruct.v over Model/Disambig.v with the flags T1 read from the current source"""
    skip = bool((t1_summary.get("disambig") or {}).get("skip_noninit", True))

    def coq_class(i):
        return "{| dc_id := %s; dc_fields := %s |}" % (cN(i + 1), c_list(
            "{| df_name := %s; df_required := %s; df_init := true; df_lit := None |}" % (cN(intern(n)), c_bool(d is NODEFAULT))
            for n, _l, d in w.specs[i][2]))
    classes = c_list(coq_class(i) for i in w.order)
    required = "(fun c => " + " ".join(
        "if N.eqb c %s then %s else" % (cN(i + 1), c_list(cN(intern(n)) for n, _l, d in s_[2] if d is NODEFAULT)) for i, s_ in enumerate(w.specs)) + " [])"
    payloads = [None, {}]
    for i in range(len(w.cls)):
        x = w.instance(i)
        full = w.encode(x)
        payloads.append(full)
        payloads.append({n: full[n] for n, _l, d in w.specs[i][2] if d is NODEFAULT})
    for o in payloads:
        try:
            r = conv.structure(copy.deepcopy(o), w.U)
            obs = "(Some None)" if r is None else f"(Some (Some {cN(w.cls.index(type(r)) + 1)}))"
            shown = None if r is None else type(r).__name__
        except RecursionError:
            raise
        except BaseException as e:       # noqa
            obs, shown = "None", f"raised {type(e).__name__}"
        pl = "None" if o is None else "(Some %s)" % c_list(f"({cN(intern(k))}, 0%N)" for k in o)
        cases.append("ures_eqb (union_structure N N %s src_union_none_guard_is_identity (fun ks => resolve 6 (fun l => l) %s true %s ks (fun _ => None)) "
                     "(fun c d => if forallb (fun k => mem_N k (keys d)) (%s c) then Ok c else Err EKey) %s) %s" % (
                         c_bool(w.has_none), c_bool(skip), classes, required, pl, obs))
        meta.append(dict(w.describe(), payload=repr(o), observed=shown))
        v.count(repr(("union-lane", w.spelling, [s_[2] for s_ in w.specs], repr(o))), True)


def run_union_lane(v, prop, cases, meta):
    pre = ("From V.Model Require Import Base Disambig UnionStruct.\nFrom V.Gen Require Import UStructSrc.\n"
           "Definition ures_eqb (a : result (option N)) (b : option (option N)) : bool :=\n"
           "  match a, b with Ok (Some x), Some (Some y) => N.eqb x y | Ok None, Some None => true | Err _, None => true | _, _ => false end.\n")
    bad = []
    shard = 300
    for k in range(0, len(cases), shard):
        src = (pre + "Definition cs : list bool := [\n" + ";\n".join(cases[k:k + shard]) + "\n].\n"
               "Fixpoint bad (k : nat) (l : list bool) : list nat := match l with [] => [] | b :: r => if b then bad (S k) r else k :: bad (S k) r end.\n"
               "Eval vm_compute in (bad 0 cs).\n")
        rc, out = run_cases_file(f"union_{prop}_{v.seed}_{k}", src)
        vals = parse_coq_value(out)
        if rc != 0 or not vals:
            v.obligation("correspondence:UNION:coqc", False, out[-700:])
            return
        if vals[-1] != "[]":
            bad += [k + int(x) for x in re.findall(r"\d+", vals[-1])]
    v.obligation("correspondence:UNION (model: which member hook a class-union payload reaches, or None / an error = implementation)", not bad,
                 "" if not bad else f"{len(bad)} of {len(cases)} disagree, first: {meta[bad[0]]}")
