"""Two small batteries (no model).

OVERRIDES (C03): `unstruct_collection_overrides` hands the UNSTRUCTURED contents of a collection to the configured callable -- the
elements of a sequence / set, the (key, value) pairs of a mapping.  The callable need not be a collection constructor (`sorted`,
`list`, `tuple`, a user function are documented uses).  Whatever fast paths the hook factories take, the encoding of a value must
not depend on HOW its element type is spelled when the elements unstructure to themselves either way: `Dict[str, int]`,
`Dict[str, Any]`, `Dict[str, NewInt]`, `Mapping[str, int]` of the same dict must give the same result, and that result must be
the callable applied to the documented contents.

ITER (C04): one-shot iterables (generators, iterators, map objects) as payloads of sequence / set positions: the two validation
modes must accept the same inputs with the same result (a hook that walks its input twice sees an exhausted iterator the second
time)."""
from __future__ import annotations

import collections
import random
from collections.abc import Mapping as AbcMapping, MutableMapping, MutableSequence, MutableSet, Sequence, Set as AbstractSet
from typing import Any, Dict, FrozenSet, List, Mapping, NewType, Set, Tuple

import attrs

from common import Verdict

NewInt = NewType("NewInt", int)
NewStr = NewType("NewStr", str)


def tagged(it):
    return ["tagged"] + sorted(it, key=repr)


def overrides_battery(v: Verdict, n_cases: int):
    from cattrs import Converter
    rng = random.Random(v.seed * 2750159 + 303)
    hist = {"cases": 0, "kinds": {}, "targets": {}, "spellings_compared": 0}
    targets = [("list", list), ("tuple", tuple), ("sorted", sorted), ("tagged (user function)", tagged), ("frozenset", frozenset), ("set", set)]
    seq_spell = [("List[int]", List[int]), ("List[Any]", List[Any]), ("List[NewInt]", List[NewInt]), ("list[int]", list[int]), ("Sequence[int]", Sequence[int])]
    set_spell = [("Set[int]", Set[int]), ("Set[Any]", Set[Any]), ("Set[NewInt]", Set[NewInt]), ("set[int]", set[int]), ("FrozenSet[int]", FrozenSet[int])]
    map_spell = [("Dict[str, int]", Dict[str, int]), ("Dict[str, Any]", Dict[str, Any]), ("Dict[str, NewInt]", Dict[str, NewInt]), ("Dict[NewStr, int]", Dict[NewStr, int]),
                 ("dict[str, int]", dict[str, int]), ("Mapping[str, int]", Mapping[str, int])]
    plans = []
    for tn, tf in targets:
        plans.append(("sequence", {list: tf}, "list", [3, 1, 2], seq_spell[:4], tn, tf, lambda x: list(x)))
        plans.append(("sequence", {Sequence: tf}, "Sequence", [3, 1, 2], seq_spell, tn, tf, lambda x: list(x)))
        plans.append(("set", {AbstractSet: tf}, "Set", {3, 1, 2}, set_spell, tn, tf, lambda x: list(x)))
        plans.append(("set", {set: tf}, "set", {3, 1, 2}, set_spell[:4], tn, tf, lambda x: list(x)))
        if tn not in ("frozenset", "set"):
            plans.append(("mapping", {dict: tf}, "dict", {"b": 2, "a": 1, "c": 3}, map_spell[:5], tn, tf, lambda x: list(x.items())))
            plans.append(("mapping", {AbcMapping: tf}, "Mapping", {"b": 2, "a": 1, "c": 3}, map_spell, tn, tf, lambda x: list(x.items())))
    rng.shuffle(plans)
    for kind, ov, ovname, value, spellings, tn, tf, contents in plans[:max(n_cases, len(plans))]:
        hist["cases"] += 1
        hist["kinds"][kind] = hist["kinds"].get(kind, 0) + 1
        hist["targets"][tn] = hist["targets"].get(tn, 0) + 1
        want = tf(contents(value))
        results = {}
        for label, T in spellings:
            conv = Converter(unstruct_collection_overrides=ov)
            v.count(repr(("overrides", kind, ovname, tn, label)), True)
            try:
                results[label] = ("ok", conv.unstructure(type(value)(value), unstructure_as=T))
            except Exception as e:      # noqa
                results[label] = ("err", type(e).__name__)
            hist["spellings_compared"] += 1

        def canon(r):
            if r[0] != "ok":
                return r
            x = r[1]
            if isinstance(x, (set, frozenset)):
                return ("ok", type(x).__name__, sorted(x, key=repr))
            if kind == "set" and isinstance(x, (list, tuple)):
                return ("ok", type(x).__name__, sorted(x, key=repr))       # iteration order of a set is not part of the contract
            return ("ok", type(x).__name__, x)
        cw = canon(("ok", want))
        for label, r in results.items():
            if canon(r) != cw:
                v.violation("unstruct_collection_overrides: the configured callable did not receive the unstructured contents (elements / key-value pairs) for this spelling of the type",
                            {"battery": "OVERRIDES", "override": f"{{{ovname}: {tn}}}", "value": repr(value), "unstructure_as": label, "got": repr(r), "expected": repr(want),
                             "other_spellings": {k: repr(x) for k, x in results.items() if k != label}})
                break
    v.coverage["overrides_battery"] = hist


# ------------------------------------------------------------------------------------ one-shot iterables

def iter_battery(v: Verdict, n_cases: int):
    from cattrs import Converter
    rng = random.Random(v.seed * 3628273 + 404)
    hist = {"cases": 0, "types": {}, "payload_kinds": {}}
    Holder = attrs.make_class("ItHolder", {"xs": attrs.field(type=List[int]), "t": attrs.field(type=Tuple[int, ...], default=())})
    Item = attrs.make_class("ItItem", {"a": attrs.field(type=int)})
    types = [("List[int]", List[int]), ("list[int]", list[int]), ("Tuple[int, ...]", Tuple[int, ...]), ("Set[int]", Set[int]), ("FrozenSet[int]", FrozenSet[int]),
             ("MutableSequence[int]", MutableSequence[int]), ("Sequence[int]", Sequence[int]), ("deque[int]", collections.deque[int]), ("List[ItItem]", List[Item]),
             ("List[List[int]]", List[List[int]])]
    elems = {"valid": ["1", 2, "3"], "bad first": ["x", 2, 3], "bad middle": [1, "x", 3], "bad last": [1, 2, "x"], "two bad": ["x", 2, "y"], "empty": []}
    makers = {"generator": lambda l: (e for e in l), "iter": lambda l: iter(l), "map": lambda l: map(lambda e: e, l), "list": lambda l: list(l)}
    for tlabel, T in types:
        for pk, base in elems.items():
            for mk_name, mk in makers.items():
                hist["cases"] += 1
                hist["types"][tlabel] = hist["types"].get(tlabel, 0) + 1
                hist["payload_kinds"][mk_name] = hist["payload_kinds"].get(mk_name, 0) + 1
                if tlabel == "List[ItItem]":
                    data = [{"a": e} for e in base]
                elif tlabel == "List[List[int]]":
                    data = [[e] for e in base]
                else:
                    data = list(base)
                res = {}
                for dv in (True, False):
                    conv = Converter(detailed_validation=dv)
                    try:
                        r = conv.structure(mk(data), T)
                        res[dv] = ("ok", repr(sorted(r, key=repr)) if isinstance(r, (set, frozenset)) else repr(r))
                    except Exception as e:      # noqa
                        res[dv] = ("err",)
                v.count(repr(("iter", tlabel, pk, mk_name)), True)
                if res[True] != res[False]:
                    v.violation("detailed_validation changes acceptance or the result for a one-shot iterable payload",
                                {"battery": "ITER", "type": tlabel, "payload": f"{mk_name} over {data!r}", "detailed": repr(res[True]), "fast": repr(res[False])})
    # the same as an attribute
    for pk, base in elems.items():
        for mk_name, mk in makers.items():
            res = {}
            for dv in (True, False):
                conv = Converter(detailed_validation=dv)
                try:
                    res[dv] = ("ok", repr(conv.structure({"xs": mk(base), "t": mk(base)}, Holder)))
                except Exception:      # noqa
                    res[dv] = ("err",)
            hist["cases"] += 1
            if res[True] != res[False]:
                v.violation("detailed_validation changes acceptance or the result for a one-shot iterable payload",
                            {"battery": "ITER", "type": "attribute xs: List[int], t: Tuple[int, ...]", "payload": f"{mk_name} over {base!r}", "detailed": repr(res[True]), "fast": repr(res[False])})
    v.coverage["iter_battery"] = hist
