"""Two small batteries (no model).

OVERRIDES (C03): `unstruct_collection_overrides` hands the UNSTRUCTURED contents of a collection to the configured callable -- the
elements of a sequence / set, the (key, value) pairs of a mapping.  The callable need not be a collection constructor (`sorted`,
`list`, `tuple`, a user function are documented uses).  Whatever fast paths the hook factories take, the encoding of a value must
not depend on HOW its element type is spelled when the elements unstructure to themselves either way: `Dict[str, int]`,
`Dict[str, Any]`, `Dict[str, NewInt]`, `Mapping[str, int]` of the same dict must give the same result, and that result must be
the callable applied to the documented contents.

ITER (C04): one-shot iterables (generators, iterators, map objects) as payloads of sequence / set positions: the two validation
modes must accept the same inputs with the same result (a hook that walks its input twice sees an exhausted iterator the second
time)."""
from __future__ import annotations

import collections
import random
from collections.abc import Mapping as AbcMapping, MutableMapping, MutableSequence, MutableSet, Sequence, Set as AbstractSet
from typing import Any, Dict, FrozenSet, List, Mapping, NewType, Set, Tuple

import attrs

from common import Verdict

NewInt = NewType("NewInt", int)
NewStr = NewType("NewStr", str)


def tagged(it):
    return ["tagged"] + sorted(it, key=repr)


def overrides_battery(v: Verdict, n_cases: int):
    from cattrs import Converter
    rng = random.Random(v.seed * 2750159 + 303)
    hist = {"cases": 0, "kinds": {}, "targets": {}, "spellings_compared": 0}
    targets = [("list", list), ("tuple", tuple), ("sorted", sorted), ("tagged (user function)", tagged), ("frozenset", frozenset), ("set", set)]
    seq_spell = [("List[int]", List[int]), ("List[Any]", List[Any]), ("List[NewInt]", List[NewInt]), ("list[int]", list[int]), ("Sequence[int]", Sequence[int])]
    set_spell = [("Set[int]", Set[int]), ("Set[Any]", Set[Any]), ("Set[NewInt]", Set[NewInt]), ("set[int]", set[int]), ("FrozenSet[int]", FrozenSet[int])]
    map_spell = [("Dict[str, int]", Dict[str, int]), ("Dict[str, Any]", Dict[str, Any]), ("Dict[str, NewInt]", Dict[str, NewInt]), ("Dict[NewStr, int]", Dict[NewStr, int]),
                 ("dict[str, int]", dict[str, int]), ("Mapping[str, int]", Mapping[str, int])]
    plans = []
    for tn, tf in targets:
        plans.append(("sequence", {list: tf}, "list", [3, 1, 2], seq_spell[:4], tn, tf, lambda x: list(x)))
        plans.append(("sequence", {Sequence: tf}, "Sequence", [3, 1, 2], seq_spell, tn, tf, lambda x: list(x)))
        plans.append(("set", {AbstractSet: tf}, "Set", {3, 1, 2}, set_spell, tn, tf, lambda x: list(x)))
        plans.append(("set", {set: tf}, "set", {3, 1, 2}, set_spell[:4], tn, tf, lambda x: list(x)))
        if tn not in ("frozenset", "set"):
            plans.append(("mapping", {dict: tf}, "dict", {"b": 2, "a": 1, "c": 3}, map_spell[:5], tn, tf, lambda x: list(x.items())))
            plans.append(("mapping", {AbcMapping: tf}, "Mapping", {"b": 2, "a": 1, "c": 3}, map_spell, tn, tf, lambda x: list(x.items())))
    rng.shuffle(plans)
    for kind, ov, ovname, value, spellings, tn, tf, contents in plans[:max(n_cases, len(plans))]:
        hist["cases"] += 1
        hist["kinds"][kind] = hist["kinds"].get(kind, 0) + 1
        hist["targets"][tn] = hist["targets"].get(tn, 0) + 1
        want = tf(contents(value))
        results = {}
        for label, T in spellings:
            conv = Converter(unstruct_collection_overrides=ov)
            v.count(repr(("overrides", kind, ovname, tn, label)), True)
            try:
                results[label] = ("ok", conv.unstructure(type(value)(value), unstructure_as=T))
            except Exception as e:      # noqa
                results[label] = ("err", type(e).__name__)
            hist["spellings_compared"] += 1

        def canon(r):
            if r[0] != "ok":
                return r
            x = r[1]
            if isinstance(x, (set, frozenset)):
                return ("ok", type(x).__name__, sorted(x, key=repr))
            if kind == "set" and isinstance(x, (list, tuple)):
                return ("ok", type(x).__name__, sorted(x, key=repr))       # iteration order of a set is not part of the contract
            return ("ok", type(x).__name__, x)
        cw = canon(("ok", want))
        for label, r in results.items():
            if canon(r) != cw:
                v.violation("unstruct_collection_overrides: the configured callable did not receive the unstructured contents (elements / key-value pairs) for this spelling of the type",
                            {"battery": "OVERRIDES", "override": f"{{{ovname}: {tn}}}", "value": repr(value), "unstructure_as": label, "got": repr(r), "expected": repr(want),
                             "other_spellings": {k: repr(x) for k, x in results.items() if k != label}})
                break
    v.coverage["overrides_battery"] = hist


# ------------------------------------------------------------------------------------ one-shot iterables

def iter_battery(v: Verdict, n_cases: int):
    from cattrs import Converter
    rng = random.Random(v.seed * 3628273 + 404)
    hist = {"cases": 0, "types": {}, "payload_kinds": {}}
    Holder = attrs.make_class("ItHolder", {"xs": attrs.field(type=List[int]), "t": attrs.field(type=Tuple[int, ...], default=())})
    Item = attrs.make_class("ItItem", {"a": attrs.field(type=int)})
    types = [("List[int]", List[int]), ("list[int]", list[int]), ("Tuple[int, ...]", Tuple[int, ...]), ("Set[int]", Set[int]), ("FrozenSet[int]", FrozenSet[int]),
             ("MutableSequence[int]", MutableSequence[int]), ("Sequence[int]", Sequence[int]), ("deque[int]", collections.deque[int]), ("List[ItItem]", List[Item]),
             ("List[List[int]]", List[List[int]])]
    elems = {"valid": ["1", 2, "3"], "bad first": ["x", 2, 3], "bad middle": [1, "x", 3], "bad last": [1, 2, "x"], "two bad": ["x", 2, "y"], "empty": []}
    makers = {"generator": lambda l: (e for e in l), "iter": lambda l: iter(l), "map": lambda l: map(lambda e: e, l), "list": lambda l: list(l)}
    for tlabel, T in types:
        for pk, base in elems.items():
            for mk_name, mk in makers.items():
                hist["cases"] += 1
                hist["types"][tlabel] = hist["types"].get(tlabel, 0) + 1
                hist["payload_kinds"][mk_name] = hist["payload_kinds"].get(mk_name, 0) + 1
                if tlabel == "List[ItItem]":
                    data = [{"a": e} for e in base]
                elif tlabel == "List[List[int]]":
                    data = [[e] for e in base]
                else:
                    data = list(base)
                res = {}
                for dv in (True, False):
                    conv = Converter(detailed_validation=dv)
                    try:
                        r = conv.structure(mk(data), T)
                        res[dv] = ("ok", repr(sorted(r, key=repr)) if isinstance(r, (set, frozenset)) else repr(r))
                    except Exception as e:      # noqa
                        res[dv] = ("err",)
                v.count(repr(("iter", tlabel, pk, mk_name)), True)
                if res[True] != res[False]:
                    v.violation("detailed_validation changes acceptance or the result for a one-shot iterable payload",
                                {"battery": "ITER", "type": tlabel, "payload": f"{mk_name} over {data!r}", "detailed": repr(res[True]), "fast": repr(res[False])})
    # the same as an attribute
    for pk, base in elems.items():
        for mk_name, mk in makers.items():
            res = {}
            for dv in (True, False):
                conv = Converter(detailed_validation=dv)
                try:
                    res[dv] = ("ok", repr(conv.structure({"xs": mk(base), "t": mk(base)}, Holder)))
                except Exception:      # noqa
                    res[dv] = ("err",)
            hist["cases"] += 1
            if res[True] != res[False]:
                v.violation("detailed_validation changes acceptance or the result for a one-shot iterable payload",
                            {"battery": "ITER", "type": "attribute xs: List[int], t: Tuple[int, ...]", "payload": f"{mk_name} over {base!r}", "detailed": repr(res[True]), "fast": repr(res[False])})
    v.coverage["iter_battery"] = hist


# ------------------------------------------------------------------------------------ NamedTuples with Any / untyped slots

def namedtuple_battery(v: Verdict, prop: str, n_cases: int):
    """NamedTuples (C03 / C01): a named tuple is encoded like the heterogeneous tuple of its field types -- each field as its declared
    type, Any-typed fields by the runtime class of the value -- whatever mix of pass-through and converting field types it has (the
    converter skips the work only when NOTHING inside needs conversion).  Field types are drawn from pass-through leaves, Any, enums,
    classes and containers; the values in Any slots are structured values (instances, enum members, lists / dicts of them).  Checked at
    top level, inside a class, in a list and as a dict value; for both converter classes and both unstructure strategies.
    Expected result = the tuple of the per-field encodings computed by a separate converter (field by field, `unstructure_as` the
    field type); and the result must be primitive-only.  For C01 additionally the round trip where the field types allow it."""
    import enum
    from typing import NamedTuple, Optional
    from cattrs import BaseConverter, Converter, UnstructureStrategy
    rng = random.Random(v.seed * 4256233 + 505 + (0 if prop == "C03" else 1))
    hist = {"cases": 0, "all_passthrough_or_any": 0, "any_slots_with_structured_value": 0, "positions": {}, "roundtrips": 0}

    class NKind(enum.Enum):
        A = "a"
        B = "b"

    NInner = attrs.make_class("NInner", {"x": attrs.field(type=int), "k": attrs.field(type=NKind)})

    def prim_only(x):
        if x is None or type(x) in (bool, int, float, str, bytes):
            return True
        if type(x) in (list, tuple, set, frozenset):
            return all(prim_only(e) for e in x)
        if type(x) is dict:
            return all(prim_only(k) and prim_only(e) for k, e in x.items())
        if isinstance(x, tuple) and hasattr(x, "_fields"):
            return all(prim_only(e) for e in x)
        return False

    structured_vals = [lambda: NInner(1, NKind.A), lambda: NKind.B, lambda: [NInner(2, NKind.B)], lambda: {"k": NKind.A}, lambda: (NKind.A, 3)]
    plain_vals = [lambda: 5, lambda: "s", lambda: None, lambda: [1, 2]]
    ftypes = [("int", int, lambda: rng.randrange(9), True), ("str", str, lambda: rng.choice("abc"), True), ("float", float, lambda: 1.5, True),
              ("bytes", bytes, lambda: b"x", True), ("Any", Any, None, True), ("NKind", NKind, lambda: rng.choice(list(NKind)), False),
              ("NInner", NInner, lambda: NInner(rng.randrange(5), NKind.A), False), ("List[Any]", List[Any], None, False),
              ("Optional[int]", Optional[int], lambda: rng.choice([None, 4]), True), ("List[NKind]", List[NKind], lambda: [NKind.A, NKind.B], False)]
    for i in range(n_cases):
        nf = rng.randint(1, 4)
        if rng.random() < 0.6:
            pool = [f for f in ftypes if f[3]]          # only pass-through leaves and Any: the shortcut the converter may take
        else:
            pool = ftypes
        fields = [rng.choice(pool) for _ in range(nf)]
        if not any(f[0] in ("Any", "List[Any]") for f in fields) and rng.random() < 0.8:
            fields[rng.randrange(nf)] = ftypes[4]
        NT = NamedTuple(f"NB{i}", [(f"f{j}", f[1]) for j, f in enumerate(fields)])
        vals = []
        any_structured = False
        for f in fields:
            if f[0] == "Any":
                if rng.random() < 0.75:
                    vals.append(rng.choice(structured_vals)())
                    any_structured = True
                else:
                    vals.append(rng.choice(plain_vals)())
            elif f[0] == "List[Any]":
                vals.append([rng.choice(structured_vals)(), 7])
                any_structured = True
            else:
                vals.append(f[2]())
        x = NT(*vals)
        hist["cases"] += 1
        hist["all_passthrough_or_any"] += all(f[3] for f in fields)
        hist["any_slots_with_structured_value"] += any_structured
        Holder = attrs.make_class(f"NBHolder{i}", {"env": attrs.field(type=NT), "n": attrs.field(type=int)})
        for cls in (Converter, BaseConverter):
            for strat in (UnstructureStrategy.AS_DICT, UnstructureStrategy.AS_TUPLE):
                ref = cls(unstruct_strat=strat)
                want = tuple(ref.unstructure(val, unstructure_as=f[1]) for val, f in zip(x, fields))
                positions = [("top", lambda c: c.unstructure(x), want),
                             ("top, unstructure_as", lambda c: c.unstructure(x, unstructure_as=NT), want),
                             ("list", lambda c: c.unstructure([x], unstructure_as=List[NT]), [want]),
                             ("dict value", lambda c: c.unstructure({"k": x}, unstructure_as=Dict[str, NT]), {"k": want}),
                             ("class attribute", lambda c: c.unstructure(Holder(x, 2)), {"env": want, "n": 2} if strat is UnstructureStrategy.AS_DICT else (want, 2))]
                for pname, run, expect in positions:
                    c = cls(unstruct_strat=strat)
                    desc = {"battery": "NAMEDTUPLE", "converter": cls.__name__, "strategy": strat.name, "position": pname,
                            "fields": [f[0] for f in fields], "value": repr(x)}
                    v.count(repr(("nt", prop, desc)), True)
                    hist["positions"][pname] = hist["positions"].get(pname, 0) + 1
                    try:
                        got = run(c)
                    except Exception as e:      # noqa
                        v.violation("unstructure of a NamedTuple value raised", {**desc, "raised": repr(e)[:200]})
                        break
                    if prop == "C03":
                        if not prim_only(got):
                            v.violation("a non-primitive value survives inside the unstructured form of a NamedTuple (Any-typed fields are encoded by the runtime class of the value)",
                                        {**desc, "got": repr(got)[:300], "expected": repr(expect)[:300]})
                            break
                        if got != expect or (pname.startswith("top") and tuple(got) != tuple(expect)):
                            v.violation("a NamedTuple is not encoded as the tuple of its fields, each as its declared type",
                                        {**desc, "got": repr(got)[:300], "expected": repr(expect)[:300]})
                            break
                    elif pname == "top, unstructure_as" and not any(f[0] in ("Any", "List[Any]") for f in fields):
                        hist["roundtrips"] += 1
                        try:
                            back = c.structure(got, NT)
                        except Exception as e:      # noqa
                            v.violation("structure(unstructure(x), T) raised for a NamedTuple", {**desc, "unstructured": repr(got)[:300], "raised": repr(e)[:200]})
                            break
                        if back != x or type(back) is not NT:
                            v.violation("structure(unstructure(x), T) differs from x (NamedTuple)", {**desc, "unstructured": repr(got)[:300], "back": repr(back)[:300]})
                            break
                else:
                    continue
                break
    v.coverage["namedtuple_battery"] = hist


# ------------------------------------------------------------------------------------ attribute types without a structure hook

def unsupported_field_battery(v: Verdict):
    """C04, "hook creation cannot fail in one mode only" / same acceptance: classes and TypedDicts with an attribute whose type has NO
    structure hook -- a bare (unparametrised) generic attrs class / dataclass / TypedDict (hook creation raises "Missing type for generic
    argument"), a plain class, a Protocol -- directly, as NotRequired / defaulted, inside List / Dict / Optional; payloads with and
    without that key.  Whatever the outcome is (creation fails, call fails, accepted), both validation modes must have the same."""
    import dataclasses
    from typing import Generic, NotRequired, Optional, Protocol, TypedDict, TypeVar
    from cattrs import Converter
    T_ = TypeVar("T_")

    @attrs.define
    class UBox(Generic[T_]):
        item: T_

    @dataclasses.dataclass
    class UDBox(Generic[T_]):
        item: T_

    class UTBox(TypedDict, Generic[T_]):
        item: T_

    class UPlain:
        def __init__(self, item=None):
            self.item = item

    class UProto(Protocol):
        def f(self) -> int: ...
    hist = {"cases": 0, "outcomes": {}}
    unsupported = [("bare generic attrs class", UBox), ("bare generic dataclass", UDBox), ("bare generic TypedDict", UTBox), ("plain class", UPlain), ("Protocol", UProto)]
    shapes = [("direct", lambda u: u), ("List", lambda u: List[u]), ("Dict", lambda u: Dict[str, u]), ("Optional", lambda u: Optional[u])]
    payload_of = {"direct": {"item": 1}, "List": [{"item": 1}], "Dict": {"k": {"item": 1}}, "Optional": {"item": 1}}
    n = 0
    for uname, U in unsupported:
        for sname, shape in shapes:
            for optional in (False, True):
                for kind in ("attrs", "dataclass", "TypedDict"):
                    n += 1
                    ft = shape(U)
                    if kind == "attrs":
                        cl = attrs.make_class(f"UF{n}", {"n": attrs.field(type=int), "u": attrs.field(type=ft, default=None) if optional else attrs.field(type=ft)})
                    elif kind == "dataclass":
                        cl = dataclasses.make_dataclass(f"UF{n}", [("n", int), ("u", ft, dataclasses.field(default=None)) if optional else ("u", ft)])
                    else:
                        cl = TypedDict(f"UF{n}", {"n": int, "u": NotRequired[ft] if optional else ft})
                    payloads = [{"n": "1", "u": payload_of[sname]}, {"n": "1"}, {"n": "1", "u": None}]
                    for p in payloads:
                        res = {}
                        for dv in (True, False):
                            conv = Converter(detailed_validation=dv)
                            try:
                                hook = conv.get_structure_hook(cl)
                            except Exception as e:      # noqa
                                res[dv] = ("hook creation raised",)
                                continue
                            try:
                                r = hook(dict(p), cl)
                                res[dv] = ("ok", repr(r))
                            except Exception as e:      # noqa
                                res[dv] = ("call raised",)
                        hist["cases"] += 1
                        hist["outcomes"][res[True][0]] = hist["outcomes"].get(res[True][0], 0) + 1
                        v.count(repr(("unsupported", uname, sname, optional, kind, repr(p))), True)
                        if res[True] != res[False]:
                            v.violation("detailed_validation changes hook creation, acceptance or the result (attribute type without a structure hook)",
                                        {"battery": "UNSUPPORTED-FIELD", "class_kind": kind, "attribute": f"u: {'NotRequired / defaulted ' if optional else ''}{sname} of a {uname}",
                                         "payload": repr(p), "detailed": repr(res[True]), "fast": repr(res[False])})
    v.coverage["unsupported_field_battery"] = hist


# ------------------------------------------------------------------------------------ hooks the user builds with make_dict_*_fn

def _ub_classes():
    """attrs classes with private / explicitly aliased / init=False attributes (with and without defaults)"""
    A = attrs.make_class("UBA", {"name": attrs.field(type=str), "_secret": attrs.field(type=int), "retries": attrs.field(type=int, default=3),
                                  "_state": attrs.field(type=str, default="new", init=False),
                                  "_seen": attrs.field(type=int, init=False, default=0),
                                  "shown": attrs.field(type=int, default=1, alias="display")})
    return [("private / aliased / init=False attributes", A,
             lambda: _ub_set(A(name="n", secret=5, retries=4, display=9), _state="running", _seen=7))]


def _ub_set(x, **kw):
    for k, val in kw.items():
        object.__setattr__(x, k, val)
    return x


def user_built_pair_battery(v: Verdict):
    """C01 through hooks the USER builds (docs/customizing.md): make_dict_unstructure_fn / make_dict_structure_fn called with the same
    options -- every combination of _cattrs_use_alias, _cattrs_include_init_false, an override(rename=...) and an override(omit=False)
    on an init=False attribute -- registered on the converter: structure(unstructure(x, T), T) gives back x, init=False attributes
    included whenever they are included in both hooks; both converter classes, both validation modes."""
    import itertools
    from cattrs import BaseConverter, Converter
    from cattrs.gen import make_dict_structure_fn, make_dict_unstructure_fn, override
    hist = {"pairs": 0, "roundtrips": 0}
    for cname, cl, mk in _ub_classes():
        for use_alias, incl, rename, omit_false in itertools.product((False, True), (False, True), (False, True), (False, True)):
            for cls in (Converter, BaseConverter):
                for dv in (True, False):
                    conv = cls(detailed_validation=dv)
                    ov = {}
                    if rename:
                        ov["retries"] = override(rename="tries")
                    if omit_false:
                        ov["_seen"] = override(omit=False)
                    kw = {"_cattrs_use_alias": use_alias, "_cattrs_include_init_false": incl}
                    desc = {"battery": "USER-BUILT PAIR", "class": cname, "converter": cls.__name__, "detailed_validation": dv,
                            "options": {**kw, "overrides": {k: ("rename='tries'" if k == "retries" else "omit=False") for k in ov}}}
                    try:
                        un = make_dict_unstructure_fn(cl, conv, **kw, **ov)
                        st = make_dict_structure_fn(cl, conv, **kw, **ov)
                    except Exception as e:      # noqa
                        continue
                    conv.register_unstructure_hook(cl, un)
                    conv.register_structure_hook(cl, st)
                    hist["pairs"] += 1
                    x = mk()
                    v.count(repr(("ubpair", desc)), True)
                    try:
                        u = conv.unstructure(x)
                        back = conv.structure(u, cl)
                    except Exception as e:      # noqa
                        v.violation("round trip through a pair of user-built hooks raised", {**desc, "value": repr(x), "raised": repr(e)[:300]})
                        continue
                    hist["roundtrips"] += 1
                    included = {a.name for a in attrs.fields(cl) if a.init or incl or (omit_false and a.name == "_seen")}
                    diff = [a.name for a in attrs.fields(cl) if a.name in included and getattr(back, a.name) != getattr(x, a.name)]
                    if type(back) is not cl or diff:
                        v.violation("round trip: structure(unstructure(x, T), T) differs from x (value or class)",
                                    {**desc, "value": repr(x), "unstructured": repr(u), "back": repr(back), "attributes_lost": diff})
    v.coverage["user_built_pair_battery"] = hist


def initfalse_fault_battery(v: Verdict):
    """C05 through user-built hooks that INCLUDE init=False attributes (_cattrs_include_init_false=True or override(omit=False)), detailed
    validation: faults (a leaf its type cannot accept) injected into init attributes, init=False attributes, or both; at top level and
    inside a list.  transform_error reports exactly one message per fault, at the fault's path -- also when every fault sits in an
    init=False attribute (those are assigned after the instance is created)."""
    import itertools
    from cattrs import Converter, transform_error
    from cattrs.gen import make_dict_structure_fn, override
    hist = {"cases": 0, "faults": 0}
    cl = attrs.make_class("IFA", {"a": attrs.field(type=int), "b": attrs.field(type=int, default=0),
                                  "p": attrs.field(type=int, init=False, default=0), "q": attrs.field(type=int, init=False, default=1)})
    for mode in ("_cattrs_include_init_false=True", "override(omit=False) on p and q"):
        for faulty in itertools.chain.from_iterable(itertools.combinations("abpq", r) for r in range(0, 5)):
            for nested in (False, True):
                conv = Converter(detailed_validation=True)
                kw = {"_cattrs_include_init_false": True} if mode.startswith("_cattrs") else {"p": override(omit=False), "q": override(omit=False)}
                hook = make_dict_structure_fn(cl, conv, **kw)
                conv.register_structure_hook(cl, hook)
                payload = {k: ("zz" if k in faulty else 5) for k in "abpq"}
                T_, o, prefix = (List[cl], [dict(payload, a=1, b=2, p=3, q=4), payload], "$[1]") if nested else (cl, payload, "$")
                hist["cases"] += 1
                hist["faults"] += len(faulty)
                desc = {"battery": "INIT-FALSE FAULTS", "hook": f"make_dict_structure_fn(cl, conv, {mode}), registered for the class", "type": "List[IFA]" if nested else "IFA",
                        "class": "IFA(a: int, b: int = 0, p: int = field(init=False, default=0), q: int = field(init=False, default=1))", "payload": repr(o),
                        "faults": [f"{prefix}.{k}" for k in faulty]}
                v.count(repr(("iff", desc)), True)
                try:
                    r = conv.structure(o, T_)
                    got = None
                except Exception as e:      # noqa
                    try:
                        got = sorted(m.rsplit(" @ ", 1)[1] for m in transform_error(e))
                    except Exception as e2:      # noqa
                        got = ["<transform_error raised %r>" % (e2,)]
                want = sorted(f"{prefix}.{k}" for k in faulty)
                if (got or []) != want:
                    rp = {**desc, "reported_paths": got if got is not None else "no error was raised", "expected_paths": want}
                    init_only = sorted(f"{prefix}.{k}" for k in faulty if k in "ab")
                    if init_only and len(init_only) < len(want) and got == init_only:
                        # finding F45: the init=False attributes are structured AFTER the instance is created, which is never reached
                        # when an __init__ attribute is faulty
                        v.finding("F45", "faults in included init=False attributes go unreported when an __init__ attribute is faulty too", rp)
                    else:
                        v.violation("transform_error does not report exactly the fault paths (one leaf error per fault, none for valid siblings)", rp)
    v.coverage["initfalse_fault_battery"] = hist


def omit_default_encoding_battery(v: Verdict):
    """C03 under omit_if_default (the three ways of switching it on): an attribute that is NOT omitted is encoded by its declared type like any
    other -- whatever kind of default it has (value, Factory, Factory(takes_self=True)).  Attribute types that need converting (enum,
    class, List[class], Dict[str, enum], Optional[class]); values different from the default."""
    import enum
    from typing import Optional
    from cattrs import Converter
    from cattrs.gen import make_dict_unstructure_fn, override
    hist = {"cases": 0}

    class OK_(enum.Enum):
        A = "a"
        B = "b"
    OInner = attrs.make_class("OInner", {"x": attrs.field(type=int, default=0)})
    kinds = [("OK_", OK_, OK_.A, OK_.B, "b"), ("OInner", OInner, OInner(0), OInner(5), {"x": 5}), ("List[OInner]", List[OInner], [], [OInner(1)], [{"x": 1}]),
             ("Dict[str, OK_]", Dict[str, OK_], {}, {"k": OK_.B}, {"k": "b"}), ("Optional[OInner]", Optional[OInner], None, OInner(2), {"x": 2})]
    dkinds = ["value", "Factory", "Factory(takes_self=True)"]
    for tname, T_, dflt, val, want in kinds:
        for dk in dkinds:
            import copy as _copy
            if dk == "value":
                if isinstance(dflt, (list, dict)):
                    continue                # (mutable default values are not something attrs users write)
                d = dflt
            elif dk == "Factory":
                d = attrs.Factory(lambda dflt=dflt: _copy.deepcopy(dflt))
            else:
                d = attrs.Factory(lambda self, dflt=dflt: _copy.deepcopy(dflt), takes_self=True)
            cl = attrs.make_class("ODC", {"n": attrs.field(type=int, default=0), "t": attrs.field(type=T_, default=d)})
            for how in ("Converter(omit_if_default=True)", "override(omit_if_default=True) on the attribute", "make_dict_unstructure_fn(cl, conv, _cattrs_omit_if_default=True)"):
                if how.startswith("Converter"):
                    conv = Converter(omit_if_default=True)
                elif how.startswith("override"):
                    conv = Converter()
                    conv.register_unstructure_hook(cl, make_dict_unstructure_fn(cl, conv, t=override(omit_if_default=True)))
                else:
                    conv = Converter()
                    conv.register_unstructure_hook(cl, make_dict_unstructure_fn(cl, conv, _cattrs_omit_if_default=True))
                hist["cases"] += 1
                desc = {"battery": "OMIT-DEFAULT ENCODING", "attribute": f"t: {tname} = {dk}", "omit_if_default": how, "value": repr(cl(n=1, t=val))}
                v.count(repr(("ode", desc)), True)
                try:
                    got = conv.unstructure(cl(n=1, t=_copy.deepcopy(val)))
                except Exception as e:      # noqa
                    v.violation("unstructure raised on a value of the type", {**desc, "raised": repr(e)[:200]})
                    continue
                if got.get("t", "<omitted>") != want or type(got.get("t")) is not type(want):
                    v.violation("unstructured output contains a non-primitive object or differs from the documented encoding (omit_if_default)",
                                {**desc, "got": repr(got), "expected": repr({"n": 1, "t": want})})
    v.coverage["omit_default_encoding_battery"] = hist
