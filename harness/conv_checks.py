"""Checks decided on the CONV lane: C01 (round trip), C02 (soundness), C03 (primitive output = documented
encoding), C06 (Converter = BaseConverter).  One session generator; each property adds its own direct
oracle on the implementation (the failing-input search) and shares the model correspondence."""
from __future__ import annotations

import dataclasses
import enum
import random
import re

import attrs

import lane_conv as L
from common import Verdict, parse_coq_value, run_cases_file
from lane_conv import CFGS, NODEFAULT, Tables, Unencodable, World

HEADER = "From V.Model Require Import Base Templates Conv ConvErr ConvLane.\nLocal Open Scope N_scope.\n"

# profiles: which features a session generates
P_ALL = {"max_classes": 4, "max_fields": 4, "depth": 3, "init_false": 0.12, "kw_only": 0.2, "any_structured": True, "any_tuples": True}
# the documented common support of both converter classes, values that can round trip
P_SUPPORTED = {"max_classes": 4, "max_fields": 4, "depth": 3, "init_false": 0.0, "kw_only": 0.2, "any_structured": False, "any_tuples": False}


# ------------------------------------------------------------------------------------ direct oracles

def deep_same(a, b):
    """a == b and the same classes at every depth."""
    if type(a) is not type(b):
        return False
    if type(a) in (list, tuple):
        return len(a) == len(b) and all(deep_same(x, y) for x, y in zip(a, b))
    if type(a) in (set, frozenset):
        return a == b and all(any(deep_same(x, y) for y in b) for x in a)
    if type(a) is dict:
        return a.keys() == b.keys() and all(any(deep_same(k, k2) and deep_same(a[k], b[k2]) for k2 in b) for k in a)
    if attrs.has(type(a)):
        return all(deep_same(getattr(a, f.name, NODEFAULT), getattr(b, f.name, NODEFAULT)) for f in attrs.fields(type(a)))
    if dataclasses.is_dataclass(a):
        return all(deep_same(getattr(a, f.name, NODEFAULT), getattr(b, f.name, NODEFAULT)) for f in dataclasses.fields(a))
    return a == b


def conforms_py(w: World, v, t) -> bool:
    """Is v a value of type t, at every depth?  Written against the Python objects, independent of the model."""
    k = t[0]
    if k == "any":
        return True
    if k == "prim":
        return type(v) is L.PRIM_CLS[t[1]]
    if k == "enum":
        return type(v) is w.enums[t[1]]
    if k == "lit":
        return any(v == u for u in t[1])
    if k == "list":
        return type(v) is list and all(conforms_py(w, x, t[1]) for x in v)
    if k == "tuphom":
        return type(v) is tuple and all(conforms_py(w, x, t[1]) for x in v)
    if k == "tuple":
        return type(v) is tuple and len(v) == len(t[1]) and all(conforms_py(w, x, tt) for x, tt in zip(v, t[1]))
    if k == "set":
        return type(v) is set and all(conforms_py(w, x, t[1]) for x in v)
    if k == "fset":
        return type(v) is frozenset and all(conforms_py(w, x, t[1]) for x in v)
    if k == "dict":
        return type(v) is dict and all(conforms_py(w, kk, t[1]) and conforms_py(w, x, t[2]) for kk, x in v.items())
    if k == "opt":
        return v is None or conforms_py(w, v, t[1])
    if k in ("class", "self"):
        if w.specs[t[1]].kind == "td":
            # a TypedDict value: a dict holding every required key, declared keys at their types (undeclared keys: finding F4, not judged here)
            if type(v) is not dict:
                return False
            for f in w.specs[t[1]].fields:
                if f.name not in v:
                    if f.default is NODEFAULT:
                        return False
                    continue
                if not conforms_py(w, v[f.name], f.type):
                    return False
            return True
        if type(v) is not w.pycls[t[1]]:
            return False
        for f in w.specs[t[1]].fields:
            if not hasattr(v, f.name):
                if f.init:
                    return False
                continue
            if f.type is not None and not conforms_py(w, getattr(v, f.name), f.type):
                return False
        return True
    if k == "newtype":
        return conforms_py(w, v, t[2])
    if k == "annot":
        return conforms_py(w, v, t[1])
    raise ValueError(t)


PRIMITIVE = (dict, list, tuple, set, frozenset, type(None), bool, int, float, str, bytes)


def primitive_only(u) -> bool:
    if type(u) not in PRIMITIVE:
        return False
    if type(u) in (list, tuple, set, frozenset):
        return all(primitive_only(x) for x in u)
    if type(u) is dict:
        return all(primitive_only(k) and primitive_only(x) for k, x in u.items())
    return True


def encode_py(w: World, full: bool, strat: str, t, x):
    """The documented encoding (C03), written from the documentation, not from the model."""
    k = t[0] if t is not None else "any"
    if k == "any":
        return encode_rt(w, full, strat, x)
    if k in ("prim", "lit"):
        return x
    if k == "enum":
        return x.value
    if k == "list":
        return [encode_py(w, full, strat, t[1] if full else None, e) for e in x] if full or type(x) is list else type(x)(encode_rt(w, full, strat, e) for e in x)
    if k == "tuphom":
        return [encode_py(w, full, strat, t[1], e) for e in x] if full else tuple(encode_rt(w, full, strat, e) for e in x)
    if k == "tuple":
        return tuple(encode_py(w, full, strat, tt, e) for tt, e in zip(t[1], x)) if full else tuple(encode_rt(w, full, strat, e) for e in x)
    if k == "set":
        return {encode_py(w, full, strat, t[1] if full else None, e) for e in x}
    if k == "fset":
        return frozenset(encode_py(w, full, strat, t[1] if full else None, e) for e in x)
    if k == "dict":
        return {encode_py(w, full, strat, t[1] if full else None, kk): encode_py(w, full, strat, t[2] if full else None, e) for kk, e in x.items()}
    if k == "opt":
        return None if x is None else (encode_py(w, full, strat, t[1], x) if full else encode_rt(w, full, strat, x))
    if k in ("class", "self"):
        spec = w.specs[t[1]]
        items = []
        for f in spec.fields:
            if full and strat == "dict" and not f.init:
                continue              # Converter leaves init=False attributes out by default
            items.append((f.name, encode_py(w, full, strat, f.type, getattr(x, f.name))))
        return {n: e for n, e in items} if strat == "dict" else tuple(e for _, e in items)
    if k == "newtype":
        return encode_py(w, full, strat, t[2], x)
    if k == "annot":
        return encode_py(w, full, strat, t[1], x)
    raise ValueError(t)


def encode_rt(w: World, full: bool, strat: str, x):
    """Encoding by runtime class (Any / untyped positions, and everything below a BaseConverter collection)."""
    tx = type(x)
    if x is None or tx in L.CLS_PRIM:
        return x
    if isinstance(x, enum.Enum):
        return x.value
    if tx is list:
        return [encode_rt(w, full, strat, e) for e in x]
    if tx is tuple:
        return [encode_rt(w, full, strat, e) for e in x] if full else tuple(encode_rt(w, full, strat, e) for e in x)
    if tx is set:
        return {encode_rt(w, full, strat, e) for e in x}
    if tx is frozenset:
        return frozenset(encode_rt(w, full, strat, e) for e in x)
    if tx is dict:
        return {encode_rt(w, full, strat, kk): encode_rt(w, full, strat, e) for kk, e in x.items()}
    for cid, cl in enumerate(w.pycls):
        if tx is cl:
            return encode_py(w, full, strat, ("class", cid), x)
    return x


def base_supported(w: World, t, seen=None) -> bool:
    """Within BaseConverter's type support: no Annotated; NewType only over primitives."""
    seen = set() if seen is None else seen
    k = t[0]
    if k == "annot":
        return False
    if k in ("counter", "defaultdict"):
        return False          # their hooks are registered by Converter only
    if k == "newtype":
        return t[2][0] == "prim"
    if k in ("list", "tuphom", "set", "fset", "opt", "deque"):
        return base_supported(w, t[1], seen)
    if k == "tuple":
        return False          # "Structuring heterogenous tuples are not supported by the BaseConverter" (docs/defaulthooks.md)
    if k == "dict":
        return base_supported(w, t[1], seen) and base_supported(w, t[2], seen)
    if k in ("class", "self"):
        if t[1] in seen:
            return True
        seen.add(t[1])
        return all(f.type is None or base_supported(w, f.type, seen) for f in w.specs[t[1]].fields)
    return True


def base_ok(w: World, t) -> bool:
    """BaseConverter's documented support for t AND for every class a value at an Any-typed / untyped position may have."""
    return base_supported(w, t) and all(base_supported(w, ("class", c)) for c in range(len(w.specs)))


def class_as_key(w: World, t, seen=None) -> bool:
    """A class at a mapping-key or set-element position: under the dict strategy its unstructured form is a dict,
    which cannot be a key / element (inherent, not a defect)."""
    seen = set() if seen is None else seen
    k = t[0]

    def has_cls(u):
        while u[0] in ("newtype", "annot", "opt"):
            u = u[2] if u[0] == "newtype" else u[1]
        return u[0] in ("class", "self") or (u[0] == "tuple" and any(has_cls(x) for x in u[1])) or (u[0] == "tuphom" and has_cls(u[1]))
    if k == "dict":
        return has_cls(t[1]) or class_as_key(w, t[2], seen)
    if k in ("set", "fset"):
        return has_cls(t[1])
    if k in ("list", "tuphom", "opt", "annot"):
        return class_as_key(w, t[1], seen)
    if k == "newtype":
        return class_as_key(w, t[2], seen)
    if k == "tuple":
        return any(class_as_key(w, x, seen) for x in t[1])
    if k in ("class", "self"):
        if t[1] in seen:
            return False
        seen.add(t[1])
        return any(f.type is not None and class_as_key(w, f.type, seen) for f in w.specs[t[1]].fields)
    return False


def value_has_class_key(x, depth=0) -> bool:
    """The same for what sits in an Any / untyped position: the VALUE holds an instance as a mapping key or set element
    (an instance in an Any slot is encoded by its class, so a class-keyed dict inside it meets the same inherent limit)."""
    import dataclasses
    is_inst = lambda o: attrs.has(type(o)) or (dataclasses.is_dataclass(o) and not isinstance(o, type))

    def inst_inside(o):
        return is_inst(o) or (isinstance(o, tuple) and any(inst_inside(e) for e in o))
    if depth > 12:
        return False
    if isinstance(x, dict):
        return any(inst_inside(k) or value_has_class_key(e, depth + 1) for k, e in x.items())
    if isinstance(x, (set, frozenset)):
        return any(inst_inside(e) for e in x)
    if isinstance(x, (list, tuple)) or type(x).__name__ == "deque":
        return any(value_has_class_key(e, depth + 1) for e in x)
    if is_inst(x):
        names = [a.name for a in attrs.fields(type(x))] if attrs.has(type(x)) else [f.name for f in dataclasses.fields(x)]
        return any(value_has_class_key(getattr(x, n, None), depth + 1) for n in names)
    return False


def reaches(w: World, t, pred, seen=None) -> bool:
    """Does some class reachable from t satisfy pred(spec)?"""
    seen = set() if seen is None else seen
    k = t[0]
    if k in ("list", "tuphom", "set", "fset", "opt", "annot"):
        return reaches(w, t[1], pred, seen)
    if k == "newtype":
        return reaches(w, t[2], pred, seen)
    if k == "tuple":
        return any(reaches(w, x, pred, seen) for x in t[1])
    if k == "dict":
        return reaches(w, t[1], pred, seen) or reaches(w, t[2], pred, seen)
    if k in ("class", "self"):
        if t[1] in seen:
            return False
        seen.add(t[1])
        spec = w.specs[t[1]]
        return pred(spec) or any(f.type is not None and reaches(w, f.type, pred, seen) for f in spec.fields)
    return False


def has_kw_only(spec):
    return any(f.kw_only for f in spec.fields)


def shifts_positions(spec):
    """A kw_only or init=False attribute followed by another attribute (finding F27)."""
    fs = spec.fields
    return any((f.kw_only or not f.init) and i + 1 < len(fs) for i, f in enumerate(fs))


def has_untyped_or_any(w, t):
    acc = L.type_kinds(w, t, {})
    return "any" in acc or reaches(w, t, lambda s: any(f.type is None for f in s.fields))


def compositional(conv, w: World, o, t, r, strat, path="$"):
    """C02, "never silently drops, defaults or passes through an invalid component of a typed position":
    every component of an accepted payload must itself be accepted at its declared type, with the
    result the container holds.  Returns a description of the first offending position, or None."""
    k = t[0]
    if k in ("newtype",):
        return compositional(conv, w, o, t[2], r, strat, path)
    if k == "annot":
        return compositional(conv, w, o, t[1], r, strat, path)
    if k == "opt":
        return None if o is None else compositional(conv, w, o, t[1], r, strat, path)
    pairs = []
    if k in ("list", "tuphom") and t[1][0] != "any" and type(o) in (list, tuple):
        if len(o) != len(r):
            return f"{path}: {len(o)} elements in, {len(r)} out"
        pairs = [(f"{path}[{i}]", oe, t[1], re_) for i, (oe, re_) in enumerate(zip(o, r))]
    elif k == "tuple" and type(o) in (list, tuple):
        if len(o) != len(t[1]) or len(r) != len(t[1]):
            return f"{path}: arity {len(o)} accepted for a {len(t[1])}-tuple"
        pairs = [(f"{path}[{i}]", oe, tt, re_) for i, (oe, tt, re_) in enumerate(zip(o, t[1], r))]
    elif k == "dict" and type(o) is dict and not (t[1][0] == "any" and t[2][0] == "any"):
        for kk, vv in o.items():
            try:
                sk = conv.structure(kk, w.to_py(t[1]))
            except Exception:
                return f"{path}: key {kk!r} is not acceptable as a key but the mapping was accepted"
            if sk not in r:
                return f"{path}: key {kk!r} disappeared"
            pairs.append((f"{path}[{kk!r}]", vv, t[2], r[sk]))
        # several input keys may collapse onto one structured key: only the last one must match
        last = {}
        for p in pairs:
            last[p[0]] = p
        seen_keys = {}
        for kk in o:
            seen_keys[conv.structure(kk, w.to_py(t[1]))] = kk
        pairs = [(f"{path}[{kk!r}]", o[kk], t[2], r[sk]) for sk, kk in seen_keys.items()]
    elif k in ("class", "self") and ((strat == "dict" and type(o) is dict) or (strat == "tuple" and type(o) in (list, tuple))):
        spec = w.specs[t[1]]
        if spec.kind == "td":
            if type(o) is dict and type(r) is dict:
                for f in spec.fields:
                    if f.name not in o:
                        continue
                    if f.name not in r:
                        return f"{path}[{f.name!r}]: present in the payload, absent from the result"
                    pairs.append((f"{path}[{f.name!r}]", o[f.name], f.type, r[f.name]))
        elif strat == "dict":
            for f in spec.fields:
                if f.type is None or f.name not in o or not f.init:
                    continue
                if not hasattr(r, f.name):
                    return f"{path}.{f.name}: present in the payload, unset in the result"
                pairs.append((f"{path}.{f.name}", o[f.name], f.type, getattr(r, f.name)))
        else:
            for f, oe in zip(spec.fields, o):
                if f.type is None or not f.init:
                    continue
                pairs.append((f"{path}.{f.name}", oe, f.type, getattr(r, f.name)))
    for p, oe, tt, re_ in pairs:
        if tt[0] == "any":
            continue
        try:
            sub = conv.structure(oe, w.to_py(tt))
        except Exception as e:
            return f"{p}: component {oe!r} is rejected as {w.to_py(tt)} on its own ({type(e).__name__}) but was accepted in place; result holds {re_!r}"
        if not deep_same(sub, re_):
            return f"{p}: component {oe!r} structures to {sub!r} on its own, the result holds {re_!r}"
        bad = compositional(conv, w, oe, tt, re_, strat, p)
        if bad:
            return bad
    return None


# ------------------------------------------------------------------------------------ the session

def _has_nonstr_key(o, depth=0) -> bool:
    if depth > 20:
        return False
    if isinstance(o, dict):
        return any(not isinstance(k, str) for k in o) or any(_has_nonstr_key(x, depth + 1) for x in o.values())
    if isinstance(o, (list, tuple, set, frozenset)):
        return any(_has_nonstr_key(x, depth + 1) for x in o)
    return False


class Session:
    def __init__(self, v: Verdict, name: str, flags: dict):
        self.world_classes = {}
        self.v = v
        self.name = name
        self.flags = flags
        self.blocks = []       # coq text per world
        self.meta = []         # one entry per case, in order
        self.hist = {"worlds": 0, "types": 0, "values": 0, "unstructure": 0, "structure_valid": 0, "structure_mutated": 0, "structure_junk": 0,
                     "accepted": 0, "rejected": 0, "kinds": {}, "max_depth": 0, "classes": 0, "recursive_classes": 0, "unencodable": 0,
                     "cfg": {}}

    def add_case(self, w, tables, cases, kind, cfg, forbid, t, obj, res, extra=None):
        full, dv, strat = cfg
        if not full and not base_supported(w, t):
            return          # BaseConverter x Annotated / NewType over non-primitives is outside the model (unsupported by BaseConverter)
        try:
            if kind == "S":
                prims = L.prims_of(w, t, set(), set())
                tables.add_payload(obj, prims, L.has_class(w, t))
            # the CLASS of the exception is compared too -- except where the model's rule for it is knowingly approximate: with
            # forbid_extra_keys a payload dict with a non-str key makes the constructor of ForbiddenExtraKeysError itself raise
            # TypeError; the model applies that to every Forbidden error passing through such a level, the implementation only where
            # the level's OWN check fires (an error of a nested class propagates unchanged in fast mode): acceptance only there
            strict = not (kind == "S" and forbid and _has_nonstr_key(obj))
            text = f"ccase_ok {'true' if strict else 'false'} ENV (C{kind} {L.ccfg(full, dv, strat, forbid, self.flags)} {w.cty(t)} {w.cval(obj)} {L.cout(w, res)})"
        except Unencodable:
            self.hist["unencodable"] += 1
            return
        except RecursionError:
            self.hist["unencodable"] += 1
            return
        cases.append(text)
        desc = {"op": "structure" if kind == "S" else "unstructure", "converter": "Converter" if full else "BaseConverter", "detailed_validation": dv,
                "strategy": strat, "forbid_extra_keys": forbid, "type": repr(w.to_py(t)) if t[0] != "self" else repr(t), "input": repr(obj)[:300],
                "observed": (repr(res[1])[:300] if res[0] == "ok" else f"raises {type(res[2]).__name__}: {str(res[2])[:120]}")}
        if extra:
            desc.update(extra)
        desc["world"] = self.hist["worlds"]
        if self.hist["worlds"] not in self.world_classes:
            self.world_classes[self.hist["worlds"]] = [describe_class(w, s) for s in w.specs]
        self.meta.append(desc)
        self.v.count(repr((self.hist["worlds"], desc["op"], desc["converter"], dv, strat, forbid, desc["type"], desc["input"])),
                     L.type_depth(t) >= 1 or L.has_class(w, t))
        self.hist["accepted" if res[0] == "ok" else "rejected"] += 1
        ck = f"{desc['converter']}/{'detailed' if dv else 'fast'}/{strat}"
        self.hist["cfg"][ck] = self.hist["cfg"].get(ck, 0) + 1

    def close_world(self, w, tables, cases):
        if not cases:
            return
        i = len(self.blocks)
        env = tables.coq_env(f"env_{i}")
        body = ";\n  ".join(c.replace("ENV", f"env_{i}") for c in cases)
        self.blocks.append((env + f"Definition cs_{i} : list bool := [\n  {body}\n].\n", len(cases)))

    def explain(self, idx):
        """What the model computes for case number idx (for replay files / debugging)."""
        base = 0
        for i, (txt, n) in enumerate(self.blocks):
            if idx < base + n:
                src = HEADER + txt
                m = re.search(r"Definition cs_%d : list bool := \[\n(.*)\n\]\.\n" % i, txt, flags=re.S)
                case = m.group(1).split(";\n  ")[idx - base]
                fn = "cerr_model" if " (CE " in case else "ccase_model"
                case = re.sub(r"^ccase_ok (?:true|false) (env_\d+) ", fn + r" \1 ", case.strip())
                src += f"Eval vm_compute in ({case}).\n"
                rc, out = run_cases_file(f"{self.name}_explain", src, timeout=300)
                vals = parse_coq_value(out)
                return vals[-1] if vals else out[-400:]
            base += n
        return "?"

    def run_model(self, shard_cases=700):
        """Evaluate the model on every case; returns indexes of disagreeing cases."""
        bad = []
        shards, cur, cur_n, base = [], [], 0, 0
        offsets = []
        for idx, (txt, n) in enumerate(self.blocks):
            cur.append((idx, txt, n))
            cur_n += n
            if cur_n >= shard_cases:
                shards.append((base, cur))
                base += cur_n
                cur, cur_n = [], 0
        if cur:
            shards.append((base, cur))
        import concurrent.futures

        def one(sh):
            base, blocks = sh
            src = HEADER + "".join(t for _, t, _ in blocks)
            src += "Eval vm_compute in (bad_from 0 (" + " ++ ".join(f"cs_{i}" for i, _, _ in blocks) + ")).\n"
            rc, out = run_cases_file(f"{self.name}_{self.v.seed}_{base}", src, timeout=900)
            vals = parse_coq_value(out)
            if rc != 0 or not vals:
                return base, None, out[-800:]
            return base, [int(x) for x in re.findall(r"\d+", vals[-1])], ""
        with concurrent.futures.ThreadPoolExecutor(max_workers=8) as ex:
            for base, idxs, err in ex.map(one, shards):
                if idxs is None:
                    self.v.obligation(f"correspondence:CONV/{self.name}:coqc", False, err)
                    return None
                bad += [base + i for i in idxs]
        return sorted(bad)


def pick_types(w: World, rng, n):
    out = []
    for _ in range(n):
        if w.pycls and rng.random() < 0.55:
            t = ("class", rng.randrange(len(w.pycls)))
            if rng.random() < 0.4:
                t = rng.choice([("list", t, rng.randrange(4)), ("opt", t), ("dict", ("prim", "str"), t, rng.randrange(4)), ("tuple", [t, ("prim", "int")]),
                                ("tuphom", t, 0), ("newtype", 41, t), ("annot", t)])
        else:
            t = L.gen_type(w, w.profile.get("depth", 3), len(w.pycls))
        out.append(t)
    return out


def conv_session(v: Verdict, name: str, flags: dict, n_worlds: int, profile: dict, oracles: set, with_model: bool = True):
    rng = random.Random(v.seed * 7919 + sum(map(ord, name)))
    S = Session(v, name, flags)
    grid = with_model and not name.endswith(tuple(f"-search{k}" for k in range(1, 9)))
    for wi in range(n_worlds + (1 if grid else 0)):
        is_grid = wi == n_worlds
        if is_grid:
            # one more world, always the same one, for the deterministic grid of depth-2 type expressions (lane_conv.grid_types)
            grng = random.Random(20261001)
            w = L.gen_world(grng, dict(profile, max_classes=3))
        else:
            w = L.gen_world(rng, profile)
        tables = Tables(w)
        cases = []
        S.hist["worlds"] += 1
        S.hist["classes"] += len(w.specs)
        S.hist["recursive_classes"] += sum(1 for s in w.specs if s.recursive)
        pool = {}       # converters live as long as their world: hooks cached for one type are in place when the next is used

        def get_conv(cfg, forbid):
            if (cfg, forbid) not in pool:
                pool[(cfg, forbid)] = L.make_converter(*cfg, forbid)
            return pool[(cfg, forbid)]
        type_list = L.grid_types(w) if is_grid else pick_types(w, rng, rng.randint(2, 3))
        if is_grid:
            S.hist["grid_types"] = len(type_list)
        for ti_, t in enumerate(type_list):
            S.hist["types"] += 1
            L.type_kinds(w, t, S.hist["kinds"])
            S.hist["max_depth"] = max(S.hist["max_depth"], L.type_depth(t))
            for _ in range(1 if is_grid else 2):
                try:
                    x = L.gen_value(w, t, 2 if is_grid else 3)
                except RecursionError:
                    continue
                S.hist["values"] += 1
                cfgs = [CFGS[ti_ % len(CFGS)], CFGS[(ti_ + 3) % len(CFGS)]] if is_grid else rng.sample(CFGS, 4)
                outs = {}
                for cfg in cfgs:
                    full, dv, strat = cfg
                    forbid = full and rng.random() < 0.25
                    conv = get_conv(cfg, forbid)
                    try:
                        ures = L.run_unstructure(conv, w, x, t)
                    except RecursionError:
                        continue
                    S.hist["unstructure"] += 1
                    S.add_case(w, tables, cases, "U", cfg, forbid, t, x, ures)
                    if "C03" in oracles and ures[0] == "ok":
                        oracle_c03(v, w, cfg, t, x, ures[1])
                    if ures[0] == "err" and "C03" in oracles and conforms_py(w, x, t) and (full or base_ok(w, t)) and not (strat == "dict" and (class_as_key(w, t) or value_has_class_key(x))):
                        v.violation("unstructure raised on a value of the type", rp(w, cfg, forbid, t, x, ures, "C03"))
                    if ures[0] != "ok":
                        continue
                    outs[cfg] = ures[1]
                    u = ures[1]
                    # structure what was unstructured: same converter, and the other converter class
                    for cfg2 in ([cfg] + [c for c in CFGS if c[2] == strat and c != cfg and rng.random() < 0.4]):
                        conv2 = conv if cfg2 == cfg else get_conv(cfg2, False)
                        fb2 = forbid if cfg2 == cfg else False
                        try:
                            sres = L.run_structure(conv2, w, u, t)
                        except RecursionError:
                            continue
                        S.hist["structure_valid"] += 1
                        S.add_case(w, tables, cases, "S", cfg2, fb2, t, u, sres)
                        if "C01" in oracles:
                            oracle_c01(v, w, cfg, cfg2, t, x, u, sres)
                        if "C02" in oracles:
                            oracle_c02(v, w, conv2, cfg2, fb2, t, u, sres)
                        if "C06" in oracles and not fb2:
                            oracle_c06_struct(v, w, cfg2, t, u, sres)
                        if "C04" in oracles:
                            oracle_c04(v, w, get_conv, cfg2, fb2, t, u, sres, S.hist)
                    # corrupted payloads and junk
                    for j in range(3):
                        if j < 2:
                            o = u
                            for _ in range(rng.randint(1, 2)):
                                o = L.mutate(rng, o)
                            S.hist["structure_mutated"] += 1
                        else:
                            o = rng.choice(L.JUNK)
                            S.hist["structure_junk"] += 1
                        try:
                            sres = L.run_structure(conv, w, o, t)
                        except RecursionError:
                            continue
                        S.add_case(w, tables, cases, "S", cfg, forbid, t, o, sres)
                        if "C02" in oracles:
                            oracle_c02(v, w, conv, cfg, forbid, t, o, sres)
                        if "C06" in oracles and not forbid:
                            oracle_c06_struct(v, w, cfg, t, o, sres)
                        if "C04" in oracles:
                            oracle_c04(v, w, get_conv, cfg, forbid, t, o, sres, S.hist)
                if "C06" in oracles:
                    oracle_c06_unstruct(v, w, t, x, outs)
                if "C03" in oracles:
                    # the same value through a Converter that omits default-valued attributes (oracle only)
                    dvo = rng.random() < 0.5
                    if ("omit", dvo) not in pool:
                        from cattrs import Converter as _Conv
                        pool[("omit", dvo)] = _Conv(detailed_validation=dvo, omit_if_default=True)
                    try:
                        ores = L.run_unstructure(pool[("omit", dvo)], w, x, t)
                    except RecursionError:
                        ores = None
                    if ores is not None and ores[0] == "ok":
                        S.hist["unstructure_omit_if_default"] = S.hist.get("unstructure_omit_if_default", 0) + 1
                        oracle_c03_omit(v, w, dvo, t, x, ores[1])
        S.close_world(w, tables, cases)
    if not with_model:
        return S
    bad = S.run_model()
    if bad is not None:
        v.obligation(f"correspondence:CONV/{name} (model structure/unstructure = implementation on every generated case)", not bad,
                     "" if not bad else f"{len(bad)} of {len(S.meta)} disagree, first: {S.meta[bad[0]]}; classes of that world: {S.world_classes.get(S.meta[bad[0]].get('world'))}; "
                                        f"the model computes: {S.explain(bad[0])}")
        S.bad = [dict(S.meta[i], model=S.explain(i)) for i in bad[:12]]
    v.coverage["input_distribution"] = S.hist
    if len(v.samples) < 5:
        v.samples += S.meta[:5]
    return S


def rp(w, cfg, forbid, t, inp, res, prop, **kw):
    full, dv, strat = cfg
    d = {"lane": f"CONV/{prop}", "converter": "Converter" if full else "BaseConverter", "detailed_validation": dv, "strategy": strat,
         "forbid_extra_keys": forbid, "type": repr(w.to_py(t)), "classes": [describe_class(w, s) for s in w.specs], "input": repr(inp)[:600],
         "observed": (repr(res[1])[:600] if res[0] == "ok" else f"raises {type(res[2]).__name__}: {str(res[2])[:200]}")}
    d.update(kw)
    return d


def describe_class(w, spec):
    return f"K{spec.cid}({spec.kind}): " + ", ".join(
        f"{f.name}: {w.to_py(f.type) if f.type is not None else 'untyped'}" + ("" if f.default is NODEFAULT else f" = {f.default!r}")
        + (" kw_only" if f.kw_only else "") + ("" if f.init else " init=False") for f in spec.fields)


def rt_supported(w, cfg, cfg2, t):
    """Inside the region the round trip is documented for, for this pair of converters."""
    for c in (cfg, cfg2):
        if not c[0] and not base_ok(w, t):
            return False
    return True


def oracle_c01(v, w, cfg, cfg2, t, x, u, sres):
    if not rt_supported(w, cfg, cfg2, t):
        return
    if sres[0] != "ok":
        v.violation("round trip: the unstructured form of a value is rejected when structured as the same type",
                    rp(w, cfg2, False, t, u, sres, "C01", value=repr(x)[:400], unstructured_by=("Converter" if cfg[0] else "BaseConverter")))
    elif not deep_same(sres[1], x):
        v.violation("round trip: structure(unstructure(x, T), T) differs from x (value or class)",
                    rp(w, cfg2, False, t, u, sres, "C01", value=repr(x)[:400], unstructured_by=("Converter" if cfg[0] else "BaseConverter")))


def oracle_c02(v, w, conv, cfg, forbid, t, o, sres):
    if sres[0] != "ok":
        return
    if not cfg[0] and w._mentions_td(t):
        return            # TypedDicts are supported through Converter's generated hooks only (docs/defaulthooks.md); BaseConverter sees a plain dict
    if not conforms_py(w, sres[1], t):
        if w._mentions_td(t) and td_nonmapping(w, t, o):
            v.finding("F11", "fast TypedDict hook returns a copy of a non-mapping payload", rp(w, cfg, forbid, t, o, sres, "C02"))
        elif cfg[2] == "tuple" and reaches(w, t, shifts_positions):
            v.finding("F27", "tuple strategy: values shifted onto the wrong attributes past a kw_only / init=False attribute", rp(w, cfg, forbid, t, o, sres, "C02"))
        else:
            v.violation("structure returned a value that does not conform to the requested type", rp(w, cfg, forbid, t, o, sres, "C02"))
        return
    try:
        bad = compositional(conv, w, o, t, sres[1], cfg[2])
    except RecursionError:
        return
    if bad and cfg[2] == "tuple" and reaches(w, t, shifts_positions):
        v.finding("F27", "tuple strategy: values shifted onto the wrong attributes past a kw_only / init=False attribute", rp(w, cfg, forbid, t, o, sres, "C02"))
    elif bad:
        v.violation("structure silently dropped, defaulted or passed through an invalid component: " + bad, rp(w, cfg, forbid, t, o, sres, "C02"))


def omit_matches(w: World, t, x, u, want) -> str:
    """Converter(omit_if_default=True): the output is the documented encoding `want` minus attributes that hold their default;
    returns a description of the first deviation, or ''"""
    k = t[0] if t is not None else "any"
    if k in ("newtype",):
        return omit_matches(w, t[2], x, u, want)
    if k in ("annot", "opt"):
        return "" if x is None and u is None else omit_matches(w, t[1], x, u, want)
    if k in ("class", "self") and type(u) is dict and type(want) is dict:
        spec = w.specs[t[1]]
        if spec.kind == "td":
            return "" if deep_same(u, want) else "TypedDict position differs"
        for key in u:
            if key not in want:
                return f"unexpected key {key!r}"
        for f in spec.fields:
            if f.name not in want:
                continue
            if f.name in u:
                bad = omit_matches(w, f.type, getattr(x, f.name), u[f.name], want[f.name])
                if bad:
                    return f".{f.name}: {bad}"
            elif f.default is NODEFAULT or not (getattr(x, f.name) == f.default):
                return f".{f.name} is missing although it does not hold its default"
        return ""
    if k in ("list", "tuphom") and type(u) is list and type(want) is list and len(u) == len(want) == len(x):
        for i, (xe, ue, we) in enumerate(zip(x, u, want)):
            bad = omit_matches(w, t[1], xe, ue, we)
            if bad:
                return f"[{i}]{bad}"
        return ""
    if k == "tuple" and type(u) is tuple and type(want) is tuple and len(u) == len(want) == len(x):
        for i, (tt, xe, ue, we) in enumerate(zip(t[1], x, u, want)):
            bad = omit_matches(w, tt, xe, ue, we)
            if bad:
                return f"[{i}]{bad}"
        return ""
    if k == "dict" and type(u) is dict and type(want) is dict and t[1][0] in ("prim", "lit") and set(u) == set(want):
        for kk in x:
            bad = omit_matches(w, t[2], x[kk], u[kk], want[kk])
            if bad:
                return f"[{kk!r}]{bad}"
        return ""
    if k in ("any", "set", "fset", "dict") or t is None:
        # positions encoded by runtime class, unordered containers and non-trivially keyed mappings: primitives only (the elements' own
        # omissions cannot be lined up); exact equality is checked by the non-omitting configurations
        return "" if primitive_only(u) else "non-primitive object"
    return "" if deep_same(u, want) else f"{u!r} instead of {want!r}"


def oracle_c03_omit(v, w, dv, t, x, u):
    if not conforms_py(w, x, t) or w._mentions_td(t) or class_as_key(w, t):
        return            # (a class used as a mapping key has no dict-strategy encoding: a dict is not hashable)
    if not primitive_only(u):
        v.violation("unstructured output contains a non-primitive object (omit_if_default=True)", rp(w, (True, dv, "dict"), False, t, x, ("ok", u, None), "C03"))
        return
    try:
        want = encode_py(w, True, "dict", t, x)
        bad = omit_matches(w, t, x, u, want)
    except Exception as e:
        v.violation(f"oracle omit_matches failed: {e!r}", rp(w, (True, dv, "dict"), False, t, x, ("ok", u, None), "C03"))
        return
    if bad:
        v.violation("with omit_if_default=True the output is not the documented encoding minus default-valued attributes: " + bad,
                    rp(w, (True, dv, "dict"), False, t, x, ("ok", u, None), "C03", documented=repr(want)[:600]))


def oracle_c03(v, w, cfg, t, x, u):
    full, dv, strat = cfg
    if not conforms_py(w, x, t):
        return
    if not full and not base_ok(w, t):
        return
    if not primitive_only(u):
        v.violation("unstructured output contains a non-primitive object", rp(w, cfg, False, t, x, ("ok", u, None), "C03"))
        return
    try:
        want = encode_py(w, full, strat, t, x)
    except Exception as e:  # the oracle itself must not hide anything
        v.violation(f"oracle encode_py failed: {e!r}", rp(w, cfg, False, t, x, ("ok", u, None), "C03"))
        return
    if not deep_same(want, u):
        v.violation("unstructured output differs from the documented encoding", rp(w, cfg, False, t, x, ("ok", u, None), "C03", documented=repr(want)[:600]))


def mapping_shaped(w, t, o, strat, depth=0) -> bool:
    """Class positions hold mappings (sequences under the tuple strategy), at every reached position."""
    k = t[0]
    if k in ("newtype",):
        return mapping_shaped(w, t[2], o, strat, depth)
    if k == "annot":
        return mapping_shaped(w, t[1], o, strat, depth)
    if k == "opt":
        return o is None or mapping_shaped(w, t[1], o, strat, depth)
    if k in ("list", "tuphom", "set", "fset"):
        try:
            return all(mapping_shaped(w, t[1], e, strat, depth + 1) for e in o)
        except TypeError:
            return True
    if k == "tuple":
        try:
            return all(mapping_shaped(w, tt, e, strat, depth + 1) for tt, e in zip(t[1], o))
        except TypeError:
            return True
    if k == "dict":
        if type(o) is not dict:
            return True
        return all(mapping_shaped(w, t[1], kk, strat, depth + 1) and mapping_shaped(w, t[2], e, strat, depth + 1) for kk, e in o.items())
    if k in ("class", "self"):
        spec = w.specs[t[1]]
        if strat == "dict":
            if type(o) is not dict:
                return False
            return all(f.type is None or f.name not in o or mapping_shaped(w, f.type, o[f.name], strat, depth + 1) for f in spec.fields)
        if type(o) not in (list, tuple):
            return False
        return all(f.type is None or mapping_shaped(w, f.type, e, strat, depth + 1) for f, e in zip(spec.fields, o))
    return True


def oracle_c06_struct(v, w, cfg, t, o, sres):
    full, dv, strat = cfg
    if not base_ok(w, t) or reaches(w, t, lambda s: any(not f.init for f in s.fields)):
        return
    try:
        if not mapping_shaped(w, t, o, strat):
            return
    except RecursionError:
        return
    other = (not full, dv, strat)
    try:
        ores = L.run_structure(L.make_converter(*other, False), w, o, t)
    except RecursionError:
        return
    if (sres[0] == "ok") != (ores[0] == "ok"):
        v.violation("Converter and BaseConverter disagree on acceptance",
                    rp(w, cfg, False, t, o, sres, "C06", other=(repr(ores[1])[:300] if ores[0] == "ok" else f"raises {type(ores[2]).__name__}: {str(ores[2])[:160]}")))
    elif sres[0] == "ok" and not deep_same(sres[1], ores[1]):
        v.violation("Converter and BaseConverter accept the input with different results",
                    rp(w, cfg, False, t, o, sres, "C06", other=repr(ores[1])[:300]))


def td_nonmapping(w, t, o, depth=0) -> bool:
    """Is there a TypedDict position holding something that is not a dict? (finding F11's shape)"""
    if depth > 25:
        return False
    k = t[0]
    if k in ("newtype",):
        return td_nonmapping(w, t[2], o, depth)
    if k in ("annot", "opt"):
        return o is not None and td_nonmapping(w, t[1], o, depth)
    if k in ("list", "tuphom", "set", "fset", "deque"):
        try:
            return any(td_nonmapping(w, t[1], e, depth + 1) for e in o)
        except TypeError:
            return False
    if k == "tuple":
        try:
            return any(td_nonmapping(w, tt, e, depth + 1) for tt, e in zip(t[1], o))
        except TypeError:
            return False
    if k in ("dict", "defaultdict") and isinstance(o, dict):
        return any(td_nonmapping(w, t[2], e, depth + 1) for e in o.values())
    if k in ("class", "self"):
        spec = w.specs[t[1]]
        if spec.kind == "td":
            if type(o) is not dict:
                return True
        if isinstance(o, dict):
            return any(f.type is not None and f.name in o and td_nonmapping(w, f.type, o[f.name], depth + 1) for f in spec.fields)
        if type(o) in (list, tuple):
            return any(f.type is not None and td_nonmapping(w, f.type, e, depth + 1) for f, e in zip(spec.fields, o))
    return False


def oracle_c04(v, w, get_conv, cfg, forbid, t, o, sres, hist):
    """The same converter class and options with the other validation mode: same acceptance, deeply equal result."""
    full, dv, strat = cfg
    other = (full, not dv, strat)
    try:
        ores = L.run_structure(get_conv(other, forbid), w, o, t)
    except RecursionError:
        return
    hist["mode_pairs"] = hist.get("mode_pairs", 0) + 1
    rpt = lambda r: repr(r[1])[:300] if r[0] == "ok" else f"raises {type(r[2]).__name__}: {str(r[2])[:160]}"
    if (sres[0] == "ok") != (ores[0] == "ok"):
        if w._mentions_td(t) and td_nonmapping(w, t, o):
            v.finding("F11", "fast-mode TypedDict hook accepts a non-mapping payload that detailed validation rejects", rp(w, cfg, forbid, t, o, sres, "C04", other_mode=rpt(ores)))
        else:
            v.violation("detailed_validation changes acceptance", rp(w, cfg, forbid, t, o, sres, "C04", other_mode=rpt(ores)))
    elif sres[0] == "ok" and not deep_same(sres[1], ores[1]):
        v.violation("detailed_validation changes the result", rp(w, cfg, forbid, t, o, sres, "C04", other_mode=rpt(ores)))


def listify(u):
    if type(u) in (list, tuple):
        return [listify(x) for x in u]
    if type(u) in (set, frozenset):
        return type(u)(listify_h(x) for x in u)
    if type(u) is dict:
        return {listify_h(k): listify(x) for k, x in u.items()}
    return u


def listify_h(u):
    return tuple(listify_h(x) for x in u) if type(u) in (list, tuple) else u


def oracle_c06_unstruct(v, w, t, x, outs):
    if not base_ok(w, t) or not conforms_py(w, x, t):
        return
    by = {}
    for (full, dv, strat), u in outs.items():
        by.setdefault(strat, {})[full] = u
    for strat, d in by.items():
        if True in d and False in d:
            full_u, base_u = d[True], d[False]
            if reaches(w, t, lambda s: any(not f.init for f in s.fields)) and strat == "dict":
                continue   # Converter leaves init=False attributes out, BaseConverter keeps them (documented customisation default)
            if not deep_same(listify(full_u), listify(base_u)):
                v.violation("Converter and BaseConverter produce different unstructured data (beyond tuples/deques becoming lists)",
                            rp(w, (True, True, strat), False, t, x, ("ok", full_u, None), "C06", other=repr(base_u)[:400]))


def flags_of(t1_summary):
    g = t1_summary.get("gen") or {}
    return {"recheck": bool(g.get("detailed_rechecks_errors", False)), "kw_last": bool(g.get("fast_kw_last", False)), "tuple_kw": bool(g.get("tuple_by_kw", False))}


def check_conv(v: Verdict, prop: str, t1_summary, n_worlds: int):
    profile = dict(P_ALL if prop in ("C02",) else P_SUPPORTED)
    if prop == "C02":
        profile["typeddicts"] = 0.15          # TypedDict positions: oracle only
    if prop == "C04":
        profile = dict(P_ALL, ext_types=True, typeddicts=0.15)
    if prop == "C03":
        profile["any_structured"] = True
        profile["any_tuples"] = True
        profile["init_false"] = 0.1
    S = conv_session(v, prop, flags_of(t1_summary), n_worlds, profile, {prop})
    if v.broken and not v.violations:
        # a proof obligation, T1 or the correspondence no longer checks and the oracle found nothing yet:
        # search for a failing input with an enlarged budget (oracle only, other sub-seeds)
        for k in range(1, 4):
            conv_session(v, f"{prop}-search{k}", flags_of(t1_summary), n_worlds * 2, profile, {prop}, with_model=False)
            if v.violations:
                break
        v.coverage["enlarged_search_rounds"] = k
    return S
