"""CONV lane -- nested structure / unstructure of the real Converter and BaseConverter against
Model/Conv.v.  Worlds (enums + classes with nested field types), type expressions, conforming
values, mutated and junk payloads are generated from one PRNG; every Python object is encoded as a
model value; the oracle tables of the model environment (primitive constructors, `in`, iter, len on
atoms) are computed by calling the real operations on the real objects."""
from __future__ import annotations

import dataclasses
import enum
import random
import typing
from collections.abc import Mapping, MutableMapping, MutableSequence, MutableSet, Sequence
from typing import Annotated, Any, Dict, FrozenSet, List, Literal, NewType, Optional, Set, Tuple

import attrs

from cattrs import BaseConverter, Converter, UnstructureStrategy
from cattrs.errors import (ClassValidationError, ForbiddenExtraKeysError, IterableValidationError,
                           StructureHandlerNotFoundError)

PRIM_CLS = {"int": int, "float": float, "str": str, "bytes": bytes, "bool": bool}
PRIM_COQ = {"int": "PInt", "float": "PFloat", "str": "PStr", "bytes": "PBytes", "bool": "PBool"}
CLS_PRIM = {int: "int", float: "float", str: "str", bytes: "bytes", bool: "bool"}

NODEFAULT = object()


class Unencodable(Exception):
    pass


class Interner:
    """Equality-class ids of atoms: a Python dict keyed by the value does exactly `==` + hash."""

    def __init__(self):
        self.ids = {}

    def __call__(self, v):
        if isinstance(v, float) and v != v:
            raise Unencodable("nan")
        key = v
        if key not in self.ids:
            self.ids[key] = len(self.ids) + 1
        return self.ids[key]


@dataclasses.dataclass
class FieldSpec:
    name: str
    alias: str
    type: Any                 # type AST or None (untyped)
    default: Any = NODEFAULT   # a Python value
    factory: bool = False
    init: bool = True
    kw_only: bool = False


@dataclasses.dataclass
class ClassSpec:
    cid: int
    kind: str                 # attrs | frozen | dataclass
    fields: list
    recursive: bool = False


class World:
    def __init__(self, rng: random.Random, profile: dict):
        self.rng = rng
        self.profile = profile
        self.intern = Interner()
        self.enums = []
        self.specs = []
        self.pycls = []
        self.newtypes = {}
        self._py_cache = {}

    def mid(self, cid):
        """Model class id: frozen (hashable) classes are numbered from 100 up."""
        return cid + 100 if self.specs[cid].kind == "frozen" else cid

    def type_hashable(self, t, seen=()):
        k = t[0]
        if k in ("prim", "enum", "lit"):
            return True
        if k == "newtype":
            return self.type_hashable(t[2], seen)
        if k == "annot":
            return self.type_hashable(t[1], seen)
        if k == "opt":
            return self.type_hashable(t[1], seen)
        if k == "fset":
            return True
        if k == "tuphom":
            return self.type_hashable(t[1], seen)
        if k == "tuple":
            return all(self.type_hashable(x, seen) for x in t[1])
        if k == "class":
            spec = self.specs[t[1]]
            return spec.kind == "frozen" and t[1] not in seen and all(f.type is not None and self.type_hashable(f.type, seen + (t[1],)) for f in spec.fields)
        return False

    # ---------------------------------------------------------------- python typing objects
    def to_py(self, t):
        k = t[0]
        if k == "any":
            return Any
        if k == "prim":
            return PRIM_CLS[t[1]]
        if k == "enum":
            return self.enums[t[1]]
        if k == "time":
            import datetime as _dt
            return _dt.datetime if t[1] == "datetime" else _dt.date
        if k == "lit":
            return Literal[tuple(t[1])]
        if k == "list":
            inner = self.to_py(t[1])
            sp = t[2]
            if sp >= 4:
                # bare spellings (only with Any elements): no type argument at all
                import collections.abc
                return {4: list, 5: List, 6: typing.Sequence, 7: typing.MutableSequence}[sp]      # (bare collections.abc.Sequence has no hook: 'Unsupported type', not generated)
            return {0: List[inner], 1: list[inner], 2: Sequence[inner], 3: MutableSequence[inner]}[sp]
        if k == "tuphom":
            inner = self.to_py(t[1])
            if t[2] >= 2:
                return {2: tuple, 3: Tuple}[t[2]]          # bare (Any elements)
            return Tuple[inner, ...] if t[2] == 0 else tuple[inner, ...]
        if k == "tuple":
            return Tuple[tuple(self.to_py(x) for x in t[1])] if t[1] else Tuple[()]
        if k == "set":
            inner = self.to_py(t[1])
            if t[2] >= 3:
                return {3: set, 4: typing.Set, 5: typing.MutableSet}[t[2]]       # bare (Any elements)
            return {0: Set[inner], 1: set[inner], 2: MutableSet[inner]}[t[2]]
        if k == "fset":
            inner = self.to_py(t[1])
            if t[2] >= 2:
                return {2: frozenset, 3: FrozenSet}[t[2]]          # bare (Any elements)
            return FrozenSet[inner] if t[2] == 0 else frozenset[inner]
        if k == "dict":
            kt, vt = self.to_py(t[1]), self.to_py(t[2])
            if t[3] >= 4:
                # bare spellings (only generated for Any keys and values): no type arguments at all
                import collections.abc
                return {4: typing.Mapping, 5: typing.MutableMapping, 6: dict, 7: collections.abc.Mapping, 8: collections.abc.MutableMapping}[t[3]]
            return {0: Dict[kt, vt], 1: dict[kt, vt], 2: Mapping[kt, vt], 3: MutableMapping[kt, vt]}[t[3]]
        if k == "opt":
            if len(t) > 2 and t[2] == 1:
                return typing.Union[None, self.to_py(t[1])]       # None first: an equal type, spelled the other way round
            return Optional[self.to_py(t[1])]
        if k == "counter":
            import collections
            return typing.Counter[self.to_py(t[1])] if t[2] == 0 else collections.Counter[self.to_py(t[1])]
        if k == "defaultdict":
            import collections
            return typing.DefaultDict[self.to_py(t[1]), self.to_py(t[2])] if t[3] == 0 else collections.defaultdict[self.to_py(t[1]), self.to_py(t[2])]
        if k == "deque":
            import collections
            return typing.Deque[self.to_py(t[1])] if t[2] == 0 else collections.deque[self.to_py(t[1])]
        if k == "class":
            return self.pycls[t[1]]
        if k == "self":
            return self.pycls[t[1]] if t[1] < len(self.pycls) else f"K{t[1]}"
        if k == "newtype":
            key = (t[1], repr(t[2]))
            if key not in self.newtypes:
                self.newtypes[key] = NewType(f"NT{t[1]}", self.to_py(t[2]))
            return self.newtypes[key]
        if k == "annot":
            return Annotated[self.to_py(t[1]), "meta"]
        raise ValueError(t)

    # ---------------------------------------------------------------- Coq text
    def cty(self, t):
        k = t[0]
        if k == "any":
            return "TAny"
        if k == "prim":
            return f"(TPrim {PRIM_COQ[t[1]]})"
        if k == "time":
            raise Unencodable("datetime / date leaves are not in the nested model")
        if k in ("counter", "defaultdict", "deque"):
            raise Unencodable("Counter / defaultdict / deque are not in the nested model (oracle only)")
        if k == "enum":
            return f"(TEnum {t[1]}%N)"
        if k == "lit":
            return "(TLit [" + "; ".join(self.cval(v) for v in t[1]) + "])"
        if k == "list":
            return f"(TList {self.cty(t[1])})"
        if k == "tuphom":
            return f"(TTupleHom {self.cty(t[1])})"
        if k == "tuple":
            return "(TTuple [" + "; ".join(self.cty(x) for x in t[1]) + "])"
        if k == "set":
            return f"(TSet {self.cty(t[1])})"
        if k == "fset":
            return f"(TFrozenSet {self.cty(t[1])})"
        if k == "dict":
            return f"(TDict {self.cty(t[1])} {self.cty(t[2])})"
        if k == "opt":
            return f"(TOpt {self.cty(t[1])})"
        if k in ("class", "self"):
            if t[1] < len(self.specs) and self.uses_td(t[1]):
                raise Unencodable("TypedDict positions are not in the nested model")
            return f"(TClass {self.mid(t[1]) if t[1] < len(self.specs) else t[1]}%N)"
        if k == "newtype":
            return f"(TNewType {t[1]}%N {self.cty(t[2])})"
        if k == "annot":
            return f"(TAnnot {self.cty(t[1])})"
        raise ValueError(t)

    def cval(self, v):
        if v is None:
            return "VNone"
        tv = type(v)
        if tv in CLS_PRIM:
            return f"(VAtom {PRIM_COQ[CLS_PRIM[tv]]} {self.intern(v)}%N)"
        if isinstance(v, enum.Enum):
            for i, e in enumerate(self.enums):
                if type(v) is e:
                    return f"(VEnum {i}%N {list(e).index(v)}%N)"
            raise Unencodable("foreign enum")
        if tv is list:
            return "(VList [" + "; ".join(self.cval(x) for x in v) + "])"
        if tv is tuple:
            return "(VTuple [" + "; ".join(self.cval(x) for x in v) + "])"
        if tv is set:
            return "(VSet [" + "; ".join(self.cval(x) for x in v) + "])"
        if tv is frozenset:
            return "(VFrozenSet [" + "; ".join(self.cval(x) for x in v) + "])"
        if tv is dict:
            return "(VDict [" + "; ".join(f"({self.cval(k)}, {self.cval(x)})" for k, x in v.items()) + "])"
        for cid, cl in enumerate(self.pycls):
            if tv is cl:
                if self.uses_td(cid):
                    raise Unencodable("instance of a class that is not in the model environment")
                fs = []
                for f in self.specs[cid].fields:
                    if hasattr(v, f.name):
                        fs.append(f"({self.intern(f.name)}%N, {self.cval(getattr(v, f.name))})")
                return f"(VInst {self.mid(cid)}%N [" + "; ".join(fs) + "])"
        raise Unencodable(repr(tv))

    def cfield(self, f: FieldSpec, kw_seen):
        d = "None" if f.default is NODEFAULT else f"(Some {self.cval(f.default)})"
        b = lambda x: "true" if x else "false"
        return ("{| f_name := %d%%N; f_alias := %d%%N; f_dflt := %s; f_init := %s; f_kw_only := %s; f_kw_seen := %s; f_conv := false |}"
                % (self.intern(f.name), self.intern(f.alias), d, b(f.init), b(f.kw_only), b(kw_seen)))

    def cclasses(self):
        from lane_tpl import seen_kw_only
        out = []
        for spec, cl in zip(self.specs, self.pycls):
            if self.uses_td(spec.cid):
                continue
            seen = seen_kw_only(cl)
            fields = "[" + "; ".join(self.cfield(f, seen[f.name]) for f in spec.fields) + "]"
            types = "[" + "; ".join(f"({self.intern(f.name)}%N, {self.cty(f.type)})" for f in spec.fields if f.type is not None) + "]"
            out.append(f"({self.mid(spec.cid)}%N, {{| cd_fields := {fields}; cd_types := {types} |}})")
        return "[" + ";\n   ".join(out) + "]"

    def finalize(self):
        """Classes whose definition cannot be written down for the model (a default value of an unmodelled class, ...)
        are left out of the model environment, together with every class that refers to them."""
        self.unmodelled = set()
        from lane_tpl import seen_kw_only
        changed = True
        while changed:
            changed = False
            for spec, cl in zip(self.specs, self.pycls):
                if spec.cid in self.unmodelled or self.uses_td(spec.cid):
                    continue
                try:
                    seen = seen_kw_only(cl)
                    for f in spec.fields:
                        self.cfield(f, seen[f.name])
                        if f.type is not None:
                            self.cty(f.type)
                except Unencodable:
                    self.unmodelled.add(spec.cid)
                    changed = True

    def uses_td(self, cid, seen=()):
        if cid in seen:
            return False
        if cid in getattr(self, "unmodelled", ()):
            return True
        spec = self.specs[cid]
        return spec.kind == "td" or any(f.type is not None and self._mentions_td(f.type, seen + (cid,)) for f in spec.fields)

    def _mentions_td(self, t, seen=()):
        k = t[0]
        if k in ("counter", "deque", "defaultdict", "time"):
            return True           # not in the nested model either: classes holding them are left out of the model environment
        if k in ("class", "self"):
            return t[1] < len(self.specs) and self.uses_td(t[1], seen)
        if k in ("list", "tuphom", "set", "fset", "opt", "annot"):
            return self._mentions_td(t[1], seen)
        if k == "newtype":
            return self._mentions_td(t[2], seen)
        if k == "tuple":
            return any(self._mentions_td(x, seen) for x in t[1])
        if k == "dict":
            return self._mentions_td(t[1], seen) or self._mentions_td(t[2], seen)
        return False

    def cenums(self):
        return "[" + "; ".join(f"({i}%N, [" + "; ".join(self.cval(m.value) for m in e) + "])" for i, e in enumerate(self.enums)) + "]"


# ------------------------------------------------------------------------------------ generation

INT_POOL = [0, 1, 2, 3, 7, -1]
STR_POOL = ["", "a", "b", "1", "7", "xyz"]
BYTES_POOL = [b"", b"a", b"1"]
FLOAT_POOL = [0.0, 1.0, 1.5, -2.25]
HASHABLE_PRIMS = ["int", "str", "bool", "bytes", "float"]


def gen_world(rng: random.Random, profile: dict) -> World:
    w = World(rng, profile)
    w.enums.append(enum.Enum("E0", {"A": 1, "B": 2, "C": 3}))
    w.enums.append(enum.Enum("E1", {"X": "x", "Y": "y"}))
    ncls = rng.randint(1, profile.get("max_classes", 4))
    for cid in range(ncls):
        spec = gen_class(w, cid)
        w.specs.append(spec)
        w.pycls.append(build_class(w, spec))
    w.finalize()
    return w


def gen_type(w: World, depth: int, cid_limit: int, hashable=False, self_cid=None):
    """A type AST; classes referenced have cid < cid_limit."""
    rng, p = w.rng, w.profile
    leaf = depth <= 0 or rng.random() < 0.3
    if hashable:
        r = rng.random()
        cands = [c for c in range(cid_limit) if w.type_hashable(("class", c))] if p.get("class_keys", True) else []
        if cands and r < 0.15:
            return ("class", rng.choice(cands))
        if r < 0.6:
            return ("prim", rng.choice(["int", "str", "str", "bool", "bytes"] + (["float"] if p.get("floats", True) else [])))
        if r < 0.8:
            return ("enum", rng.randrange(len(w.enums)))
        if r < 0.9 and p.get("literals", True):
            return gen_literal(w)
        if r < 0.95 and p.get("newtype", True):
            return ("newtype", rng.randrange(1, 40), ("prim", rng.choice(["int", "str"])))
        cands = [c for c in range(cid_limit) if w.type_hashable(("class", c))]
        if cands and p.get("class_keys", True):
            return ("class", rng.choice(cands))
        return ("prim", "int")
    if leaf and p.get("datetimes") and rng.random() < 0.12:
        return ("time", rng.choice(["datetime", "date"]))
    if leaf:
        r = rng.random()
        if r < 0.5:
            return ("prim", rng.choice(["int", "int", "str", "float", "bool", "bytes"]))
        if r < 0.62:
            return ("enum", rng.randrange(len(w.enums)))
        if r < 0.7 and p.get("literals", True):
            return gen_literal(w)
        if r < 0.8 and p.get("any", True):
            return ("any",)
        if cid_limit > 0:
            return ("class", rng.randrange(cid_limit))
        return ("prim", "int")
    r = rng.random()
    sub = lambda **kw: gen_type(w, depth - 1, cid_limit, **kw)
    if p.get("ext_types") and rng.random() < 0.18:
        kind = rng.choice(["counter", "defaultdict", "deque"])
        if kind == "counter":
            return ("counter", rng.choice([("prim", "str"), ("prim", "int"), ("enum", 1)]), rng.randrange(2))
        if kind == "defaultdict":
            return ("defaultdict", rng.choice([("prim", "str"), ("prim", "int")]), rng.choice([("prim", "int"), ("prim", "str"), ("list", ("prim", "int"), 1)]), rng.randrange(2))
        return ("deque", sub(), rng.randrange(2))
    if r < 0.2:
        return ("list", sub(), rng.randrange(4))
    if r < 0.28:
        return ("tuphom", sub(), rng.randrange(2))
    if r < 0.38:
        if rng.random() < 0.2 and p.get("any", True):
            return ("tuple", [("any",) for _ in range(rng.randint(0, 3))])     # all-Any and empty heterogeneous tuples
        return ("tuple", [sub() for _ in range(rng.randint(1, 3))])
    if r < 0.46:
        return ("set", sub(hashable=True), rng.randrange(3))
    if r < 0.52:
        return ("fset", sub(hashable=True), rng.randrange(2))
    if r < 0.68:
        if rng.random() < 0.15 and p.get("any", True) and not hashable:
            return ("dict", ("any",), ("any",), rng.randrange(9))      # Any / Any, incl. the bare spellings Mapping, MutableMapping, dict
        return ("dict", sub(hashable=True), sub(), rng.randrange(4))
    if r < 0.8:
        inner = sub()
        if inner[0] in ("opt", "any"):
            inner = ("prim", "int")
        return ("opt", inner, rng.randrange(2))
    if r < 0.87 and p.get("newtype", True):
        inner = sub()
        if inner[0] in ("any", "opt", "lit", "annot"):
            inner = ("prim", "str")
        return ("newtype", rng.randrange(1, 40), inner)
    if r < 0.94 and p.get("annotated", True):
        inner = sub()
        if inner[0] in ("annot", "any"):
            inner = ("prim", "int")
        return ("annot", inner)
    if cid_limit > 0:
        return ("class", rng.randrange(cid_limit))
    return ("list", ("prim", "int"), 0)


def gen_literal(w: World):
    rng = w.rng
    pool = [1, 2, "a", "b", True, None, b"a", 0]
    k = rng.randint(1, 3)
    vals = []
    for v in rng.sample(pool, k):
        if not any(v == u and type(v) is type(u) for u in vals):
            vals.append(v)
    return ("lit", vals)


def gen_class(w: World, cid: int) -> ClassSpec:
    rng, p = w.rng, w.profile
    kind = rng.choice(p.get("kinds", ["attrs", "attrs", "frozen", "dataclass"]))
    if rng.random() < p.get("typeddicts", 0.0):
        kind = "td"        # a TypedDict: oracle-only (not in the nested model)
    n = rng.randint(0, p.get("max_fields", 4))
    fields = []
    seen_default_pos = False
    recursive = False
    hash_cls = kind == "frozen" and rng.random() < 0.6
    for i in range(n):
        private = kind not in ("dataclass", "td") and rng.random() < p.get("private", 0.15)
        name = f"_p{i}" if private else f"f{i}"
        alias = name.lstrip("_")
        untyped = kind not in ("dataclass", "td") and rng.random() < p.get("untyped", 0.08)
        t = None if untyped else gen_type(w, p.get("depth", 3), cid)
        if kind == "td" and rng.random() < 0.2:
            t = ("any",)
        if hash_cls:
            t = gen_type(w, 1, cid, hashable=True)      # a frozen class usable as set element / mapping key
        # a recursive reference (attrs only): Optional[Self] or List[Self]
        if kind not in ("dataclass", "td") and not recursive and not hash_cls and rng.random() < p.get("recursive", 0.12):
            t = rng.choice([("opt", ("self", cid)), ("list", ("self", cid), 0), ("dict", ("prim", "str"), ("self", cid), 0)])
            recursive = True
        init = not (rng.random() < p.get("init_false", 0.0)) or kind == "td"
        kw_only = rng.random() < p.get("kw_only", 0.2) and kind != "td"
        has_default = rng.random() < (0.4 if init else 1.0)
        if t is not None and t[0] == "opt" and t[1][0] == "self":
            has_default = True
        if init and not kw_only and not has_default and seen_default_pos:
            if rng.random() < 0.5:
                kw_only = True
            else:
                has_default = True
        if init and not kw_only and has_default:
            seen_default_pos = True
        fields.append(FieldSpec(name, alias, t, NODEFAULT, False, init, kw_only))
        fields[-1]._has_default = has_default
    return ClassSpec(cid, kind, fields, recursive)


def _is_mutable(v):
    import collections
    return isinstance(v, (list, dict, set, collections.deque)) or attrs.has(type(v)) or dataclasses.is_dataclass(v)


def build_class(w: World, spec: ClassSpec):
    name = f"K{spec.cid}"
    # defaults need conforming values of the field types (classes with lower ids exist already)
    for f in spec.fields:
        if getattr(f, "_has_default", False):
            if f.type is not None and f.type[0] == "opt" and f.type[1][0] == "self":
                f.default = None
            elif f.type is not None and f.type[0] == "list" and f.type[1][0] == "self":
                f.default = []
            elif f.type is not None and f.type[0] == "dict" and f.type[2][0] == "self":
                f.default = {}
            else:
                f.default = gen_value(w, f.type if f.type is not None else ("prim", "int"), 2)
            f.factory = _is_mutable(f.default) or w.rng.random() < 0.2
    if spec.kind == "td":
        from typing import NotRequired, Required, TypedDict
        import zlib
        # three spellings of the same required / optional split (derived from the spec, not from the world's random stream):
        # total with NotRequired markers, total=False with Required markers, total with redundant Required markers
        style = zlib.crc32(repr([(f.name, repr(f.default)[:40]) for f in spec.fields]).encode()) % 3
        if style == 1:
            ann = {f.name: (Required[w.to_py(f.type)] if f.default is NODEFAULT else w.to_py(f.type)) for f in spec.fields}
            return TypedDict(name, ann, total=False)
        ann = {f.name: ((Required[w.to_py(f.type)] if style == 2 else w.to_py(f.type)) if f.default is NODEFAULT else NotRequired[w.to_py(f.type)]) for f in spec.fields}
        return TypedDict(name, ann)
    if spec.kind in ("attrs", "frozen"):
        d = {}
        for f in spec.fields:
            kw = {"init": f.init, "kw_only": f.kw_only}
            if f.default is not NODEFAULT:
                if f.factory:
                    import copy
                    if w.rng.random() < 0.3:
                        # a default computed from the instance (attrs.Factory(..., takes_self=True)): same value
                        kw["default"] = attrs.Factory((lambda self, v=f.default: copy.deepcopy(v)), takes_self=True)
                    else:
                        kw["factory"] = (lambda v=f.default: copy.deepcopy(v))
                else:
                    kw["default"] = f.default
            if f.type is not None:
                kw["type"] = w.to_py(f.type)
            d[f.name] = attrs.field(**kw)
        cl = attrs.make_class(name, d, frozen=(spec.kind == "frozen"))
        if spec.recursive:
            attrs.resolve_types(cl, {name: cl, **{c.__name__: c for c in w.pycls}}, {name: cl})
        return cl
    fl = []
    for f in spec.fields:
        kw = {"init": f.init, "kw_only": f.kw_only}
        if f.default is not NODEFAULT:
            if f.factory:
                import copy
                kw["default_factory"] = (lambda v=f.default: copy.deepcopy(v))
            else:
                kw["default"] = f.default
        fl.append((f.name, w.to_py(f.type), dataclasses.field(**kw)))
    return dataclasses.make_dataclass(name, fl)


def gen_atom(w: World, prim: str):
    rng = w.rng
    if prim == "int":
        return rng.choice(INT_POOL)
    if prim == "float":
        return rng.choice(FLOAT_POOL)
    if prim == "str":
        return rng.choice(STR_POOL)
    if prim == "bytes":
        return rng.choice(BYTES_POOL)
    return rng.choice([True, False])


def gen_value(w: World, t, depth: int):
    """A conforming value of type t (exact classes everywhere)."""
    rng = w.rng
    k = t[0]
    size = lambda: rng.randint(0, 3) if depth > 0 else rng.randint(0, 1)
    if k == "any":
        r = rng.random()
        if w.profile.get("any_structured", False) and r < 0.3 and w.pycls and depth > 0:
            cid = rng.randrange(len(w.pycls))
            return gen_value(w, ("class", cid), depth - 1)
        if r < 0.5:
            return rng.choice([None, 1, "a", 2.5, True, b"a"])
        if r < 0.7:
            return [rng.choice([1, "a", None]) for _ in range(size())]
        if r < 0.85:
            return {rng.choice(["k", "j", 1]): rng.choice([1, "a", None]) for _ in range(size())}
        return rng.choice([(1, "a"), (), {1, 2}, frozenset(["a"])]) if w.profile.get("any_tuples", True) else 5
    if k == "prim":
        return gen_atom(w, t[1])
    if k == "time":
        import datetime as _dt
        if t[1] == "datetime":
            return _dt.datetime(2020 + rng.randrange(5), rng.randrange(1, 13), rng.randrange(1, 28), rng.randrange(24), rng.randrange(60), rng.randrange(60))
        return _dt.date(2020 + rng.randrange(5), rng.randrange(1, 13), rng.randrange(1, 28))
    if k == "enum":
        return rng.choice(list(w.enums[t[1]]))
    if k == "lit":
        return rng.choice(t[1])
    if k == "list":
        return [gen_value(w, t[1], depth - 1) for _ in range(size())]
    if k == "tuphom":
        return tuple(gen_value(w, t[1], depth - 1) for _ in range(size()))
    if k == "tuple":
        return tuple(gen_value(w, x, depth - 1) for x in t[1])
    if k in ("set", "fset"):
        vals = []
        for _ in range(size()):
            v = gen_value(w, t[1], depth - 1) if t[1][0] != "any" else rng.choice(["k", "a", 1, 2, None, 1.5])     # Any elements: hashable atoms
            if not any(v == u for u in vals):
                vals.append(v)
        return set(vals) if k == "set" else frozenset(vals)
    if k == "dict":
        d = {}
        for _ in range(size()):
            kk = gen_value(w, t[1], depth - 1) if t[1][0] != "any" else rng.choice(["k", "a", 1, 2, None, 1.5])     # Any keys: hashable atoms
            if kk not in d:
                d[kk] = gen_value(w, t[2], depth - 1)
        return d
    if k == "counter":
        import collections
        c = collections.Counter()
        for _ in range(size()):
            c[gen_value(w, t[1], depth - 1)] += rng.randint(1, 3)
        return c
    if k == "defaultdict":
        import collections
        fac = {"int": int, "str": str}.get(t[2][1], list) if t[2][0] == "prim" else list
        d = collections.defaultdict(fac)
        for _ in range(size()):
            d[gen_value(w, t[1], depth - 1)] = gen_value(w, t[2], depth - 1)
        return d
    if k == "deque":
        import collections
        return collections.deque(gen_value(w, t[1], depth - 1) for _ in range(size()))
    if k == "opt":
        return None if rng.random() < 0.3 else gen_value(w, t[1], depth)
    if k in ("class", "self"):
        return gen_instance(w, t[1], depth)
    if k in ("newtype",):
        return gen_value(w, t[2], depth)
    if k == "annot":
        return gen_value(w, t[1], depth)
    raise ValueError(t)


def gen_instance(w: World, cid: int, depth: int):
    spec, cl = w.specs[cid], w.pycls[cid]
    if spec.kind == "td":
        d = {}
        for f in spec.fields:
            if f.default is not NODEFAULT and w.rng.random() < 0.4:
                continue
            d[f.name] = gen_value(w, f.type, depth - 1)
        return d
    kwargs = {}
    for f in spec.fields:
        if not f.init:
            continue
        if f.default is not NODEFAULT and (w.rng.random() < 0.4 or depth <= 0):
            continue
        if f.type is None:
            kwargs[f.alias] = w.rng.choice([1, "a", None, 2.5])
        elif depth <= 0 and f.type[0] in ("list", "dict") and f.type[-2 if f.type[0] == "dict" else 1][0] == "self":
            kwargs[f.alias] = [] if f.type[0] == "list" else {}
        else:
            kwargs[f.alias] = gen_value(w, f.type, depth - 1)
    return cl(**kwargs)


# ------------------------------------------------------------------------------------ payloads

def nodes(o, acc):
    """Every object reachable through the containers of a payload."""
    acc.append(o)
    if type(o) in (str, bytes) and len(o) > 1:
        for x in o:          # what iterating the atom yields is looked at by the hooks as well
            nodes(x, acc)
    elif type(o) is bytes and len(o) == 1:
        acc.append(o[0])
    if type(o) in (list, tuple, set, frozenset):
        for x in o:
            nodes(x, acc)
    elif type(o) is dict:
        for k, v in o.items():
            nodes(k, acc)
            nodes(v, acc)
    return acc


JUNK = [None, 0, 1, -1, 2.5, "", "a", "f0", "ab", b"a", True, False, [], [1], [1, 2, 3], (), (1, "a"), {}, {"a": 1}, {1: 2}, [[1]], {"f0": None},
        ["f0", "f1"], "f0f1", {1, 2}, frozenset(["a"]), [("a", 1)], 10 ** 20, "1", "1.5", b"1", [None], {"k": [1]}]


def mutate(rng: random.Random, o, depth=0):
    """One random corruption somewhere inside a payload."""
    def pick_junk():
        return rng.choice(JUNK)
    if type(o) is dict and o and rng.random() < 0.75:
        keys = list(o)
        k = rng.choice(keys)
        r = rng.random()
        d = dict(o)
        if r < 0.2:
            del d[k]
            return d
        if r < 0.3:
            d[rng.choice(["extra", "zz", 5, None])] = pick_junk()
            return d
        if r < 0.4:
            d[k] = pick_junk()
            return d
        d[k] = mutate(rng, o[k], depth + 1)
        return d
    if type(o) in (list, tuple) and o and rng.random() < 0.75:
        l = list(o)
        i = rng.randrange(len(l))
        r = rng.random()
        if r < 0.15:
            del l[i]
        elif r < 0.3:
            l.insert(i, pick_junk())
        elif r < 0.45:
            l[i] = pick_junk()
        else:
            l[i] = mutate(rng, l[i], depth + 1)
        return type(o)(l) if rng.random() < 0.8 else (tuple(l) if type(o) is list else l)
    if type(o) in (set, frozenset) and o and rng.random() < 0.6:
        l = list(o)
        l[rng.randrange(len(l))] = rng.choice([None, 1, "a", (1,), 2.5, "zz"])
        try:
            return type(o)(l)
        except TypeError:
            return l
    r = rng.random()
    if r < 0.5:
        return pick_junk()
    if type(o) is dict:
        d = dict(o)
        d[rng.choice(["extra", "zz", 5])] = pick_junk()
        return d
    if type(o) is list:
        return tuple(o) if rng.random() < 0.5 else o + [pick_junk()]
    if type(o) is int and not isinstance(o, bool):
        return rng.choice([str(o), float(o), o + 100, None, [o]])
    if type(o) is str:
        return rng.choice([o + "!", 5, None, [o], o.encode()])
    return pick_junk()


# ------------------------------------------------------------------------------------ real library

CFGS = [(full, dv, strat) for full in (True, False) for dv in (True, False) for strat in ("dict", "tuple")]


def make_converter(full: bool, dv: bool, strat: str, forbid=False):
    s = UnstructureStrategy.AS_DICT if strat == "dict" else UnstructureStrategy.AS_TUPLE
    if full:
        return Converter(detailed_validation=dv, unstruct_strat=s, forbid_extra_keys=forbid)
    return BaseConverter(detailed_validation=dv, unstruct_strat=s)


def ccfg(full, dv, strat, forbid, flags):
    b = lambda x: "true" if x else "false"
    return ("{| c_gen := %s; c_dv := %s; c_tuple := %s; c_forbid := %s; c_recheck := %s; c_kw_last := %s; c_tuple_kw := %s |}"
            % (b(full), b(dv), b(strat == "tuple"), b(forbid and full), b(flags.get("recheck", True)), b(flags.get("kw_last", True)), b(flags.get("tuple_kw", False))))


def xclass(e):
    if isinstance(e, ForbiddenExtraKeysError):
        return "KForbidden"
    if isinstance(e, ClassValidationError):
        return "KClassVal"
    if isinstance(e, IterableValidationError):
        return "KIterVal"
    if isinstance(e, StructureHandlerNotFoundError):
        return "KNotFound"
    return "KOther"


ERRK = [(KeyError, "EKey"), (TypeError, "EType"), (ValueError, "EValue"), (AttributeError, "EAttr")]


def errk(e):
    for k, v in ERRK:
        if isinstance(e, k):
            return v
    return "EOther"


def prims_of(w: World, t, acc, seen):
    k = t[0]
    if k == "prim":
        acc.add(t[1])
    elif k in ("list", "tuphom", "set", "fset", "opt", "annot", "counter", "deque"):
        prims_of(w, t[1], acc, seen)
    elif k == "defaultdict":
        prims_of(w, t[1], acc, seen)
        prims_of(w, t[2], acc, seen)
    elif k == "newtype":
        prims_of(w, t[2], acc, seen)
    elif k == "tuple":
        for x in t[1]:
            prims_of(w, x, acc, seen)
    elif k == "dict":
        prims_of(w, t[1], acc, seen)
        prims_of(w, t[2], acc, seen)
    elif k in ("class", "self"):
        if t[1] not in seen:
            seen.add(t[1])
            for f in w.specs[t[1]].fields:
                if f.type is not None:
                    prims_of(w, f.type, acc, seen)
    return acc


class Tables:
    """The oracle tables of one world, filled in as payloads are encoded."""

    def __init__(self, w: World):
        self.w = w
        self.coerce = {}
        self.ins = {}
        self.iters = {}
        self.lens = {}
        self.names = sorted({f.name for s in w.specs for f in s.fields})

    def add_payload(self, o, prims, with_classes):
        w = self.w
        for x in nodes(o, []):
            try:
                cx = w.cval(x)
            except Unencodable:
                raise
            for p in prims:
                key = (p, cx)
                if key in self.coerce:
                    continue
                try:
                    r = self.construct(p, x)
                    if type(r) is not PRIM_CLS[p]:
                        raise Unencodable("constructor returned a subclass")
                    self.coerce[key] = f"(Ok {w.cval(r)})"
                except Unencodable:
                    raise
                except Exception as e:
                    self.coerce[key] = f"(Err {errk(e)})"
            if type(x) in CLS_PRIM:
                if with_classes:
                    for nm in self.names:
                        key = (cx, w.intern(nm))
                        if key not in self.ins:
                            try:
                                self.ins[key] = f"(Ok {'true' if nm in x else 'false'})"
                            except Exception as e:
                                self.ins[key] = f"(Err {errk(e)})"
                if cx not in self.iters:
                    try:
                        it = list(iter(x))
                        self.iters[cx] = "(Ok [" + "; ".join(w.cval(y) for y in it) + "])"
                    except Exception as e:
                        self.iters[cx] = f"(Err {errk(e)})"
                    try:
                        self.lens[cx] = f"(Ok {len(x)}%nat)"
                    except Exception as e:
                        self.lens[cx] = f"(Err {errk(e)})"

    def construct(self, p, x):
        """what the converter's structure hook for the primitive class p does with x (the plain converters: the constructor)"""
        return PRIM_CLS[p](x)

    def coq_env(self, name):
        return f"Definition {name} : env := {self.env_term()}.\n"

    def env_term(self):
        w = self.w
        co = "[" + ";\n   ".join(f"({PRIM_COQ[p]}, {cx}, {r})" for (p, cx), r in self.coerce.items()) + "]"
        ins = "[" + "; ".join(f"({cx}, {k}%N, {r})" for (cx, k), r in self.ins.items()) + "]"
        its = "[" + "; ".join(f"({cx}, {r})" for cx, r in self.iters.items()) + "]"
        lens = "[" + "; ".join(f"({cx}, {r})" for cx, r in self.lens.items()) + "]"
        return f"(mk_env\n  {w.cclasses()}\n  {w.cenums()}\n  {co}\n  {ins}\n  {its}\n  {lens})"


def run_structure(conv, w: World, o, t):
    try:
        r = conv.structure(o, w.to_py(t))
    except Exception as e:      # (a RecursionError included: values are shallow, so it is the library's own -- an outcome like any other error)
        return ("err", xclass(e), e)
    return ("ok", r, None)


def run_unstructure(conv, w: World, x, t):
    try:
        r = conv.unstructure(x, unstructure_as=w.to_py(t))
    except Exception as e:
        return ("err", xclass(e), e)
    return ("ok", r, None)


def cout(w: World, res):
    if res[0] == "ok":
        return f"(COk {w.cval(res[1])})"
    return f"(CErr {res[1]})"


def has_class(w: World, t, seen=None):
    k = t[0]
    if k in ("class", "self"):
        return True
    if k in ("list", "tuphom", "set", "fset", "opt", "annot", "counter", "deque"):
        return has_class(w, t[1])
    if k == "defaultdict":
        return has_class(w, t[1]) or has_class(w, t[2])
    if k == "newtype":
        return has_class(w, t[2])
    if k == "tuple":
        return any(has_class(w, x) for x in t[1])
    if k == "dict":
        return has_class(w, t[1]) or has_class(w, t[2])
    return False


def type_depth(t):
    k = t[0]
    if k in ("list", "tuphom", "set", "fset", "opt", "annot", "counter", "deque"):
        return 1 + type_depth(t[1])
    if k == "defaultdict":
        return 1 + max(type_depth(t[1]), type_depth(t[2]))
    if k == "newtype":
        return 1 + type_depth(t[2])
    if k == "tuple":
        return 1 + max([type_depth(x) for x in t[1]] + [0])
    if k == "dict":
        return 1 + max(type_depth(t[1]), type_depth(t[2]))
    return 0


def type_kinds(w, t, acc, seen=None):
    seen = set() if seen is None else seen
    acc[t[0]] = acc.get(t[0], 0) + 1
    k = t[0]
    if k in ("list", "tuphom", "set", "fset", "opt", "annot", "counter", "deque"):
        type_kinds(w, t[1], acc, seen)
    elif k == "defaultdict":
        type_kinds(w, t[1], acc, seen)
        type_kinds(w, t[2], acc, seen)
    elif k == "newtype":
        type_kinds(w, t[2], acc, seen)
    elif k == "tuple":
        for x in t[1]:
            type_kinds(w, x, acc, seen)
    elif k == "dict":
        type_kinds(w, t[1], acc, seen)
        type_kinds(w, t[2], acc, seen)
    elif k in ("class", "self") and t[1] not in seen:
        seen.add(t[1])
        for f in w.specs[t[1]].fields:
            if f.type is not None:
                type_kinds(w, f.type, acc, seen)
    return acc


def grid_types(w: World):
    """A deterministic grid of type expressions of depth <= 2: every outer constructor (in every spelling) around every inner
    type -- every leaf kind, every class of the world, and every container of Any elements in every spelling INCLUDING the bare
    ones (`list`, `typing.Dict`, `collections.abc.Mapping`, ...).  Pairwise interactions of constructors are thereby exercised on
    every run, whatever the seed."""
    any_ = ("any",)
    leaves = [any_, ("prim", "int"), ("prim", "str"), ("prim", "bytes"), ("prim", "bool"), ("prim", "float"), ("enum", 0), ("enum", 1),
              ("lit", [1, "a"]), ("lit", [None, True])] + [("class", c) for c in range(len(w.specs))]
    bare = [("list", any_, sp) for sp in range(8)] + [("tuphom", any_, sp) for sp in range(4)] + [("set", any_, sp) for sp in range(6)] + \
           [("fset", any_, sp) for sp in range(4)] + [("dict", any_, any_, sp) for sp in range(9)] + [("tuple", [any_, any_]), ("tuple", [])]
    inners = leaves + bare
    hashable = lambda t: w.type_hashable(t)
    out = []
    for inner in inners:
        out.append(inner)
        for sp in range(4):
            out.append(("list", inner, sp))
        for sp in range(2):
            out.append(("tuphom", inner, sp))
        out.append(("tuple", [inner, ("prim", "int")]))
        out.append(("tuple", [inner]))
        if inner[0] != "any" and hashable(inner):
            for sp in range(3):
                out.append(("set", inner, sp))
            for sp in range(2):
                out.append(("fset", inner, sp))
            out.append(("dict", inner, ("prim", "int"), 0))
        for sp in range(4):
            out.append(("dict", ("prim", "str"), inner, sp))
        if inner[0] not in ("opt", "any"):
            out.append(("opt", inner))
            out.append(("opt", inner, 1))
        if inner[0] not in ("any", "opt", "lit", "annot"):
            out.append(("newtype", 30 + len(out) % 9, inner))
        if inner[0] not in ("annot", "any"):
            out.append(("annot", inner))
    return out
