"""PRE lane (C16): the preconfigured converters whose serialisation library is importable here
(json, pyyaml, msgspec): dumps never fails on supported values, loads(dumps(x, T), T) == x, user hooks are
honoured for attrs classes and dataclasses alike.  The JSON converter is also compared with the model
(Model/Preconf.v: the library's data model and the converter's post-processing of the unstructured form)."""
import dataclasses
import importlib
import copy
import random
import re

import attrs
from typing import Dict, List, Optional, Union

import lane_conv as L
from common import Verdict, parse_coq_value, run_cases_file
from conv_checks import P_SUPPORTED, deep_same, describe_class
from lane_conv import Unencodable, World

FORMATS = {}
ABSENT = []
for name in ("json", "pyyaml", "msgspec", "bson", "orjson", "ujson", "msgpack", "cbor2", "tomlkit"):
    try:
        FORMATS[name] = importlib.import_module(f"cattrs.preconf.{name}")
    except Exception as e:     # the library is not installed (or, for bson, is not pymongo's)
        ABSENT.append(f"{name}: {type(e).__name__}")


def fmt_supports(fmt, w: World, t, top=True, in_key=False):
    """Inside the documented limits of the format?"""
    k = t[0]
    if k == "any":
        return False                      # Any positions are encoded by runtime class and cannot be typed back
    if k == "prim":
        if in_key and t[1] in ("float", "bytes") and fmt in ("json", "msgspec"):
            return False                  # JSON object keys: strings (ints / bools are converted back by their constructors)
        if in_key and t[1] == "bool":
            return False                  # bool("false") is True: finding F19, documented limit of text keys
        return True
    if k == "time":
        return not in_key
    if k == "enum":
        # as a mapping key in a text format an enum comes back as the text of its value: only str-valued enums survive
        return not in_key or fmt == "pyyaml" or all(type(m.value) is str for m in w.enums[t[1]])
    if k == "lit":
        if any(type(v) is bytes for v in t[1]) and fmt != "pyyaml":
            return False                  # a bytes literal is compared with the raw text the format carries: outside the formats' limits
        return not in_key or all(type(v) is str for v in t[1])
    if k in ("list", "tuphom"):
        return not in_key and fmt_supports(fmt, w, t[1], False)
    if k == "tuple":
        return not in_key and all(fmt_supports(fmt, w, x, False) for x in t[1])
    if k in ("set", "fset"):
        return not in_key and fmt_supports(fmt, w, t[1], False) and t[1][0] != "class"
    if k == "dict":
        if t[1][0] in ("class", "self"):
            return False
        return not in_key and fmt_supports(fmt, w, t[1], False, True) and fmt_supports(fmt, w, t[2], False)
    if k == "opt":
        return fmt_supports(fmt, w, t[1], False, in_key) and not in_key
    if k in ("class", "self"):
        if in_key:
            return False
        if k == "self":
            return True
        return all(f.type is not None and f.init and fmt_supports(fmt, w, f.type, False) for f in w.specs[t[1]].fields)
    if k == "newtype":
        return fmt_supports(fmt, w, t[2], False, in_key)
    if k == "annot":
        return fmt_supports(fmt, w, t[1], False, in_key)
    return False


def has_enum_key(w: World, t, seen=None, conv=None):
    """an enum-keyed mapping position; with `conv` (finding F30's exact shape): one whose VALUES need a hook of their own,
    so that the msgspec converter generates a mapping hook which leaves the enum members in place as keys.  (When keys and
    values both pass through, the whole mapping is handed to msgspec.to_builtins, which converts enum keys: no finding.)"""
    seen = set() if seen is None else seen
    k = t[0]
    if k == "dict":
        kt = t[1]
        while kt[0] in ("newtype", "annot"):
            kt = kt[2] if kt[0] == "newtype" else kt[1]
        if kt[0] == "enum":
            if conv is None:
                return True
            from cattrs.fns import identity
            from msgspec import to_builtins
            try:
                if conv.get_unstructure_hook(w.to_py(t[2])) not in (identity, to_builtins):
                    return True
            except Exception:
                return True
        return has_enum_key(w, t[2], seen, conv)
    if k in ("list", "tuphom", "set", "fset", "opt", "annot"):
        return has_enum_key(w, t[1], seen, conv)
    if k == "newtype":
        return has_enum_key(w, t[2], seen, conv)
    if k == "tuple":
        return any(has_enum_key(w, x, seen, conv) for x in t[1])
    if k in ("class", "self"):
        if t[1] in seen:
            return False
        seen.add(t[1])
        return any(f.type is not None and has_enum_key(w, f.type, seen, conv) for f in w.specs[t[1]].fields)
    return False


def check_c16(v: Verdict, n_worlds: int, flags=None):
    rng = random.Random(v.seed * 7919 + 1616)
    hist = {"formats": sorted(FORMATS), "not_present": ABSENT, "worlds": 0, "round_trips": {f: 0 for f in FORMATS}, "skipped_outside_limits": 0,
            "user_hook_checks": 0, "kinds": {}, "f19_hits": 0, "f28_hits": 0}
    profile = dict(P_SUPPORTED, any=False, untyped=0.0, datetimes=True, kinds=["attrs", "attrs", "frozen", "dataclass", "dataclass"], class_keys=False)
    cases, meta = [], []
    for wi in range(n_worlds):
        w = L.gen_world(rng, profile)
        hist["worlds"] += 1
        convs = {f: m.make_converter() for f, m in FORMATS.items()}
        # the same converters built with user options on top of the format's own defaults (they must be merged, not replaced)
        for f, m in FORMATS.items():
            kw = rng.choice([{"unstruct_collection_overrides": {}}, {"unstruct_collection_overrides": {tuple: list}}, {"detailed_validation": False},
                             {"unstruct_collection_overrides": {list: list}, "forbid_extra_keys": True}])
            try:
                convs[f + "+options"] = m.make_converter(**kw)
            except Exception:
                pass
        # four random types, then two enum-keyed mappings whose values pass through (the formats' own encoders see the keys)
        targeted = []
        for ei, e in enumerate(w.enums):
            if all(type(m.value) is str for m in e):
                d = ("dict", ("enum", ei), ("prim", rng.choice(["int", "str", "float"])), 0)
                targeted += [d, rng.choice([("list", d, 0), ("opt", d), ("dict", ("prim", "str"), d, 0)])]
        for ti in range(4 + min(2, len(targeted))):
            if ti >= 4:
                t = targeted[ti - 4]
            else:
                t = ("class", rng.randrange(len(w.pycls))) if rng.random() < 0.6 else L.gen_type(w, 3, len(w.pycls))
            L.type_kinds(w, t, hist["kinds"])
            for _ in range(2):
                try:
                    x = L.gen_value(w, t, 3)
                except RecursionError:
                    continue
                for fname, conv in convs.items():
                    f = fname.split("+")[0]
                    if not fmt_supports(f, w, t):
                        hist["skipped_outside_limits"] += 1
                        continue
                    desc = {"lane": "PRE/C16", "format": fname, "type": repr(w.to_py(t)), "classes": [describe_class(w, s) for s in w.specs], "value": repr(x)[:500]}
                    v.count(repr((wi, fname, desc["type"], desc["value"])), L.type_depth(t) >= 1 or L.has_class(w, t))
                    hist["round_trips"][f] += 1
                    try:
                        data = conv.dumps(x, unstructure_as=w.to_py(t))
                    except RecursionError as e:
                        if f == "msgspec" and L.has_class(w, t) and any(s.recursive for s in w.specs):
                            hist["f29_hits"] = hist.get("f29_hits", 0) + 1
                            v.finding("F29", "msgspec converter: creating the unstructure hook of a self-referential class recurses without bound", {**desc, "raised": repr(e)[:200]})
                        else:
                            v.violation("dumps failed on a supported value", {**desc, "raised": repr(e)[:300]})
                        continue
                    except Exception as e:
                        if f == "msgspec" and "str-like or number-like keys" in str(e) and has_enum_key(w, t, None, conv):
                            hist["f30_hits"] = hist.get("f30_hits", 0) + 1
                            v.finding("F30", "msgspec converter: enum members left as mapping keys", {**desc, "raised": repr(e)[:200]})
                        else:
                            v.violation("dumps failed on a supported value", {**desc, "raised": repr(e)[:300]})
                        continue
                    try:
                        y = conv.loads(data, w.to_py(t))
                    except Exception as e:
                        v.violation("loads rejected what dumps produced", {**desc, "dumped": repr(data)[:400], "raised": repr(e)[:300]})
                        continue
                    if not deep_same(y, x):
                        v.violation("loads(dumps(x, T), T) differs from x", {**desc, "dumped": repr(data)[:400], "loaded": repr(y)[:400]})
                        continue
                    if fname == "json":
                        add_json_case(w, conv, t, x, cases, meta, desc, flags)
                    if fname == "pyyaml":
                        add_yaml_case(w, conv, t, x, cases, meta, desc, flags)
        user_hooks(v, rng, w, hist)
    quoted_annotations(v, hist)
    bytes_union_battery(v, hist)
    namedtuple_battery(v, rng, hist, max(12, 2 * n_worlds))
    run_json_model(v, cases, meta)
    v.coverage["input_distribution"] = hist


# ------------------------------------------------------------------ user hooks, attrs classes and dataclasses alike

# classes with MIXED annotations: a quoted forward reference next to real annotations (module level: resolvable by name)
@attrs.define
class QLeaf:
    a: int = 0
    _secret: int = 1


@attrs.define
class QHolder:
    n: int
    leaf: "QLeaf"


@dataclasses.dataclass
class QDHolder:
    n: int
    leaf: "QLeaf"


def namedtuple_battery(v, rng, hist, n):
    """typed NamedTuples (1-4 fields of pass-through and non-pass-through leaf types, with and without defaults) at top level, in a
    list, in a mapping and as the attribute of an attrs class / a dataclass, through every format: dumps never fails and
    loads(dumps(x, T), T) == x (a NamedTuple again)"""
    import collections
    from typing import Dict, List, NamedTuple, Optional
    LEAF = [(int, [0, 3, -7]), (float, [0.0, 2.5]), (bool, [True, False]), (str, ["", "ab"]), (Optional[int], [None, 4]), (List[int], [[], [1, 2]])]
    PASS = LEAF[:3]
    hist["namedtuple_checks"] = 0
    hist["namedtuple_all_passthrough"] = 0
    for i in range(n):
        k = rng.randint(1, 4)
        all_pass = rng.random() < 0.5               # every field a type the format's own encoder takes as it is
        hist["namedtuple_all_passthrough"] += all_pass
        fields = [(f"f{j}",) + rng.choice(PASS if all_pass else LEAF) for j in range(k)]
        NTc = NamedTuple(f"PNT{i}", [(n_, ty) for n_, ty, _vals in fields])
        HolderA = attrs.make_class(f"PHA{i}", {"p": attrs.field(type=NTc), "n": attrs.field(type=int, default=1)})
        HolderD = dataclasses.make_dataclass(f"PHD{i}", [("p", NTc), ("n", int, dataclasses.field(default=1))])
        x0 = NTc(*[copy.deepcopy(rng.choice(vals)) for _n, _ty, vals in fields])
        x1 = NTc(*[copy.deepcopy(rng.choice(vals)) for _n, _ty, vals in fields])
        positions = [("top level", NTc, x0), ("List[NT]", List[NTc], [x0, x1]), ("Dict[str, NT]", Dict[str, NTc], {"a": x0}),
                     ("attrs attribute", HolderA, HolderA(x0, 2)), ("dataclass attribute", HolderD, HolderD(x1, 3))]
        for f, m in FORMATS.items():
            conv = m.make_converter()
            for label, T, x in positions:
                hist["namedtuple_checks"] += 1
                desc = {"lane": "PRE/C16", "format": f, "position": label, "namedtuple_fields": [(n_, str(ty)) for n_, ty, _v in fields], "value": repr(x)}
                v.count(repr(("namedtuple", f, label, desc["namedtuple_fields"], repr(x))), True)
                try:
                    data = conv.dumps(x, unstructure_as=T)
                except Exception as e:
                    v.violation("dumps failed for a NamedTuple value", {**desc, "raised": repr(e)[:300]})
                    continue
                try:
                    y = conv.loads(data, T)
                except Exception as e:
                    v.violation("loads failed on what dumps produced for a NamedTuple value", {**desc, "dumped": repr(data)[:300], "raised": repr(e)[:300]})
                    continue
                if not deep_same(y, x):
                    v.violation("loads(dumps(x, T), T) differs from x (NamedTuple)", {**desc, "dumped": repr(data)[:300], "loaded": repr(y)[:300]})


@attrs.define
class UBHolder:
    u: Union[int, bytes]
    l: List[Union[bytes, float]] = attrs.Factory(list)
    o: Union[bytes, int, None] = None


@dataclasses.dataclass
class UBData:
    u: Union[float, bytes]
    m: Dict[str, Union[int, bytes]] = dataclasses.field(default_factory=dict)


def bytes_union_battery(v, hist):
    """systematic: unions of bytes with the non-str primitives (and None) -- the formats that have no native bytes override the bytes
    hooks, and a union position dispatches on the runtime class of the value -- at top level, in List / Dict and as attributes of an
    attrs class and a dataclass, through every importable format: dumps never fails, loads(dumps(x)) == x.  (str | bytes is ambiguous
    in the text formats and outside their limits.)"""
    cases = [(Union[int, bytes], [b"x", b"", 3, 0]), (Union[bytes, int, None], [b"yy", None, 0]), (Union[float, bytes], [b"\x00\xff", 1.5]),
             (List[Union[bytes, float]], [[b"a", 1.5, b""], []]), (Dict[str, Union[int, bytes]], [{"k": b"v", "j": 2}]),
             (Optional[Union[int, bytes]], [b"z", None, 4]),
             (UBHolder, [UBHolder(b"q", [b"", 2.5], b"o"), UBHolder(7), UBHolder(b"", [], 0)]), (UBData, [UBData(b"d", {"k": b"", "j": 1}), UBData(2.5)]),
             (List[UBHolder], [[UBHolder(b"1"), UBHolder(2, [b"3"])]])]
    n = 0
    for fname, m in FORMATS.items():
        conv = m.make_converter()
        for T, vals in cases:
            for x in vals:
                n += 1
                desc = {"lane": "PRE/C16 bytes in unions", "format": fname, "type": repr(T), "value": repr(x)}
                v.count(repr(desc), True)
                try:
                    data = conv.dumps(copy.deepcopy(x), unstructure_as=T)
                except Exception as e:
                    v.violation("dumps failed on a supported value (bytes at a union position)", {**desc, "raised": repr(e)[:300]})
                    continue
                try:
                    y = conv.loads(data, T)
                except Exception as e:
                    v.violation("loads rejected what dumps produced (bytes at a union position)", {**desc, "dumped": repr(data)[:300], "raised": repr(e)[:300]})
                    continue
                if not deep_same(y, x):
                    v.violation("loads(dumps(x, T), T) differs from x (bytes at a union position)", {**desc, "dumped": repr(data)[:300], "loaded": repr(y)[:300]})
    hist["bytes_union_cases"] = n


def quoted_annotations(v, hist):
    """a class one of whose annotations is a quoted forward reference (the others are real): round trip of a value whose quoted
    attribute holds a class with a private attribute, and a user hook registered for that class, through every format"""
    for f, m in FORMATS.items():
        for holder, T in (("attrs class", QHolder), ("dataclass", QDHolder)):
            for hooked in (False, True):
                conv = m.make_converter()
                if hooked:
                    conv.register_unstructure_hook(QLeaf, lambda v_: {"A!": v_.a, "S!": v_._secret})
                    conv.register_structure_hook(QLeaf, lambda d, _: QLeaf(d["A!"], d["S!"]))
                x = T(4, QLeaf(2, 9))
                hist["quoted_annotation_checks"] = hist.get("quoted_annotation_checks", 0) + 1
                desc = {"lane": "PRE/C16", "format": f, "holder": f"{holder} with a quoted annotation `leaf: \"QLeaf\"` next to `n: int`",
                        "user_hook_for_QLeaf": hooked, "value": repr(x)}
                v.count(repr(("quoted", f, holder, hooked)), True)
                try:
                    data = conv.dumps(x, unstructure_as=T)
                    text = data.decode() if isinstance(data, bytes) else data
                    y = conv.loads(data, T)
                except Exception as e:
                    v.violation("round trip failed for a class with a quoted annotation", {**desc, "raised": repr(e)[:300]})
                    continue
                if hooked and "A!" not in text:
                    v.violation("the user's unstructure hook was not used below a quoted annotation", {**desc, "dumped": text[:300]})
                elif not deep_same(y, x):
                    v.violation("loads(dumps(x, T), T) differs from x (class with a quoted annotation)", {**desc, "dumped": text[:300], "loaded": repr(y)[:300]})


def user_hooks(v, rng, w: World, hist):
    """A hook registered for a class must be used wherever values of that class are un/structured:
    at top level, inside a list, inside an attrs class and inside a dataclass."""
    for kind in ("attrs", "dataclass"):
        if kind == "attrs":
            @attrs.define
            class Leaf:
                a: int = 0
        else:
            @dataclasses.dataclass
            class Leaf:
                a: int = 0

        @attrs.define
        class InAttrs:
            leaf: Leaf
            n: int = 1

        @dataclasses.dataclass
        class InDataclass:
            leaf: Leaf
            n: int = 1
        for f, m in FORMATS.items():
            conv = m.make_converter()
            conv.register_unstructure_hook(Leaf, lambda v_: {"A!": v_.a})
            conv.register_structure_hook(Leaf, lambda d, _: Leaf(d["A!"]))
            for holder, mk in (("top level", lambda: Leaf(3)), ("list", lambda: [Leaf(3)]), ("attrs class", lambda: InAttrs(Leaf(3))),
                               ("dataclass", lambda: InDataclass(Leaf(3)))):
                hist["user_hook_checks"] += 1
                x = mk()
                T = {"top level": Leaf, "list": list[Leaf], "attrs class": InAttrs, "dataclass": InDataclass}[holder]
                desc = {"lane": "PRE/C16", "format": f, "hooked_class": f"{kind} class Leaf", "position": holder}
                v.count(repr(("hook", f, kind, holder)), True)
                try:
                    data = conv.dumps(x, unstructure_as=T)
                    text = data.decode() if isinstance(data, bytes) else data
                    y = conv.loads(data, T)
                except Exception as e:
                    if f == "msgspec" and holder == "dataclass":
                        hist["f28_hits"] += 1
                        v.finding("F28", "msgspec converter: the user's unstructure hook is bypassed for a value held by a dataclass", {**desc, "raised": repr(e)[:300]})
                    else:
                        v.violation("a converter with user hooks failed", {**desc, "raised": repr(e)[:300]})
                    continue
                if "A!" not in text:
                    rp = {**desc, "dumped": text[:300]}
                    if f == "msgspec" and holder == "dataclass":
                        hist["f28_hits"] += 1
                        v.finding("F28", "msgspec converter: the user's unstructure hook is bypassed for a value held by a dataclass", rp)
                    else:
                        v.violation("the user's unstructure hook was not used", rp)
                elif not deep_same(y, x):
                    v.violation("round trip through user hooks differs", {**desc, "dumped": text[:300], "loaded": repr(y)[:300]})


# ------------------------------------------------------------------ JSON converter against the model

class JsonTables(L.Tables):
    """oracle tables of the JSON converter's structure side: the bytes hook is its own (base85 decoder), the others the constructors"""

    def __init__(self, w, conv):
        super().__init__(w)
        self.conv = conv

    def construct(self, p, x):
        if p == "bytes":
            return self.conv.structure(x, bytes)
        return L.PRIM_CLS[p](x)


def add_json_case(w: World, conv, t, x, cases, meta, desc, flags=None):
    """plain unstructured form (a fresh Converter) -> model jsonify + json_rt must equal the real json converter's
    unstructured form, and what json.loads(json.dumps(.)) makes of it; and the model's structure side (Conv.structure with
    the converter's own bytes hook as the bytes entry of the environment) applied to that must give x back, as the real loads did"""
    import json
    from cattrs import Converter
    try:
        plain = Converter().unstructure(x, unstructure_as=w.to_py(t))
        pre = conv.unstructure(x, unstructure_as=w.to_py(t))
        back = json.loads(json.dumps(pre))
        tabs = []
        for b in {y for y in L.nodes(plain, []) if type(y) is bytes}:
            tabs.append(f"({w.cval(b)}, {w.cval(conv.unstructure(b))})")
        keys = []
        for k in {y for y in dict_keys(pre, []) if type(y) is not str}:
            keys.append(f"({w.cval(k)}, {w.cval(next(iter(json.loads(json.dumps({k: 0})))))})")
        text = (f"jcase_ok [{'; '.join(tabs)}] [{'; '.join(keys)}] {w.cval(plain)} {w.cval(pre)} {w.cval(back)}")
    except (Unencodable, TypeError, ValueError):
        return
    cases.append(text)
    meta.append({**desc, "plain_unstructured": repr(plain)[:300], "json_unstructured": repr(pre)[:300], "after_library_round_trip": repr(back)[:300]})
    # the structure side, for types inside the nested universe of Conv.v
    try:
        ct = w.cty(t)
        tables = JsonTables(w, conv)
        tables.add_payload(back, L.prims_of(w, t, set(), set()), L.has_class(w, t))
        dv = bool(getattr(conv, "detailed_validation", True))
        text2 = f"jload_ok {tables.env_term()} {L.ccfg(True, dv, 'dict', False, flags or {})} {ct} {w.cval(back)} {w.cval(x)}"
    except (Unencodable, TypeError, ValueError, RecursionError):
        return
    cases.append(text2)
    meta.append({**desc, "model": "structure side", "after_library_round_trip": repr(back)[:300], "expected": repr(x)[:300]})


def add_yaml_case(w: World, conv, t, x, cases, meta, desc, flags=None):
    """the pyyaml converter against the model: yamlify(plain unstructured form) = the converter's unstructured form, yaml_rt = what
    yaml.safe_load(yaml.safe_dump(.)) makes of it, and the model's structure side on that gives x back"""
    import yaml
    from cattrs import Converter
    try:
        plain = Converter().unstructure(x, unstructure_as=w.to_py(t))
        pre = conv.unstructure(x, unstructure_as=w.to_py(t))
        back = yaml.safe_load(yaml.safe_dump(pre))
        text = f"ycase_ok {w.cval(plain)} {w.cval(pre)} {w.cval(back)}"
    except (Unencodable, TypeError, ValueError, yaml.YAMLError):
        return
    cases.append(text)
    meta.append({**desc, "model": "yaml layer", "plain_unstructured": repr(plain)[:300], "yaml_unstructured": repr(pre)[:300], "after_library_round_trip": repr(back)[:300]})
    try:
        ct = w.cty(t)
        tables = L.Tables(w)
        tables.add_payload(back, L.prims_of(w, t, set(), set()), L.has_class(w, t))
        dv = bool(getattr(conv, "detailed_validation", True))
        text2 = f"jload_ok {tables.env_term()} {L.ccfg(True, dv, 'dict', False, flags or {})} {ct} {w.cval(back)} {w.cval(x)}"
    except (Unencodable, TypeError, ValueError, RecursionError):
        return
    cases.append(text2)
    meta.append({**desc, "model": "structure side (yaml)", "after_library_round_trip": repr(back)[:300], "expected": repr(x)[:300]})


def dict_keys(o, acc):
    if type(o) is dict:
        for k, x in o.items():
            acc.append(k)
            dict_keys(x, acc)
    elif type(o) in (list, tuple):
        for x in o:
            dict_keys(x, acc)
    return acc


def run_json_model(v, cases, meta):
    bad = []
    shard = 400
    for k in range(0, len(cases), shard):
        src = ("From V.Model Require Import Base Templates Conv ConvLane Preconf.\nLocal Open Scope N_scope.\nDefinition cs : list bool := [\n" +
               ";\n".join(cases[k:k + shard]) + "\n].\nEval vm_compute in (bad_from 0 cs).\n")
        rc, out = run_cases_file(f"c16_{v.seed}_{k}", src)
        vals = parse_coq_value(out)
        if rc != 0 or not vals:
            v.obligation("correspondence:PRE/C16:coqc", False, out[-700:])
            return
        bad += [k + int(x) for x in re.findall(r"\d+", vals[-1])]
    v.obligation("correspondence:PRE/C16 (json and pyyaml: model post-processing of the unstructured form, model of the library round trip, and the model's structure side on it = implementation / library)", not bad,
                 "" if not bad else f"{len(bad)} of {len(cases)} disagree, first: {meta[bad[0]]}")
    v.coverage["json_model_cases"] = len(cases)
    v.coverage["json_model_structure_side_cases"] = sum(1 for m in meta if m.get("model") == "structure side")
    v.coverage["yaml_model_cases"] = sum(1 for m in meta if str(m.get("model", "")).endswith("yaml layer") or m.get("model") == "structure side (yaml)")
    if len(v.samples) < 4:
        v.samples += meta[:4]
