"""ALIAS lane (C11): structure / unstructure never mutate their argument and share no mutable
container with it (documented pass-throughs excepted).

Observation is through object identity: a deep snapshot of the argument (structure + id() of every
mutable container) is taken before the call and compared after it, whether the call returns or
raises; the ids of the mutable containers reachable from the result are intersected with those
reachable from the argument.  Batteries: the CONV worlds (every type constructor, valid / mutated /
junk payloads, all configurations), TypedDicts with renames and forbid_extra_keys, tagged unions
(with / without default, known / unknown / missing tag, forbid on / off)."""
from __future__ import annotations

import collections
import dataclasses
import enum
import random
from typing import Any, Optional, TypedDict, Union

import attrs

from cattrs import BaseConverter, Converter
from cattrs.gen import override
from cattrs.gen.typeddicts import make_dict_structure_fn as td_struct_fn, make_dict_unstructure_fn as td_unstruct_fn
from cattrs.strategies import configure_tagged_union

import lane_conv as L
from common import Verdict
from conv_checks import P_ALL, base_supported, describe_class
from lane_conv import NODEFAULT, World

MUTABLE = (list, dict, set, bytearray, collections.deque)
SEQ_MUT = (list, collections.deque)
MAP_MUT = (dict, collections.Counter, collections.defaultdict)


def is_instance_obj(o):
    return (attrs.has(type(o)) or dataclasses.is_dataclass(o)) and not isinstance(o, type)


def snapshot(o, depth=0):
    """Structure + identity of everything reachable (identity only for mutable containers / instances)."""
    if depth > 40:
        return ("deep",)
    t = type(o)
    if t in (list, tuple, collections.deque):
        return (t.__name__, id(o) if t is not tuple else None, tuple(snapshot(x, depth + 1) for x in o))
    if t in (set, frozenset):
        return (t.__name__, id(o) if t is set else None, frozenset((repr(x), id(x) if isinstance(x, MUTABLE) else None) for x in o))
    if t in MAP_MUT:
        return (t.__name__, id(o), tuple((snapshot(k, depth + 1), snapshot(v, depth + 1)) for k, v in o.items()))
    if is_instance_obj(o):
        names = [a.name for a in attrs.fields(t)] if attrs.has(t) else [f.name for f in dataclasses.fields(o)]
        return ("inst", t.__name__, id(o), tuple((n, snapshot(getattr(o, n, NODEFAULT), depth + 1)) for n in names))
    return ("atom", t.__name__, repr(o))


def mutable_ids(o, acc=None, depth=0):
    """id -> object for every mutable container / non-frozen instance reachable from o."""
    acc = {} if acc is None else acc
    if depth > 40:
        return acc
    t = type(o)
    if t in (list, set, dict, collections.deque, collections.Counter, collections.defaultdict):
        if id(o) in acc:
            return acc
        acc[id(o)] = o
    if t in (list, tuple, set, frozenset, collections.deque):
        for x in o:
            mutable_ids(x, acc, depth + 1)
    elif t in MAP_MUT:
        for k, v in o.items():
            mutable_ids(k, acc, depth + 1)
            mutable_ids(v, acc, depth + 1)
    elif is_instance_obj(o):
        frozen = attrs.has(t) and getattr(t, "__attrs_attrs__", None) is not None and getattr(t.__setattr__, "__name__", "") == "_frozen_setattrs"
        if not frozen:
            if id(o) in acc:
                return acc
            acc[id(o)] = o
        names = [a.name for a in attrs.fields(t)] if attrs.has(t) else [f.name for f in dataclasses.fields(o)]
        for n in names:
            if hasattr(o, n):
                mutable_ids(getattr(o, n), acc, depth + 1)
    return acc


def any_positions(w: World, t, o, acc, strat="dict", depth=0):
    """ids of the containers an Any-typed / untyped position of the argument holds (documented pass-through when structuring)."""
    if depth > 30:
        return acc
    k = t[0]
    if k == "any":
        mutable_ids(o, acc)
    elif k in ("list", "tuphom", "set", "fset", "deque"):
        if t[1][0] == "any":
            pass                   # list(obj) / set(obj): the elements are kept as they are
        try:
            for e in o:
                any_positions(w, t[1], e, acc, strat, depth + 1)
        except TypeError:
            pass
    elif k == "tuple":
        try:
            for tt, e in zip(t[1], o):
                any_positions(w, tt, e, acc, strat, depth + 1)
        except TypeError:
            pass
    elif k in ("dict", "defaultdict") and type(o) is dict:
        for kk, e in o.items():
            any_positions(w, t[1], kk, acc, strat, depth + 1)
            any_positions(w, t[2], e, acc, strat, depth + 1)
    elif k == "opt":
        if o is not None:
            any_positions(w, t[1], o, acc, strat, depth)
    elif k == "newtype":
        any_positions(w, t[2], o, acc, strat, depth)
    elif k == "annot":
        any_positions(w, t[1], o, acc, strat, depth)
    elif k in ("class", "self"):
        spec = w.specs[t[1]]
        if strat == "dict" and type(o) is dict:
            for f in spec.fields:
                if f.name in o:
                    if f.type is None:
                        mutable_ids(o[f.name], acc)
                    else:
                        any_positions(w, f.type, o[f.name], acc, strat, depth + 1)
            if spec.kind == "td":
                # finding F4: unknown keys of a TypedDict payload survive into the result (values shared)
                pass
        elif strat == "tuple" and type(o) in (list, tuple):
            for f, e in zip(spec.fields, o):
                if f.type is None:
                    mutable_ids(e, acc)
                else:
                    any_positions(w, f.type, e, acc, strat, depth + 1)
    return acc


def td_extra_values(w: World, t, o, acc, depth=0):
    """ids reachable from unknown keys of TypedDict payloads (finding F4)."""
    if depth > 30:
        return acc
    k = t[0]
    if k in ("list", "tuphom", "set", "fset", "opt", "annot"):
        if k in ("opt", "annot"):
            td_extra_values(w, t[1], o, acc, depth)
        else:
            try:
                for e in o:
                    td_extra_values(w, t[1], e, acc, depth + 1)
            except TypeError:
                pass
    elif k == "newtype":
        td_extra_values(w, t[2], o, acc, depth)
    elif k == "tuple":
        try:
            for tt, e in zip(t[1], o):
                td_extra_values(w, tt, e, acc, depth + 1)
        except TypeError:
            pass
    elif k == "dict" and type(o) is dict:
        for e in o.values():
            td_extra_values(w, t[2], e, acc, depth + 1)
    elif k in ("class", "self") and type(o) is dict:
        spec = w.specs[t[1]]
        names = {f.name for f in spec.fields}
        for kk, e in o.items():
            if kk in names:
                f = next(f for f in spec.fields if f.name == kk)
                if f.type is not None:
                    td_extra_values(w, f.type, e, acc, depth + 1)
            elif spec.kind == "td":
                mutable_ids(e, acc)
    return acc


def strip_wrappers(w: World, t, o):
    """The payload component that reaches the first TypedDict position when t is Optional / NewType / Annotated of it (else the payload itself)."""
    return o


def passthrough_td(w: World, t):
    """A TypedDict all of whose values need no conversion: its unstructure hook is the identity (documented)."""
    while t[0] in ("newtype", "annot"):
        t = t[2] if t[0] == "newtype" else t[1]
    if t[0] in ("class",) and w.specs[t[1]].kind == "td":
        return all(f.type is not None and (_identity_leaf(f.type) or passthrough_td(w, f.type)) for f in w.specs[t[1]].fields)
    return False


def _identity_leaf(t):
    while t[0] in ("newtype", "annot"):
        t = t[2] if t[0] == "newtype" else t[1]
    return t[0] in ("prim", "lit", "any")


def td_positions(w: World, t, x, acc, depth=0):
    """ids of the dicts sitting at pass-through TypedDict positions of a value being unstructured (and everything below them)."""
    if depth > 30:
        return acc
    k = t[0]
    if k in ("class", "self"):
        spec = w.specs[t[1]]
        if spec.kind == "td":
            if passthrough_td(w, t):
                mutable_ids(x, acc)
            elif type(x) is dict:
                for f in spec.fields:
                    if f.name in x:
                        td_positions(w, f.type, x[f.name], acc, depth + 1)
        else:
            for f in spec.fields:
                if f.type is not None and hasattr(x, f.name):
                    td_positions(w, f.type, getattr(x, f.name), acc, depth + 1)
                elif f.type is None and hasattr(x, f.name):
                    td_any(w, getattr(x, f.name), acc, depth + 1)
    elif k in ("list", "tuphom", "set", "fset", "deque"):
        for e in x:
            td_positions(w, t[1], e, acc, depth + 1)
    elif k == "tuple":
        for tt, e in zip(t[1], x):
            td_positions(w, tt, e, acc, depth + 1)
    elif k in ("dict", "defaultdict"):
        for kk, e in x.items():
            td_positions(w, t[2], e, acc, depth + 1)
    elif k in ("opt", "annot"):
        if x is not None:
            td_positions(w, t[1], x, acc, depth)
    elif k == "newtype":
        td_positions(w, t[2], x, acc, depth)
    elif k == "any":
        td_any(w, x, acc, depth + 1)
    return acc


def td_any(w, x, acc, depth=0):
    """Any-typed / untyped position while unstructuring: dispatch is by runtime class, so instances of world
    classes are looked at through their own annotations; plain dicts / lists are copied."""
    if depth > 30:
        return acc
    tx = type(x)
    for cid, cl in enumerate(w.pycls):
        if tx is cl and w.specs[cid].kind != "td":
            return td_positions(w, ("class", cid), x, acc, depth + 1)
    if tx in (list, tuple, set, frozenset):
        for e in x:
            td_any(w, e, acc, depth + 1)
    elif tx is dict:
        for k, e in x.items():
            td_any(w, k, acc, depth + 1)
            td_any(w, e, acc, depth + 1)
    return acc


def check_call(v: Verdict, what, desc, arg, fn, allowed_ids, hist, finding=None):
    """Run fn(arg); verify arg is unchanged and the result shares no mutable container with it beyond allowed_ids."""
    before = snapshot(arg)
    arg_ids = mutable_ids(arg)
    try:
        res = fn(arg)
        raised = None
    except Exception as e:
        res, raised = None, e
    hist["calls"] += 1
    hist["raised" if raised is not None else "returned"] += 1
    v.count(repr((what, {k: x for k, x in desc.items() if k != "classes"})), True)
    after = snapshot(arg)
    if before != after:
        v.violation(f"{what} modified its argument" + (" (while raising)" if raised is not None else ""),
                    {**desc, "argument_before": repr(before)[:600], "argument_after": repr(after)[:600], "raised": repr(raised)[:200] if raised else None})
        return
    if raised is None:
        shared = {i: o for i, o in mutable_ids(res).items() if i in arg_ids and arg_ids[i] is o and i not in allowed_ids}
        if shared:
            hist["shared"] += 1
            rp = {**desc, "result": repr(res)[:500], "shared_containers": [repr(o)[:120] for o in list(shared.values())[:4]]}
            if finding is not None and finding[1](shared):
                v.finding(finding[0], f"{what}: result shares a mutable container with the argument", rp)
            else:
                v.violation(f"the result of {what} shares a mutable container with the argument (mutating one changes the other)", rp)


def check_c11(v: Verdict, n_worlds: int):
    rng = random.Random(v.seed * 7919 + 1111)
    hist = {"worlds": 0, "calls": 0, "returned": 0, "raised": 0, "shared": 0, "structure": 0, "unstructure": 0, "typeddict_types": 0,
            "tagged_union_calls": 0, "typeddict_override_calls": 0, "payload_kinds": {"valid": 0, "mutated": 0, "junk": 0}}
    profile = dict(P_ALL, typeddicts=0.25, any_structured=True, ext_types=True)   # Counter / defaultdict / deque, both spellings
    for wi in range(n_worlds):
        w = L.gen_world(rng, profile)
        hist["worlds"] += 1
        pool = {}

        def conv_for(cfg, forbid):
            if (cfg, forbid) not in pool:
                pool[(cfg, forbid)] = L.make_converter(*cfg, forbid)
            return pool[(cfg, forbid)]
        for _ in range(3):
            t = ("class", rng.randrange(len(w.pycls))) if rng.random() < 0.6 else L.gen_type(w, 3, len(w.pycls))
            if rng.random() < 0.3:
                t = rng.choice([("list", t, rng.randrange(4)), ("dict", ("prim", "str"), t, 0), ("opt", t), ("tuple", [t, ("prim", "int")])])
            uses_td = w._mentions_td(t)
            hist["typeddict_types"] += uses_td
            for _ in range(2):
                try:
                    x = L.gen_value(w, t, 3)
                except RecursionError:
                    continue
                for cfg in rng.sample(L.CFGS, 3):
                    full, dv, strat = cfg
                    if uses_td and (not full or strat == "tuple"):
                        continue              # TypedDicts are a Converter / dict-strategy feature
                    if not full and not (base_supported(w, t) and all(base_supported(w, ("class", c)) for c in range(len(w.specs)))):
                        continue              # BaseConverter returns values of types it has no hook for unchanged (documented pass-through)
                    forbid = full and rng.random() < 0.4
                    conv = conv_for(cfg, forbid)
                    desc = {"lane": "ALIAS/C11", "converter": "Converter" if full else "BaseConverter", "detailed_validation": dv, "strategy": strat,
                            "forbid_extra_keys": forbid, "type": repr(w.to_py(t)), "classes": [describe_class(w, s) for s in w.specs]}
                    py_t = w.to_py(t)
                    hist["unstructure"] += 1
                    allowed = td_positions(w, t, x, {})
                    check_call(v, "unstructure", {**desc, "op": "unstructure", "input": repr(x)[:400]}, x,
                               lambda a: conv.unstructure(a, unstructure_as=py_t), allowed, hist)
                    try:
                        u = conv.unstructure(x, unstructure_as=py_t)
                    except Exception:
                        continue
                    payloads = [("valid", u)]
                    o = u
                    for _ in range(rng.randint(1, 2)):
                        o = L.mutate(rng, o)
                    payloads.append(("mutated", o))
                    payloads.append(("junk", rng.choice(L.JUNK)))
                    for kind, o in payloads:
                        hist["structure"] += 1
                        hist["payload_kinds"][kind] += 1
                        allowed = any_positions(w, t, o, {}, strat)
                        f4 = td_extra_values(w, t, o, {}) if uses_td and not forbid else {}
                        fnd = ("F4", lambda shared, f4=f4: all(i in f4 for i in shared)) if f4 else None
                        if uses_td and not dv and not isinstance(strip_wrappers(w, t, o), dict):
                            # finding F11: the fast TypedDict hook returns o.copy() of a non-mapping payload (a shallow copy: inner containers shared)
                            fnd = ("F11", lambda shared: True)
                        check_call(v, "structure", {**desc, "op": "structure", "input": repr(o)[:400], "payload_kind": kind}, o,
                                   lambda a: conv.structure(a, py_t), allowed, hist, finding=fnd)
        tagged_union_battery(v, rng, w, hist)
    typeddict_override_battery(v, rng, hist, n_worlds)
    string_annotation_battery(v, hist)
    recursive_typeddict_battery(v, hist)
    v.coverage["input_distribution"] = hist


def tagged_union_battery(v, rng, w: World, hist):
    cls = [c for c, s in zip(w.pycls, w.specs) if s.kind in ("attrs", "frozen", "dataclass")]
    if len(cls) < 2:
        return
    members = rng.sample(cls, rng.randint(2, min(3, len(cls))))
    U = Union[tuple(members)]
    for forbid in (False, True):
        for with_default in (False, True):
            for dv in (True, False):
                conv = Converter(forbid_extra_keys=forbid, detailed_validation=dv)
                tag_name = rng.choice(["_type", "kind"])
                kw = {"tag_name": tag_name}
                if with_default:
                    kw["default"] = members[0]
                try:
                    configure_tagged_union(U, conv, **kw)
                except Exception:
                    continue
                desc = {"lane": "ALIAS/C11", "strategy": "configure_tagged_union", "members": [m.__name__ for m in members], "forbid_extra_keys": forbid,
                        "default": members[0].__name__ if with_default else None, "tag_name": tag_name, "detailed_validation": dv}
                for m in members:
                    cid = w.pycls.index(m)
                    try:
                        x = L.gen_instance(w, cid, 2)
                        u = conv.unstructure(x, unstructure_as=U)
                    except Exception:
                        continue
                    hist["tagged_union_calls"] += 1
                    check_call(v, "unstructure (tagged union)", {**desc, "op": "unstructure", "input": repr(x)[:300], "classes": [describe_class(w, s) for s in w.specs]}, x,
                               lambda a: conv.unstructure(a, unstructure_as=U), td_positions(w, ("class", cid), x, {}), hist)
                    variants = [dict(u), {**u, tag_name: "NoSuchTag"}, {k: val for k, val in u.items() if k != tag_name}, {**u, "zz_extra": [1]},
                                {tag_name: u.get(tag_name)}, dict(reversed(list(u.items())))]
                    for o in variants:
                        hist["tagged_union_calls"] += 1
                        allowed = any_positions(w, ("class", cid), o, {})
                        for mm in members:
                            any_positions(w, ("class", w.pycls.index(mm)), o, allowed)
                        check_call(v, "structure (tagged union)", {**desc, "op": "structure", "input": repr(o)[:300]}, o,
                                   lambda a: conv.structure(a, U), allowed, hist)


def typeddict_override_battery(v, rng, hist, n):
    """TypedDict hooks with renames / omissions and forbid_extra_keys, valid and invalid payloads."""
    for i in range(max(6, n // 2)):
        fields = {f"k{j}": rng.choice([int, str, list[int], dict[str, int], Optional[int]]) for j in range(rng.randint(1, 4))}
        TD = TypedDict(f"ATD{i}", fields, total=rng.random() < 0.7)
        names = list(fields)
        for forbid in (False, True):
            for dv in (True, False):
                conv = Converter(forbid_extra_keys=forbid, detailed_validation=dv)
                ov = {}
                for nme in names:
                    r = rng.random()
                    if r < 0.3:
                        ov[nme] = override(rename=f"r_{nme}")
                    elif r < 0.4:
                        ov[nme] = override(omit=True)
                try:
                    sh = td_struct_fn(TD, conv, _cattrs_forbid_extra_keys=forbid, _cattrs_detailed_validation=dv, **ov)
                    uh = td_unstruct_fn(TD, conv, **ov)
                except Exception:
                    continue
                desc = {"lane": "ALIAS/C11", "strategy": "TypedDict hooks with overrides", "fields": {k: repr(t) for k, t in fields.items()},
                        "overrides": {k: repr(o) for k, o in ov.items()}, "forbid_extra_keys": forbid, "detailed_validation": dv}

                def val(t):
                    if t is int or t == Optional[int]:
                        return rng.randrange(5)
                    if t is str:
                        return "s"
                    if t == list[int]:
                        return [rng.randrange(5) for _ in range(rng.randint(0, 2))]
                    return {"a": 1}
                inst = {k: val(t) for k, t in fields.items()}
                hist["typeddict_override_calls"] += 1
                all_ident = all(t in (int, str, Optional[int]) for k, t in fields.items()) and not ov
                check_call(v, "unstructure (TypedDict hook)", {**desc, "op": "unstructure", "input": repr(inst)}, inst, uh,
                           mutable_ids(inst) if all_ident else {}, hist)
                try:
                    u = uh(inst)
                except Exception:
                    continue
                variants = [dict(u), {**u, "zz_extra": [1, 2]}, {k: x for k, x in list(u.items())[1:]}, {**u, **{k: "bad" for k in list(u)[:1]}}, [1, 2], {}]
                for o in variants:
                    hist["typeddict_override_calls"] += 1
                    extras = {}
                    if type(o) is dict and not forbid:
                        allowed_keys = {(f"r_{k}" if k in ov and ov[k].rename else k) for k in names}
                        for kk, e in o.items():
                            if kk not in allowed_keys:
                                mutable_ids(e, extras)
                    check_call(v, "structure (TypedDict hook)", {**desc, "op": "structure", "input": repr(o)[:300]}, o,
                               lambda a: sh(a, TD), {}, hist,
                               finding=("F4", lambda shared, extras=extras: all(i in extras for i in shared)) if extras else None)


# ---------------------------------------------------------------------------------- classes with string annotations

STRANN_SRC = '''from __future__ import annotations
import attrs, dataclasses
@attrs.define
class SBase:
    xs: list[int] = attrs.Factory(list)
@attrs.define
class SSub(SBase):
    ys: dict[str, list[int]] = attrs.Factory(dict)
    zs: list[list[int]] = attrs.Factory(list)
@attrs.define
class SLeaf(SSub):
    ws: list[SBase] = attrs.Factory(list)
@dataclasses.dataclass
class SData:
    sub: SSub
    rows: list[list[int]] = dataclasses.field(default_factory=list)
'''


def string_annotation_battery(v: Verdict, hist):
    """systematic: attrs classes / dataclasses whose annotations are STRINGS (PEP 563), with inheritance; the class-level state
    attrs keeps about resolved annotations is inherited by subclasses, so the ORDER in which the classes of a hierarchy are first
    used matters; hooks obtained from the converter, built by the user with make_dict_(un)structure_fn (the documented
    customisation) or installed by include_subclasses with overrides.  Every call: argument unchanged, no shared mutable container."""
    import itertools
    import sys
    import types as _types
    from cattrs import Converter
    from cattrs.gen import make_dict_structure_fn, make_dict_unstructure_fn
    from cattrs.strategies import configure_tagged_union, include_subclasses
    n = 0
    names = ["SBase", "SSub", "SLeaf", "SData"]
    for order in list(itertools.permutations(names[:3])) + [("SData", "SBase", "SSub"), ("SBase", "SData", "SLeaf")]:
        for how in ("converter", "make_dict_fn", "make_dict_fn_registered", "include_subclasses_overrides"):
            for dv in (True, False):
                modname = f"verif_strann_{n}"
                mod = _types.ModuleType(modname)
                sys.modules[modname] = mod
                try:
                    exec(compile(STRANN_SRC, modname, "exec"), mod.__dict__)
                    vals = {"SBase": lambda: mod.SBase([1, 2]),
                            "SSub": lambda: mod.SSub([1], {"k": [2, 3]}, [[4], [5, 6]]),
                            "SLeaf": lambda: mod.SLeaf([1], {"k": [2]}, [[3]], [mod.SBase([7]), mod.SSub([8], {"q": [9]}, [[1]])]),
                            "SData": lambda: mod.SData(mod.SSub([1], {"k": [2]}, [[3]]), [[4, 5]])}
                    conv = Converter(detailed_validation=dv)
                    if how == "include_subclasses_overrides":
                        try:
                            include_subclasses(mod.SBase, conv, overrides={}, union_strategy=configure_tagged_union)
                        except Exception:      # noqa  (not this property's business)
                            hist["hook_creation_failed"] = hist.get("hook_creation_failed", 0) + 1
                            continue
                    for nm in order:
                        cl = getattr(mod, nm)
                        n += 1
                        desc = {"lane": "ALIAS/C11 string annotations", "class": nm, "first_use_order": list(order), "hooks_from": how, "detailed_validation": dv,
                                "classes_source": STRANN_SRC}
                        f_st = None
                        if how == "make_dict_fn":
                            un = make_dict_unstructure_fn(cl, conv)
                            f_un = (lambda a, un=un: un(a))
                            try:
                                st = make_dict_structure_fn(cl, conv)
                                f_st = (lambda a, st=st, cl=cl: st(a, cl))
                            except Exception:      # noqa  (not this property's business)
                                hist["hook_creation_failed"] = hist.get("hook_creation_failed", 0) + 1
                        else:
                            if how == "make_dict_fn_registered":
                                conv.register_unstructure_hook(cl, make_dict_unstructure_fn(cl, conv))
                                try:
                                    conv.register_structure_hook(cl, make_dict_structure_fn(cl, conv))
                                except Exception:      # noqa
                                    hist["hook_creation_failed"] = hist.get("hook_creation_failed", 0) + 1
                            f_un, f_st = (lambda a, cl=cl: conv.unstructure(a, unstructure_as=cl)), (lambda a, cl=cl: conv.structure(a, cl))
                        x = vals[nm]()
                        hist["unstructure"] += 1
                        check_call(v, "unstructure", {**desc, "op": "unstructure", "input": repr(x)[:300]}, x, f_un, {}, hist)
                        try:
                            u = f_un(vals[nm]())
                        except Exception:
                            continue
                        if f_st is None:
                            continue
                        hist["structure"] += 1
                        check_call(v, "structure", {**desc, "op": "structure", "input": repr(u)[:300]}, u, f_st, {}, hist)
                finally:
                    sys.modules.pop(modname, None)
    hist["string_annotation_calls"] = n


# ------------------------------------------------------------------------------------ recursive TypedDicts

RTD_SRC = '''
import enum
from typing import Dict, List, Optional, TypedDict
from typing_extensions import NotRequired

class RKind(enum.Enum):
    A = "a"

class Tree(TypedDict):
    name: str
    children: List["Tree"]

class Chain(TypedDict):
    n: int
    next: Optional["Chain"]

class Shelf(TypedDict):
    label: str
    sub: Dict[str, "Shelf"]

class Ping(TypedDict):
    x: int
    pongs: List["Pong"]

class Pong(TypedDict):
    y: str
    ping: NotRequired[Ping]

class Linked(TypedDict):
    kind: RKind
    kids: List["Linked"]
'''


def recursive_typeddict_battery(v: Verdict, hist):
    """TypedDicts that lead back to themselves (through List / Optional / Dict / a second TypedDict), all other keys of pass-through
    types: they are NOT "TypedDicts with nothing to convert" -- every level is a mapping holding containers, so the result must be new
    dicts and new lists at every depth, in both directions, whichever class of a mutually recursive pair is used first."""
    import sys
    import types as _types
    mod = _types.ModuleType("alias_rtd")
    sys.modules[mod.__name__] = mod
    exec(compile(RTD_SRC, mod.__name__, "exec", dont_inherit=True), mod.__dict__)      # (this module's `from __future__ import annotations` must not leak in)
    A = mod.RKind.A
    vals = {
        "Tree": lambda: {"name": "r", "children": [{"name": "c1", "children": []}, {"name": "c2", "children": [{"name": "g", "children": []}]}]},
        "Chain": lambda: {"n": 1, "next": {"n": 2, "next": None}},
        "Shelf": lambda: {"label": "top", "sub": {"a": {"label": "in", "sub": {}}}},
        "Ping": lambda: {"x": 1, "pongs": [{"y": "p"}, {"y": "q", "ping": {"x": 2, "pongs": []}}]},
        "Pong": lambda: {"y": "p", "ping": {"x": 2, "pongs": [{"y": "deep"}]}},
        "Linked": lambda: {"kind": A, "kids": [{"kind": A, "kids": []}]},
    }
    hist["recursive_typeddict_calls"] = 0
    orders = [["Tree"], ["Chain"], ["Shelf"], ["Ping", "Pong"], ["Pong", "Ping"], ["Linked"]]
    for order in orders:
        for dv in (True, False):
            for first in ("unstructure", "structure"):
                conv = Converter(detailed_validation=dv)
                for name in order:
                    T_ = getattr(mod, name)
                    x = vals[name]()
                    desc = {"lane": "ALIAS/C11 recursive TypedDicts", "type": name, "definitions": RTD_SRC.strip(), "detailed_validation": dv,
                            "first_use_order": order, "first_operation": first}
                    ops = ["unstructure", "structure"] if first == "unstructure" else ["structure", "unstructure"]
                    for op in ops:
                        hist["recursive_typeddict_calls"] += 1
                        if op == "unstructure":
                            check_call(v, "unstructure", {**desc, "op": "unstructure", "input": repr(x)[:300]}, x,
                                       lambda a: conv.unstructure(a, unstructure_as=T_), {}, hist)
                        else:
                            payload = Converter().unstructure(vals[name](), unstructure_as=T_)
                            check_call(v, "structure", {**desc, "op": "structure", "input": repr(payload)[:300]}, payload,
                                       lambda a: conv.structure(a, T_), {}, hist)
    sys.modules.pop(mod.__name__, None)
