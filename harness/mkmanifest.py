"""Writes MANIFEST.json from the registry (kept valid at all times)."""
import json, sys
from pathlib import Path
sys.path.insert(0, str(Path(__file__).resolve().parent))
sys.path.insert(0, "/repo/src")
from claims import CLAIMS, NOT_APPLICABLE

VERIF = Path(__file__).resolve().parent.parent
ids = [json.loads(l)["id"] for l in open(VERIF / "properties.jsonl")]
checks = []
for pid in ids:
    if pid in CLAIMS:
        c = CLAIMS[pid]
        checks.append({
            "property_id": pid,
            "quick_cmd": f"bin/check {pid} quick",
            "thorough_cmd": f"bin/check {pid} thorough",
            "evidence_file": f"/verif/evidence/{pid}.json",
            "replay_cmd_template": "cat {path}",
            "engine": "coq-model+correspondence",
            "level_claimed": {"category": "proof", "text": c["text"] + (" " + c["extra_text"] if c.get("extra_text") else ""), "design_ref": c.get("design_ref", "DESIGN.md section 4")},
            "level_note": c["note"],
            "technique": c["technique"],
        })
na = [{"property_id": pid, "reason": NOT_APPLICABLE.get(pid, "check not built yet in this session; no claim made")} for pid in ids if pid not in CLAIMS]
m = {
    "version": 1,
    "setup_cmd": "cd /verif && /venv/bin/python harness/t1_translate.py /repo coq/Gen > /dev/null; cd coq && ./build.sh",
    "hooks": {"guard": "CATTRS_VERIF", "enable": "none needed: every observation is made through the public API from the harness process (no source hooks in /repo)",
              "baseline_off_cmd": "cd /verif && bin/baseline", "source_commits": [], "add_only": True},
    "engines": [{"name": "coq-model+correspondence", "path": "/verif/coq, /verif/harness",
                 "serves_properties": sorted(CLAIMS), "kind_free_text": "Coq 8.16 theorems over an executable Gallina model; model parameters regenerated from the source by translator T1 on every run; model evaluated by vm_compute against the real library on generated cases (correspondence); per-property direct oracle as failing-input search"}],
    "checks": checks,
    "not_applicable": na,
    "notes": "Fixes committed to /repo: see known_findings.json (entries with fixed=true) and DESIGN.md section 9.",
}
(VERIF / "MANIFEST.json").write_text(json.dumps(m, indent=1))
print("claimed:", sorted(CLAIMS), "not applicable:", [x["property_id"] for x in na])
