"""C20 lane: attrs field converters vs structure hooks.  The decision domain is finite and is
enumerated exhaustively (x class shapes x converter classes x modes x strategies)."""
from __future__ import annotations

import itertools
import random
import re
from typing import List, Set

import attrs

from cattrs import BaseConverter, Converter, UnstructureStrategy
from common import Verdict, parse_coq_value, run_cases_file


class Sup:
    """a class with a registered structure hook"""


class Unsup:
    """a class nobody can structure"""


def K(v):
    return ("K", v)


TKINDS = {"TUntyped": None, "TFound": Sup, "TNotFound": Unsup, "TLazyNotFound": Set[Unsup], "TRecursive": "self",
          # a list of a class nobody can structure: the list hook factory looks the element hook up when the hook is CREATED, so no hook is found
          "TNotFoundList": List[Unsup],
          # primitive types: the born-with hook calls the class (int("7")); the raw value is of another class, so hook(raw) != raw
          "TPrimInt": int, "TPrimStr": str,
          # a TypeVar-typed attribute of a generic class, used as FC[Sup]: the hook of the SUBSTITUTED type (Converter's generated hooks only)
          "TGeneric": "typevar"}
PRIM_RAW = {"TPrimInt": ("7", 7), "TPrimStr": (5, "5")}
# in the model a primitive type is a type whose hook is found
TK_COQ = {"TPrimInt": "TFound", "TPrimStr": "TFound", "TGeneric": "TFound", "TNotFoundList": "TNotFound"}
_TV = __import__("typing").TypeVar("_TV")


def classify(v, raw, cl=None, hooked=None):
    if hooked is not None:
        for got, name in ((("K", hooked), "(VK VHook)"), (("K", raw), "(VK VRaw)"), (hooked, "VHook"), (raw, "VRaw")):
            if v == got and type(v) is type(got) and (not isinstance(v, tuple) or type(v[1]) is type(got[1])):
                return name
        return f"?{v!r}"
    if cl is not None:
        # self-referential attribute: the "hook" is the class's own structure hook
        inner = v[1] if isinstance(v, tuple) and len(v) == 2 and v[0] == "K" else v
        k = isinstance(v, tuple) and len(v) == 2 and v[0] == "K"
        if isinstance(inner, cl):
            return "(VK VHook)" if k else "VHook"
        if inner == raw:
            return "(VK VRaw)" if k else "VRaw"
        return f"?{v!r}"
    if v == ("K", ("H", raw)):
        return "(VK VHook)"
    if v == ("K", raw):
        return "(VK VRaw)"
    if v == ("H", raw):
        return "VHook"
    if v == raw:
        return "VRaw"
    return f"?{v!r}"


def doc_rule(has_conv, prefer, tk):
    exists = {"TUntyped": None, "TFound": True, "TNotFound": False, "TLazyNotFound": False, "TNotFoundList": False, "TRecursive": True, "TPrimInt": True, "TPrimStr": True, "TGeneric": True}[tk]
    if has_conv:
        if prefer:
            return "(VK VRaw)"
        return "(VK VHook)" if exists else "(VK VRaw)"
    if exists is None:
        return "VRaw"
    return "VHook" if exists else "VFail"


def build(tk, has_conv, position, n_extra, with_default):
    fields = {}
    names = [f"x{i}" for i in range(n_extra)]
    names.insert(position, "target")
    for n in names:
        if n == "target":
            kw = {}
            if has_conv:
                kw["converter"] = K
            if tk == "TRecursive":
                kw["type"] = "FC"
                kw["default"] = None
            elif tk == "TGeneric":
                kw["type"] = _TV
            elif TKINDS[tk] is not None:
                kw["type"] = TKINDS[tk]
            if with_default and tk != "TRecursive":
                kw["default"] = "dflt"
            fields[n] = attrs.field(**kw)
        else:
            fields[n] = attrs.field(type=int, default=0) if with_default else attrs.field(type=int)
    if tk == "TGeneric":
        from typing import Generic
        cl = attrs.make_class("FC", fields, bases=(Generic[_TV],))
        return cl, names
    cl = attrs.make_class("FC", fields)
    if tk == "TRecursive":
        attrs.resolve_types(cl, {"FC": cl}, {"FC": cl})
    return cl, names


def check_c20(v: Verdict, tier):
    rng = random.Random(v.seed * 7919 + 20)
    cases = []
    meta = []
    hist = {"cells": 0, "converter_classes": 0, "observations": 0, "f15_hits": 0, "default_checks": 0, "user_built_hooks": 0}
    shapes = [(0, 0), (0, 2), (1, 2), (2, 2)] if tier == "quick" else [(p, n) for n in range(0, 4) for p in range(0, n + 1)]
    configs = []
    for full in (True, False):
        for dv in (True, False):
            for strat in (UnstructureStrategy.AS_DICT, UnstructureStrategy.AS_TUPLE):
                configs.append((full, dv, strat))
    hist["converter_classes"] = len(configs)
    for has_conv, prefer, tk in itertools.product((True, False), (True, False), TKINDS):
        hist["cells"] += 1
        for (position, n_extra) in shapes:
            for with_default in (False, True):
                if tk == "TRecursive" and not with_default:
                    continue              # the self-reference needs a default (the nested payload leaves it out)
                cl, names = build(tk, has_conv, position, n_extra, with_default)
                raw = [1] if tk in ("TLazyNotFound", "TNotFoundList") else "raw"
                hooked = None
                if tk in PRIM_RAW:
                    raw, hooked = PRIM_RAW[tk]
                if tk == "TRecursive":
                    if not with_default:
                        continue          # the nested payload leaves the self-reference out: it needs its default
                    raw = None
                for full, dv, strat in configs:
                    if tk == "TGeneric" and not (full and strat is UnstructureStrategy.AS_DICT):
                        continue          # generic classes are documented for Converter's generated hooks only
                    conv = (Converter if full else BaseConverter)(prefer_attrib_converters=prefer, detailed_validation=dv, unstruct_strat=strat)
                    conv.register_structure_hook(Sup, lambda val, _: ("H", val))
                    generated = full and strat is UnstructureStrategy.AS_DICT
                    if tk == "TRecursive":
                        if strat is UnstructureStrategy.AS_DICT:
                            raw = {n: 3 for n in names if n != "target"}
                        elif names[-1] == "target":
                            raw = [3 for n in names[:-1]]     # zip() stops early: the trailing self-reference keeps its default
                        else:
                            continue                          # a tuple payload cannot leave out a non-trailing attribute
                    if strat is UnstructureStrategy.AS_DICT:
                        payload = {n: (raw if n == "target" else 3) for n in names}
                    else:
                        payload = [(raw if n == "target" else 3) for n in names]
                    try:
                        inst = conv.structure(payload, cl[Sup] if tk == "TGeneric" else cl)
                        obs = classify(inst.target, raw, cl if tk == "TRecursive" else None, hooked)
                    except Exception:
                        obs = "VFail"
                    hist["observations"] += 1
                    fn = "gen_field" if generated else "interp_field"
                    cases.append(f"fval_eqb ({fn} {str(has_conv).lower()} {str(prefer).lower()} {TK_COQ.get(tk, tk)}) {obs if not obs.startswith('?') else 'VFail'}")
                    desc = {"has_converter": has_conv, "prefer_attrib_converters": prefer, "type": tk, "position": position, "fields": len(names),
                            "default": with_default, "converter_class": "Converter" if full else "BaseConverter", "detailed_validation": dv,
                            "strategy": strat.name, "observed": obs}
                    meta.append(desc)
                    v.count(repr(desc), True)
                    if obs.startswith("?"):
                        v.violation("field value is none of K(hook(raw)), K(raw), hook(raw), raw", {"lane": "FIELD/C20", **desc})
                        continue
                    want = doc_rule(has_conv, prefer, tk)
                    if obs != want:
                        rp = {"lane": "FIELD/C20", **desc, "documented": want}
                        if tk == "TLazyNotFound":
                            rp["python_repro"] = "attrs class with field(converter=K, type=Set[Unsupported]); Converter().structure({'target': [1]}, cl) raises, BaseConverter returns K(raw)"
                        if generated and tk == "TLazyNotFound" and has_conv and not prefer and obs == "VFail":
                            hist["f15_hits"] += 1
                            v.finding("F15", "Converter raises where BaseConverter falls back to the raw value (lazily failing container hook)", rp)
                        else:
                            v.violation("field converter / structure hook composition differs from the documented rule", rp)
                    # the same class through a hook the USER builds with make_dict_structure_fn(cl, conv, ...): every option left at
                    # "from_converter" must resolve to the converter's own setting, whichever of the others is passed explicitly
                    if generated and tk != "TGeneric":
                        from cattrs.gen import make_dict_structure_fn
                        explicit_all = {"_cattrs_forbid_extra_keys": False, "_cattrs_detailed_validation": dv, "_cattrs_prefer_attrib_converters": prefer}
                        subsets = [()] + [c for r in (1, 2, 3) for c in itertools.combinations(sorted(explicit_all), r)]
                        if tier == "quick":
                            subsets = [()] + rng.sample(subsets[1:], 2)
                        for sub in subsets:
                            conv2 = Converter(prefer_attrib_converters=prefer, detailed_validation=dv, unstruct_strat=strat)
                            conv2.register_structure_hook(Sup, lambda val, _: ("H", val))
                            try:
                                hook = make_dict_structure_fn(cl, conv2, **{k: explicit_all[k] for k in sub})
                                obs2 = classify(hook(payload, cl).target, raw, cl if tk == "TRecursive" else None, hooked)
                            except Exception:
                                obs2 = "VFail"
                            hist["user_built_hooks"] += 1
                            v.count(repr((desc, sub)), True)
                            if obs2 != obs:
                                v.violation("a hook built with make_dict_structure_fn(cl, converter) treats the field differently from the converter's own hook",
                                            {"lane": "FIELD/C20", **desc, "explicit_options": list(sub), "converter_hook": obs, "user_built_hook": obs2,
                                             "documented": want})
                    # absent key + default: the default goes through the converter only (attrs), never through the hook
                    if with_default and strat is UnstructureStrategy.AS_DICT and tk != "TRecursive":
                        hist["default_checks"] += 1
                        p2 = {n: 3 for n in names if n != "target"}
                        try:
                            got = conv.structure(p2, cl[Sup] if tk == "TGeneric" else cl).target
                            exp = ("K", "dflt") if has_conv else "dflt"
                            if got != exp:
                                v.violation("default of an absent attribute was not left to attrs", {"lane": "FIELD/C20", **desc, "got": repr(got)})
                        except Exception as e:
                            if not (tk in ("TNotFound", "TLazyNotFound", "TNotFoundList") and not has_conv) and not (generated and tk == "TLazyNotFound"):
                                # hook generation legitimately fails for unsupported types without a converter
                                v.violation("structuring with the attribute absent failed", {"lane": "FIELD/C20", **desc, "error": repr(e)})
    if len(v.samples) < 4:
        v.samples += meta[:4]
    bad = []
    shard = 600
    for k in range(0, len(cases), shard):
        src = ("From V.Model Require Import Base FieldConv.\nDefinition cs : list bool := [\n" + ";\n".join(cases[k:k + shard]) + "\n].\n"
               "Fixpoint bad (k : nat) (l : list bool) : list nat := match l with [] => [] | b :: r => if b then bad (S k) r else k :: bad (S k) r end.\n"
               "Eval vm_compute in (bad 0 cs).\n")
        rc, out = run_cases_file(f"c20_{v.seed}_{k}", src)
        vals = parse_coq_value(out)
        if rc != 0 or not vals:
            v.obligation("correspondence:FIELD/C20:coqc", False, out[-600:])
            return
        if vals[-1] != "[]":
            bad += [k + int(x) for x in re.findall(r"\d+", vals[-1])]
    v.obligation("correspondence:FIELD/C20 (model decision table = implementation, exhaustive over the decision domain)", not bad,
                 "" if not bad else f"{len(bad)} disagree, first: {meta[bad[0]]}")
    v.coverage["input_distribution"] = hist
    v.coverage["exhaustive"] = True
