"""PEP 563 schedule (C19): concurrent first use of a class whose annotations are strings.

`attrs.resolve_types(cl)` rewrites `Attribute.type` IN PLACE, one attribute after the other.  A thread that first-uses the class
while another thread is inside that loop sees a half-resolved class: some `Attribute.type` are real types already, the others still
strings.  Whatever it then generates is cached for every later call.  The schedule is forced deterministically: `resolve_types` as
imported by the cattrs modules is wrapped so that, for the first thread only, the first k attributes are resolved exactly the way
attrs does it (`object.__setattr__(attribute, "type", hint)`), then the second thread runs its whole first use, then the first
thread finishes with the real `resolve_types`.  Oracle: both threads' results, and the results of later calls on the same converter,
equal those of the same calls on a fresh converter used sequentially (on a freshly defined copy of the classes)."""
from __future__ import annotations

import sys
import threading
import types
import typing

import attrs

from common import Verdict

SRC = '''
from __future__ import annotations
import enum
from typing import Dict, List, Optional
import attrs

class Colour(enum.Enum):
    RED = "r"
    BLUE = "b"

@attrs.define
class Leaf:
    n: int
    c: Colour

{classes}
'''

SHAPES = {
    "leaf list opt": "@attrs.define\nclass Top:\n    name: str\n    leaf: Leaf\n    leaves: List[Leaf]\n    maybe: Optional[Leaf] = None\n",
    "enum first": "@attrs.define\nclass Top:\n    c: Colour\n    leaf: Leaf\n    by: Dict[str, Leaf]\n",
    "recursive": "@attrs.define\nclass Top:\n    n: int\n    leaf: Leaf\n    kids: List[Top] = attrs.Factory(list)\n",
    "frozen": "@attrs.frozen\nclass Top:\n    leaf: Leaf\n    c: Colour\n    n: int = 0\n",
}


def fresh(shape, tag):
    mod = types.ModuleType(f"pep563_{tag}")
    sys.modules[mod.__name__] = mod
    exec(compile(SRC.format(classes=SHAPES[shape]), mod.__name__, "exec"), mod.__dict__)
    return mod


def value(mod, shape):
    L, C = mod.Leaf, mod.Colour
    if shape == "leaf list opt":
        return mod.Top("t", L(1, C.RED), [L(2, C.BLUE)], L(3, C.RED))
    if shape == "enum first":
        return mod.Top(C.BLUE, L(1, C.RED), {"k": L(2, C.BLUE)})
    if shape == "recursive":
        return mod.Top(1, L(1, C.RED), [mod.Top(2, L(2, C.BLUE), [])])
    return mod.Top(L(1, C.RED), C.BLUE, 4)


def same(a, b):
    """equality across two copies of the same class definitions: compare by repr (attrs / enum reprs carry every field)"""
    return repr(a) == repr(b)


class ResolveGate:
    """wraps resolve_types in every loaded cattrs module"""

    def __init__(self, k):
        self.k = k
        self.first = None
        self.mid = threading.Event()        # thread A is mid-resolve
        self.go_on = threading.Event()      # thread B has finished its first use
        self.saved = []
        self.lock = threading.Lock()
        self.hits = 0

    def wrapper(self, cl, *a, **kw):
        with self.lock:
            is_first = self.first is None
            if is_first:
                self.first = threading.current_thread()
        if not is_first or a or kw:
            return attrs.resolve_types(cl, *a, **kw)
        self.hits += 1
        hints = typing.get_type_hints(cl)
        for fld in list(attrs.fields(cl))[: self.k]:
            if fld.name in hints:
                object.__setattr__(fld, "type", hints[fld.name])       # what attrs.resolve_types does, attribute by attribute
        self.mid.set()
        self.go_on.wait(20)
        return attrs.resolve_types(cl)

    def __enter__(self):
        for name, mod in list(sys.modules.items()):
            if name.split(".")[0] == "cattrs" and getattr(mod, "resolve_types", None) is attrs.resolve_types:
                self.saved.append(mod)
                mod.resolve_types = self.wrapper
        return self

    def __exit__(self, *exc):
        for mod in self.saved:
            mod.resolve_types = attrs.resolve_types


def pep563_schedule_battery(v: Verdict):
    from cattrs import Converter
    hist = {"schedules": 0, "gate_reached": 0, "ops": {}}
    ops = {"unstructure": lambda c, mod, x, u: c.unstructure(x),
           "structure": lambda c, mod, x, u: c.structure(u, mod.Top),
           "unstructure as": lambda c, mod, x, u: c.unstructure(x, unstructure_as=mod.Top)}
    n = 0
    for shape in SHAPES:
        for opa in ops:
            for opb in ops:
                for k in (1, 2):
                    for dv in (True, False):
                        n += 1
                        # the sequential reference, on its own copy of the classes
                        rmod = fresh(shape, f"ref{n}")
                        rx = value(rmod, shape)
                        rc = Converter(detailed_validation=dv)
                        ru = rc.unstructure(rx)
                        ref = {"A": ops[opa](rc, rmod, rx, ru), "B": ops[opb](rc, rmod, rx, ru)}
                        ref_later = (rc.unstructure(rx), rc.structure(ru, rmod.Top))
                        # the forced schedule
                        mod = fresh(shape, f"run{n}")
                        x = value(mod, shape)
                        conv = Converter(detailed_validation=dv)
                        got, err = {}, {}
                        with ResolveGate(k) as gate:
                            def run(tag, op):
                                try:
                                    got[tag] = ops[op](conv, mod, x, ru)
                                except BaseException as e:      # noqa
                                    err[tag] = repr(e)[:200]
                            ta = threading.Thread(target=run, args=("A", opa), daemon=True)
                            ta.start()
                            reached = gate.mid.wait(5)
                            tb = threading.Thread(target=run, args=("B", opb), daemon=True)
                            tb.start()
                            tb.join(20)
                            gate.go_on.set()
                            ta.join(20)
                        hist["schedules"] += 1
                        hist["gate_reached"] += bool(reached)
                        hist["ops"][f"{opa} | {opb}"] = hist["ops"].get(f"{opa} | {opb}", 0) + 1
                        desc = {"lane": "THR/C19 PEP 563 schedule", "class": SHAPES[shape], "thread_A": opa, "thread_B": opb,
                                "schedule": f"A resolves the first {k} annotation(s) of Top, B runs its whole call, A finishes",
                                "detailed_validation": dv, "value": repr(rx), "payload": repr(ru)}
                        v.count(repr(("pep563", shape, opa, opb, k, dv)), True)
                        if err:
                            v.violation("a thread raised an error under a forced schedule that the sequential execution does not raise", {**desc, "errors": err})
                            continue
                        bad = [t for t in ("A", "B") if not same(got.get(t), ref[t])]
                        if bad:
                            v.violation("concurrent first use of a class with string annotations returned something else than the sequential execution",
                                        {**desc, "thread": bad[0], "got": repr(got.get(bad[0]))[:300], "sequential": repr(ref[bad[0]])[:300]})
                            continue
                        try:
                            later = (conv.unstructure(x), conv.structure(ru, mod.Top))
                        except BaseException as e:      # noqa
                            v.violation("a call after the concurrent first use raised (a hook generated from half-resolved annotations was cached)", {**desc, "raised": repr(e)[:200]})
                            continue
                        if not (same(later[0], ref_later[0]) and same(later[1], ref_later[1])):
                            v.violation("calls after the concurrent first use differ from the sequential execution (a hook generated from half-resolved annotations was cached)",
                                        {**desc, "got": repr(later)[:300], "sequential": repr(ref_later)[:300]})
                        for m_ in (rmod, mod):
                            sys.modules.pop(m_.__name__, None)
    v.coverage["pep563_schedule_battery"] = hist


# ------------------------------------------------------------------------------------ one preemption at every line of a first use

PRE_SRC = '''
import dataclasses, enum
from typing import Dict, List, Literal, Optional, Union
import attrs

class Colour(enum.Enum):
    RED = "r"
    BLUE = "b"

@attrs.define
class Cat:
    name: str
    lives: int
    colour: Colour
    toys: List[str] = attrs.Factory(list)

@attrs.define
class Dog:
    name: str
    tricks: List[str]
    age: int = 0

@dataclasses.dataclass
class DCat:
    name: str
    lives: int
    kind: Literal["cat"] = "cat"

@dataclasses.dataclass
class DDog:
    name: str
    tricks: List[str]
    kind: Literal["dog"] = "dog"

@attrs.define
class Shelter:
    pets: List[Union[Cat, Dog]]
    by_name: Dict[str, Union[DCat, DDog]]
    star: Optional[Cat] = None
'''


def _pre_fresh(tag):
    mod = types.ModuleType(f"preempt_{tag}")
    sys.modules[mod.__name__] = mod
    exec(compile(PRE_SRC, mod.__name__, "exec", dont_inherit=True), mod.__dict__)
    return mod


def _pre_scenarios():
    def shelter(m):
        return m.Shelter([m.Cat("c", 9, m.Colour.RED, ["t"]), m.Dog("d", ["sit"], 3)], {"x": m.DCat("dc", 7), "y": m.DDog("dd", ["roll"])}, m.Cat("s", 1, m.Colour.BLUE))
    return [
        ("structure a Dog payload as Union[Cat, Dog]", lambda c, m: c.structure({"name": "d", "tricks": ["sit"], "age": 2}, Union_(m.Cat, m.Dog))),
        ("structure a DCat payload as Union[DCat, DDog]", lambda c, m: c.structure({"name": "dc", "lives": 7, "kind": "cat"}, Union_(m.DCat, m.DDog))),
        ("unstructure a Shelter", lambda c, m: c.unstructure(shelter(m))),
        ("structure a Shelter", lambda c, m: c.structure({"pets": [{"name": "c", "lives": 9, "colour": "r", "toys": []}, {"name": "d", "tricks": []}],
                                                             "by_name": {"x": {"name": "dc", "lives": 1, "kind": "cat"}}, "star": None}, m.Shelter)),
    ]


def Union_(*ts):
    return typing.Union[ts]


def preemption_battery(v: Verdict, n_points: int):
    """Two threads make the SAME first-use call on one fresh converter (fresh class objects every time, so nothing cached per class or
    per process is left over); thread A is preempted ONCE, after its k-th executed line inside cattrs code (sys.settrace in that thread
    only), thread B then runs its whole call, A resumes.  k sweeps over the lines A executes (evenly spaced sample + both ends).  Every
    result -- A's, B's, and a later call's -- equals what the sequential execution returns; no call raises."""
    from cattrs import Converter
    hist = {"scenarios": 0, "preemption_points": 0, "lines_in_first_use": {}}
    tag = [0]

    def in_cattrs(frame):
        fn = frame.f_code.co_filename
        return "cattrs" in fn

    def run_traced(op, conv, mod, k, mid, go_on, box):
        count = [0]

        def tracer(frame, event, arg):
            if not in_cattrs(frame):
                return None if event == "call" else tracer

            def local(frame, event, arg):
                if event == "line":
                    count[0] += 1
                    if k is not None and count[0] == k:
                        mid.set()
                        go_on.wait(10)
                return local
            return local
        sys.settrace(tracer)
        try:
            box["A"] = ("ok", repr(op(conv, mod)))
        except BaseException as e:      # noqa
            box["A"] = ("err", type(e).__name__ + ": " + str(e)[:80])
        finally:
            sys.settrace(None)
            box["lines"] = count[0]
            mid.set()
    for sname, op in _pre_scenarios():
        hist["scenarios"] += 1
        # sequential reference + number of lines of a first use
        tag[0] += 1
        rmod = _pre_fresh(f"r{tag[0]}")
        rconv = Converter()
        box = {}
        run_traced(op, rconv, rmod, None, threading.Event(), threading.Event(), box)
        total = box["lines"]
        ref = box["A"]
        ref2 = ("ok", repr(op(rconv, rmod)))
        sys.modules.pop(rmod.__name__, None)
        hist["lines_in_first_use"][sname] = total
        if ref[0] != "ok" or ref2 != ref:
            v.violation("the sequential reference run of a first use failed or is not repeatable", {"lane": "THR/C19 preemption", "scenario": sname, "first": ref, "second": ref2})
            continue
        step = max(1, total // max(1, n_points))
        points = sorted(set(list(range(1, total + 1, step)) + [1, 2, total - 1, total]))
        for k in points:
            if k < 1 or k > total:
                continue
            tag[0] += 1
            mod = _pre_fresh(f"p{tag[0]}")
            conv = Converter()
            mid, go_on, box = threading.Event(), threading.Event(), {}
            ta = threading.Thread(target=run_traced, args=(op, conv, mod, k, mid, go_on, box), daemon=True)
            ta.start()
            mid.wait(20)

            def run_b():
                try:
                    box["B"] = ("ok", repr(op(conv, mod)))
                except BaseException as e:      # noqa
                    box["B"] = ("err", type(e).__name__ + ": " + str(e)[:80])
            tb = threading.Thread(target=run_b, daemon=True)
            tb.start()
            tb.join(20)
            go_on.set()
            ta.join(20)
            hist["preemption_points"] += 1
            v.count(repr(("preempt", sname, k)), True)
            try:
                later = ("ok", repr(op(conv, mod)))
            except BaseException as e:      # noqa
                later = ("err", type(e).__name__ + ": " + str(e)[:80])
            sys.modules.pop(mod.__name__, None)
            norm = lambda r: (r[0], r[1].replace(mod.__name__, "M")) if r else r
            want = (ref[0], ref[1].replace(rmod.__name__, "M"))
            got = {"A": norm(box.get("A")), "B": norm(box.get("B")), "later": norm(later)}
            bad = [t for t, r in got.items() if r != want]
            if bad:
                v.violation("concurrent first use returned something else than the sequential execution (or raised)",
                            {"lane": "THR/C19 preemption", "scenario": sname, "schedule": f"thread A preempted after line {k} of {total} executed inside cattrs; thread B runs the same call to completion; A resumes",
                             "differs": bad[0], "got": repr(got[bad[0]])[:300], "sequential": repr(want)[:300]})
                break
    v.coverage["preemption_battery"] = hist
