"""GEN lane: generic classes vs their monomorphised copies (C17).
No `from __future__ import annotations` here: cattrs reads the annotations of the classes built below."""
import dataclasses
import inspect
import random
import re
import typing
from typing import Annotated, Dict, Generic, List, Optional, Tuple, TypeVar

import attrs

from cattrs import BaseConverter, Converter
from cattrs.errors import StructureHandlerNotFoundError
from common import Verdict, parse_coq_value, run_cases_file
from lane_tpl import Interner

T = TypeVar("T")
U = TypeVar("U")
T2 = TypeVar("T")          # a second TypeVar object with the same name (finding F14 shapes)


@attrs.define
class Inner(Generic[T]):
    v: T


@attrs.define
class PBase:
    x: int


@attrs.define
class PDerived(PBase):
    y: int = 0


SHAPES = [
    ("bare", lambda a, b: a),
    ("list", lambda a, b: List[a]),
    ("optional", lambda a, b: Optional[a]),
    ("dict", lambda a, b: Dict[str, a]),
    ("tuple2", lambda a, b: Tuple[a, b]),
    ("list_optional", lambda a, b: List[Optional[a]]),
    ("annotated_container", lambda a, b: Annotated[List[a], "m"]),
    ("list_annotated", lambda a, b: List[Annotated[a, "m"]]),
    ("inner", lambda a, b: Inner[a]),
    ("builtin_list", lambda a, b: list[a]),
    ("concrete", lambda a, b: int),
    ("top_annotated", lambda a, b: Annotated[a, "m"]),        # finding F25
]
# (no Optional[...] among the arguments: typing flattens Optional[Optional[X]], which is typing's business, not cattrs')
ARGS = [int, str, float, List[int], Dict[str, int], Inner[int], PBase, PBase]


def subst(t, env):
    """substitution by TypeVar identity on real typing objects (the monomorphised annotation)"""
    if isinstance(t, TypeVar):
        return env.get(t, t)
    if typing.get_origin(t) is Annotated:
        return Annotated[(subst(t.__origin__, env), *t.__metadata__)]
    args = typing.get_args(t)
    if not args:
        return t
    new = tuple(subst(a, env) for a in args)
    if new == args:
        return t
    origin = typing.get_origin(t)
    if origin is typing.Union:
        return typing.Union[new]
    if hasattr(t, "copy_with"):
        return t.copy_with(new)
    return origin[new if len(new) > 1 else new[0]]


def sample_value(rng, t):
    """a value of concrete type t"""
    if t is int:
        return rng.randrange(0, 50)
    if t is str:
        return rng.choice(["a", "b", "xyz"])
    if t is float:
        return rng.choice([0.5, 1.25])
    if t is PBase:
        # a subclass instance where the declared type is the base: dispatch must go by the DECLARED (bound) type
        return PBase(rng.randrange(5)) if rng.random() < 0.4 else PDerived(rng.randrange(5), rng.randrange(5, 9))
    o = typing.get_origin(t)
    a = typing.get_args(t)
    if o is Annotated:
        return sample_value(rng, a[0])
    if o in (list, List):
        return [sample_value(rng, a[0]) for _ in range(rng.randint(0, 2))]
    if o is typing.Union:
        return None if rng.random() < 0.3 else sample_value(rng, [x for x in a if x is not type(None)][0])
    if o in (dict, Dict):
        return {k: sample_value(rng, a[1]) for k in rng.sample(["k1", "k2"], rng.randint(0, 2))}
    if o in (tuple, Tuple):
        return tuple(sample_value(rng, x) for x in a)
    if o is Inner:
        return Inner(sample_value(rng, a[0]))
    raise ValueError(t)


class Enc:
    def __init__(self):
        self.intern = Interner()

    def __call__(self, t):
        i = self.intern
        if isinstance(t, TypeVar):
            return f"(GVar {i(('tv', id(t)))}%N {i(('name', t.__name__))}%N)"
        if typing.get_origin(t) is Annotated:
            return f"(GAnnot {self(t.__origin__)} {i(('meta', repr(t.__metadata__)))}%N)"
        args = typing.get_args(t)
        if args and typing.get_origin(t) is not typing.Literal:
            return f"(GApp {i(('ctor', repr(typing.get_origin(t))))}%N [" + "; ".join(self(a) for a in args) + "])"
        if hasattr(t, "__name__"):
            return f"(GCls {i(('name', t.__name__))}%N)"
        return f"(GOpaque {i(('opq', repr(t)))}%N)"


def build_generic(rng, idx, kind, params, field_shapes, base=None):
    ann = {}
    for j, (sname, mk) in enumerate(field_shapes):
        a = params[0]
        b = params[1] if len(params) > 1 else params[0]
        ann[f"f{j}"] = mk(a, b)
    name = f"G{idx}"
    bases = ((base,) if base is not None else ()) + (Generic[tuple(params)],)
    import types as _types
    cl = _types.new_class(name, bases, {}, lambda ns: ns.update({"__annotations__": ann, "__module__": __name__}))
    if kind == "attrs":
        return attrs.define(cl), ann
    return dataclasses.dataclass(cl), ann


def build_clone(idx, kind, all_ann, env):
    ann = {k: subst(t, env) for k, t in all_ann.items()}
    cl = type(f"Clone{idx}", (), {"__annotations__": ann, "__module__": __name__})
    return (attrs.define(cl) if kind == "attrs" else dataclasses.dataclass(cl)), ann


def resolved_types(hook):
    """the annotation cattrs resolved for each attribute: the __c_type_<name> defaults of the generated hook"""
    out = {}
    try:
        for n, p in inspect.signature(hook).parameters.items():
            if n.startswith("__c_type_"):
                out[n[len("__c_type_"):]] = p.default
    except (TypeError, ValueError):
        pass
    return out


def fields_of(inst):
    if attrs.has(type(inst)) and not dataclasses.is_dataclass(inst):
        return {a.name: getattr(inst, a.name) for a in attrs.fields(type(inst))}
    return {f.name: getattr(inst, f.name) for f in dataclasses.fields(inst)}


def norm(v):
    if isinstance(v, Inner):
        return ("Inner", norm(v.v))
    if isinstance(v, list):
        return [norm(x) for x in v]
    if isinstance(v, tuple):
        return tuple(norm(x) for x in v)
    if isinstance(v, dict):
        return {k: norm(x) for k, x in v.items()}
    return v


def outcome(f):
    try:
        return ("ok", f())
    except Exception as e:
        return ("err", type(e).__name__)


def inherit_battery(v, rng, n, hist):
    """Non-subscripted subclasses of a parametrised generic base (class Child(Parent[X])): the inherited attributes
    are bound through __orig_bases__; compared with the hand-substituted plain class, both directions."""
    import types as _types
    hist["inherit_classes"] = 0
    hist["inherit_comparisons"] = 0
    for ci in range(n):
        kind = rng.choice(["attrs", "dataclass"])
        shapes = [rng.choice(SHAPES[:6]) for _ in range(rng.randint(1, 3))]
        arg = rng.choice([PBase, PBase, int, str, List[PBase]])
        pann = {f"p{j}": mk(T, T) for j, (_, mk) in enumerate(shapes)}
        P = _types.new_class(f"IP{v.seed}_{ci}", (Generic[T],), {}, lambda ns: ns.update({"__annotations__": dict(pann), "__module__": __name__}))
        P = attrs.define(P) if kind == "attrs" else dataclasses.dataclass(P)
        try:
            C = _types.new_class(f"IC{v.seed}_{ci}", (P[arg],), {}, lambda ns: ns.update({"__annotations__": {"b": str}, "__module__": __name__}))
            C = attrs.define(C) if kind == "attrs" else dataclasses.dataclass(C)
            Clone, clone_ann = build_clone(f"I{v.seed}_{ci}", kind, {**pann, "b": str}, {T: arg})
        except Exception:
            continue
        hist["inherit_classes"] += 1
        conv = Converter(detailed_validation=rng.random() < 0.5)
        desc = {"lane": "GEN/C17", "class": f"class {C.__name__}({P.__name__}[{arg!r}]) ({kind}), not subscripted itself",
                "inherited_fields": {k: repr(t) for k, t in pann.items()}}
        for _ in range(3):
            try:
                kw = {k: sample_value(rng, t) for k, t in clone_ann.items()}
                gi, ci_ = C(**kw), Clone(**kw)
            except Exception:
                continue
            hist["inherit_comparisons"] += 1
            a = outcome(lambda: conv.unstructure(gi, unstructure_as=C))
            b = outcome(lambda: conv.unstructure(ci_, unstructure_as=Clone))
            v.count(repr(("inherit", ci, repr(kw))), True)
            if a != b:
                v.violation("unstructuring a subclass of a parametrised base differs from unstructuring the monomorphised copy",
                            {**desc, "value": repr(gi), "generic": a, "clone": b})
                continue
            if a[0] != "ok":
                continue
            sa = outcome(lambda: norm(fields_of(conv.structure(a[1], C))))
            sb = outcome(lambda: norm(fields_of(conv.structure(a[1], Clone))))
            if sa != sb:
                v.violation("structuring as a subclass of a parametrised base differs from structuring as the monomorphised copy",
                            {**desc, "payload": a[1], "generic": sa, "clone": sb})


def check_c17(v: Verdict, n_classes):
    rng = random.Random(v.seed * 7919 + 17)
    enc = Enc()
    cases, meta = [], []
    hist = {"classes": 0, "attrs": 0, "dataclass": 0, "two_params": 0, "with_base": 0, "field_shapes": {}, "parametrisations": 0,
            "structure_comparisons": 0, "unstructure_comparisons": 0, "bad_payload_comparisons": 0, "unbound_checks": 0,
            "f25_hits": 0, "f26_hits": 0, "f14_hits": 0, "resolved_type_checks": 0}
    for ci in range(n_classes):
        kind = rng.choice(["attrs", "attrs", "dataclass"])
        nparams = rng.choice([1, 1, 2])
        params = [T, U][:nparams]
        shapes = [rng.choice(SHAPES[:-1]) for _ in range(rng.randint(1, 4))]
        if ci % 9 == 0:
            shapes.append(SHAPES[-1])                      # top-level Annotated[T, ...]: finding F25 stays visible
        base_mode = None
        base = None
        base_ann = {}
        base_env = None
        if rng.random() < 0.3 and kind == "attrs":
            base_mode = rng.choice(["concrete", "concrete", "child_typevar", "name_reuse"])
            if base_mode == "concrete":
                @attrs.define
                class Base(Generic[U]):
                    by: U
                    bl: List[U] = attrs.Factory(list)
                base, base_ann, base_env = Base[str], {"by": U, "bl": List[U]}, {U: str}
            elif base_mode == "child_typevar":
                @attrs.define
                class Base(Generic[U]):
                    by: U
                base, base_ann, base_env = Base[T], {"by": U}, None      # U := T := first argument (finding F26)
            else:
                @attrs.define
                class Base(Generic[T2]):
                    by: T2
                base, base_ann, base_env = Base[float], {"by": T2}, {T2: float}   # parameter also called "T" (finding F14)
        try:
            G, ann = build_generic(rng, f"{v.seed}_{ci}", kind, params, shapes, base)
        except Exception:
            continue
        hist["classes"] += 1
        hist[kind] += 1
        hist["two_params"] += nparams == 2
        hist["with_base"] += base is not None
        for sname, _ in shapes:
            hist["field_shapes"][sname] = hist["field_shapes"].get(sname, 0) + 1
        # generics are a Converter feature (BaseConverter only has a structure hook for generic attrs classes)
        conv = Converter(detailed_validation=rng.random() < 0.5)
        full = isinstance(conv, Converter)
        desc = {"class": f"{G.__name__}[{', '.join(p.__name__ for p in params)}] ({kind})", "fields": {k: repr(t) for k, t in ann.items()},
                "base": base_mode, "converter": type(conv).__name__}
        # two parametrisations used on the same converter, interleaved
        paramz = [tuple(rng.choice(ARGS) for _ in params) for _ in range(2)]
        clones = []
        for pi, args in enumerate(paramz):
            env = dict(zip(params, args))
            full_env = dict(env)
            if base_mode == "child_typevar":
                full_env[U] = args[0]
            elif base_env:
                full_env.update(base_env)
            all_ann = {**base_ann, **ann}
            Clone, clone_ann = build_clone(f"{v.seed}_{ci}_{pi}", kind, all_ann, full_env)
            clones.append((args, Clone, clone_ann, full_env))
        for round_ in range(2):
            for pi, (args, Clone, clone_ann, full_env) in enumerate(clones):
                hist["parametrisations"] += 1
                GA = G[args if len(args) > 1 else args[0]]
                rp0 = {"lane": "GEN/C17", **desc, "arguments": [repr(a) for a in args]}
                known = None
                if any(typing.get_origin(t) is Annotated for t in ann.values()):
                    known = ("F25", "an attribute annotated Annotated[T, ...] is not resolved")
                if base_mode == "child_typevar":
                    known = ("F26", "a base class parametrised by the child's TypeVar leaves its own parameter unbound")
                if base_mode == "name_reuse":
                    known = ("F14", "TypeVar name reuse between a class and its parametrised base")

                def mismatch(what, extra):
                    rp = {**rp0, **extra}
                    if known:
                        hist[known[0].lower() + "_hits"] += 1
                        v.finding(known[0], known[1], rp)
                    else:
                        v.violation(what, rp)
                # values
                try:
                    kw = {k: sample_value(rng, t) for k, t in clone_ann.items()}
                    gi, ci_ = G(**kw), Clone(**kw)
                except Exception:
                    continue
                # unstructure
                a = outcome(lambda: conv.unstructure(gi, unstructure_as=GA))
                b = outcome(lambda: conv.unstructure(ci_, unstructure_as=Clone))
                hist["unstructure_comparisons"] += 1
                if a != b:
                    mismatch("unstructuring as G[args] differs from unstructuring the monomorphised copy", {"generic": a, "clone": b})
                    continue
                if a[0] != "ok":
                    continue
                payload = a[1]
                # structure
                sa = outcome(lambda: norm(fields_of(conv.structure(payload, GA))))
                sb = outcome(lambda: norm(fields_of(conv.structure(payload, Clone))))
                hist["structure_comparisons"] += 1
                if sa != sb:
                    mismatch("structuring as G[args] differs from structuring as the monomorphised copy", {"payload": payload, "generic": sa, "clone": sb})
                # a payload with a wrong leaf: both must treat it alike
                if isinstance(payload, dict) and payload:
                    k0 = rng.choice(list(payload))
                    bad = dict(payload)
                    bad[k0] = rng.choice(["zz", [1, "q"], {"v": "zz"}, None])
                    ba = outcome(lambda: norm(fields_of(conv.structure(bad, GA))))
                    bb = outcome(lambda: norm(fields_of(conv.structure(bad, Clone))))
                    hist["bad_payload_comparisons"] += 1
                    if (ba[0] != bb[0] or (ba[0] == "ok" and ba != bb)) and not known:
                        v.violation("a corrupted payload is treated differently by G[args] and by the monomorphised copy",
                                    {**rp0, "payload": bad, "generic": ba, "clone": bb})
                # model: the annotation resolved for each attribute of the generic class itself (own parameters)
                if full and round_ == 0 and base_mode is None:
                    try:
                        rt = resolved_types(conv.get_structure_hook(GA))
                    except Exception:
                        rt = {}
                    pcoq = "[" + "; ".join(f"({enc.intern(('tv', id(p)))}%N, {enc.intern(('name', p.__name__))}%N)" for p in params) + "]"
                    acoq = "[" + "; ".join(enc(x) for x in args) + "]"
                    for fname, t in ann.items():
                        if fname in rt:
                            hist["resolved_type_checks"] += 1
                            cases.append(f"gty_eqb (resolve_field (zip_mapping {pcoq} {acoq} []) {enc(t)}) {enc(rt[fname])}")
                            meta.append({**rp0, "attribute": fname, "annotation": repr(t), "resolved_by_cattrs": repr(rt[fname])})
                v.count(repr((ci, pi, round_)), len(ann) >= 2)
        # an unbound parameter (no default) is refused rather than guessed
        hist["unbound_checks"] += 1
        if any(s != "concrete" for s, _ in shapes):
            r = outcome(lambda: conv.structure({k: 1 for k in ann}, G))
            if r[0] == "ok" and full:
                v.violation("structuring a generic class with an unbound type parameter was not refused", {"lane": "GEN/C17", **desc, "result": repr(r[1])})
        if len(v.samples) < 3:
            v.samples.append(desc)
    inherit_battery(v, rng, max(4, n_classes // 3), hist)
    pep696_battery(v, hist)
    pep696_chain_battery(v, hist)
    self_nesting_battery(v, hist)
    bad = []
    shard = 300
    for k in range(0, len(cases), shard):
        src = ("From V.Model Require Import Base Generics.\nDefinition cs : list bool := [\n" + ";\n".join(cases[k:k + shard]) + "\n].\n"
               "Fixpoint bad (k : nat) (l : list bool) : list nat := match l with [] => [] | b :: r => if b then bad (S k) r else k :: bad (S k) r end.\n"
               "Eval vm_compute in (bad 0 cs).\n")
        rc, out = run_cases_file(f"c17_{v.seed}_{k}", src)
        vals = parse_coq_value(out)
        if rc != 0 or not vals:
            v.obligation("correspondence:GEN/C17:coqc", False, out[-700:])
            return
        if vals[-1] != "[]":
            bad += [k + int(x) for x in re.findall(r"\d+", vals[-1])]
    v.obligation("correspondence:GEN/C17 (annotation resolved by the generator = model resolve_field, per attribute)", not bad,
                 "" if not bad else f"{len(bad)} of {len(cases)} disagree, first: {meta[bad[0]]}")
    v.coverage["input_distribution"] = hist


# ------------------------------------------------------------------------------------ PEP 696 TypeVar defaults

PEP696_SRC = '''import dataclasses, attrs
from typing import Any, Dict, Generic, List, Optional, TypedDict
from typing_extensions import TypeVar
@attrs.define
class Inner:
    a: int
    b: str = "x"
T = TypeVar("T")
S = TypeVar("S")
TD = TypeVar("TD", default={dflt})
{deco}
class G({bases}Generic[{params}]):
{body}
{deco}
class Mono{td_base}:
{mono_body}
'''


def pep696_battery(v: Verdict, hist):
    """systematic: a generic attrs class / dataclass / TypedDict whose parameter list MIXES plain TypeVars and TypeVars with a
    default (PEP 696), used WITHOUT type arguments: it must unstructure exactly like its monomorphised copy (defaulted parameters
    replaced by their defaults, plain ones left to the runtime class of the value), and with explicit arguments like the copy
    with those arguments -- for every position of the defaulted parameter in the list"""
    import sys
    import types as _types
    from cattrs import Converter
    n = 0
    shapes = {"p": "{T}", "tag": "{TD}", "items": "List[{T}]", "m": "Dict[str, {TD}]", "o": "Optional[{T}]"}
    for kind in ("attrs", "dataclass", "td"):
        for dflt, dval in (("str", "'s'"), ("int", "5"), ("Inner", "Inner(9)")):
            for params in ("T, TD", "T, S, TD"):
                deco = {"attrs": "@attrs.define", "dataclass": "@dataclasses.dataclass", "td": ""}[kind]
                body = "\n".join(f"    {nm}: " + sh.format(T="T", TD="TD") for nm, sh in shapes.items()) + ("\n    s: S" if "S" in params else "")
                mono = "\n".join(f"    {nm}: " + sh.format(T="Any", TD=dflt) for nm, sh in shapes.items()) + ("\n    s: Any" if "S" in params else "")
                src = PEP696_SRC.format(dflt=dflt, deco=deco, bases="TypedDict, " if kind == "td" else "", params=params, body=body, mono_body=mono,
                                        td_base="(TypedDict)" if kind == "td" else "")
                modname = f"verif_pep696_{kind}_{dflt}_{len(params)}"
                mod = _types.ModuleType(modname)
                sys.modules[modname] = mod
                try:
                    exec(compile(src, modname, "exec"), mod.__dict__)
                    Inner = mod.Inner
                    dv = eval(dval, mod.__dict__)
                    vals = {"p": Inner(1), "tag": dv, "items": [Inner(2), Inner(3)], "m": {"k": dv}, "o": Inner(4)}
                    if "S" in params:
                        vals["s"] = Inner(5)
                    mk = (lambda cl: dict(vals)) if kind == "td" else (lambda cl: cl(**vals))
                    for dvmode in (True, False):
                        conv = Converter(detailed_validation=dvmode)
                        conv.register_unstructure_hook(int, lambda x: x + 1000)      # makes "the int hook ran" visible
                        desc = {"lane": "GEN/C17 PEP 696 defaults", "kind": kind, "type_parameters": params, "default_of_TD": dflt, "detailed_validation": dvmode}
                        for how in ("unstructure(x)", "unstructure(x, unstructure_as=G)"):
                            if kind == "td" and how == "unstructure(x)":
                                continue          # (a TypedDict instance is a plain dict: no class to dispatch on)
                            n += 1
                            v.count(repr((desc, how)), True)
                            got = outcome(lambda: conv.unstructure(mk(mod.G)) if how == "unstructure(x)" else conv.unstructure(mk(mod.G), unstructure_as=mod.G))
                            want = outcome(lambda: conv.unstructure(mk(mod.Mono), unstructure_as=mod.Mono))
                            if got != want:
                                v.violation("a generic class with defaulted type parameters, used without arguments, is not unstructured like its monomorphised copy",
                                            {**desc, "call": how, "class_source": src, "got": repr(got)[:500], "monomorphised_copy": repr(want)[:500]})
                finally:
                    sys.modules.pop(modname, None)
    hist["pep696_cases"] = n


PEP696_CHAIN_SRC = '''import dataclasses, attrs
from typing import Any, Dict, Generic, List, Optional
from typing_extensions import TypeVar
@attrs.define
class Inner:
    a: int
    b: str = "x"
D = TypeVar("D", default={dflt})
{deco}
class WithDefault(Generic[D]):
    x: D
    xs: List[D]
{deco}
class Child(WithDefault):
    y: int
{deco}
class GrandChild(Child):
    z: int
{deco}
class MonoGrandChild:
    x: {dflt}
    xs: List[{dflt}]
    y: int
    z: int
'''


def pep696_chain_battery(v: Verdict, hist):
    """systematic: a generic class all of whose parameters have defaults (PEP 696), reached through PLAIN (unsubscripted) subclasses, one
    and two levels down: structured and unstructured like the monomorphised copy (parameters replaced by their defaults)"""
    import sys
    import types as _types
    from cattrs import Converter
    n = 0
    for kind in ("attrs", "dataclass"):
        for dflt, raw, want in (("str", 1, "1"), ("int", "7", 7), ("Inner", {"a": "3"}, None)):
            deco = {"attrs": "@attrs.define", "dataclass": "@dataclasses.dataclass"}[kind]
            src = PEP696_CHAIN_SRC.format(dflt=dflt, deco=deco)
            modname = f"verif_pep696c_{kind}_{dflt}"
            mod = _types.ModuleType(modname)
            sys.modules[modname] = mod
            try:
                exec(compile(src, modname, "exec"), mod.__dict__)
                payload = {"x": raw, "xs": [raw], "y": "2", "z": "3"}
                for dvmode in (True, False):
                    conv = Converter(detailed_validation=dvmode)
                    desc = {"lane": "GEN/C17 PEP 696 defaults through plain subclasses", "kind": kind, "default_of_D": dflt, "detailed_validation": dvmode, "class_source": src}
                    for cname, keys in (("WithDefault", ("x", "xs")), ("Child", ("x", "xs", "y")), ("GrandChild", ("x", "xs", "y", "z"))):
                        n += 1
                        v.count(repr((kind, dflt, dvmode, cname)), True)
                        cl = getattr(mod, cname)
                        p = {k: payload[k] for k in keys}
                        got = outcome(lambda: [getattr(conv.structure(dict(p), cl), k) for k in keys])
                        ref = outcome(lambda: [getattr(conv.structure(dict(payload), mod.MonoGrandChild), k) for k in keys])
                        if got != ref:
                            v.violation("a generic class with defaulted type parameters, reached through plain subclasses, is not structured like its monomorphised copy",
                                        {**desc, "class": cname, "payload": repr(p), "got": repr(got)[:400], "monomorphised_copy": repr(ref)[:400]})
                            continue
                        if got[0] == "ok":
                            inst = conv.structure(dict(p), cl)
                            u = outcome(lambda: conv.unstructure(inst))
                            mono = conv.structure(dict(payload), mod.MonoGrandChild)
                            uref = outcome(lambda: {k: x for k, x in conv.unstructure(mono).items() if k in keys})
                            if u != uref:
                                v.violation("a generic class with defaulted type parameters, reached through plain subclasses, is not unstructured like its monomorphised copy",
                                            {**desc, "class": cname, "got": repr(u)[:400], "monomorphised_copy": repr(uref)[:400]})
            finally:
                sys.modules.pop(modname, None)
    hist["pep696_chain_cases"] = n


# ------------------------------------------------------------------------------------ a generic class parametrised with itself

def self_nesting_battery(v: Verdict, hist):
    """"nested generics" where the argument is another parametrisation of the SAME generic class: G[G[X]], G[List[G[X]]],
    G[Dict[str, G[X]]], G[Optional[G[X]]], G[Tuple[G[X], int]], G[G[G[X]]] -- for generic attrs classes, dataclasses and TypedDicts, both
    validation modes, both directions, on a cold converter (the outer parametrisation is the first thing it sees) and on a warm one
    (the inner parametrisation was used before).  G[X] inside G[G[X]] is a different type, not a reference cycle.  Compared with the
    hand-substituted non-generic copies (one class per parametrisation)."""
    import enum
    from typing import TypedDict, Union

    class SK(enum.Enum):
        A = "a"
        B = "b"

    @attrs.define
    class GA(Generic[T]):
        item: T
        n: int = 0

    @dataclasses.dataclass
    class GD(Generic[T]):
        item: T
        n: int = 0

    class GT(TypedDict, Generic[T]):
        item: T
        n: int
    counter = [0]

    def clone_of(G, mono_arg):
        counter[0] += 1
        name = f"SelfNestClone{counter[0]}"
        if G is GA:
            return attrs.make_class(name, {"item": attrs.field(type=mono_arg), "n": attrs.field(type=int, default=0)})
        if G is GD:
            return dataclasses.make_dataclass(name, [("item", mono_arg), ("n", int, dataclasses.field(default=0))])
        return TypedDict(name, {"item": mono_arg, "n": int})

    def mono(t):
        o = typing.get_origin(t)
        if o in (GA, GD, GT):
            return clone_of(o, mono(typing.get_args(t)[0]))
        if o is list:
            return List[mono(typing.get_args(t)[0])]
        if o is dict:
            return Dict[str, mono(typing.get_args(t)[1])]
        if o is tuple:
            return Tuple[tuple(mono(a) for a in typing.get_args(t))]
        if o is Union:
            return Optional[mono([a for a in typing.get_args(t) if a is not type(None)][0])]
        return t

    def payload(t):
        o = typing.get_origin(t)
        if o in (GA, GD, GT):
            return {"item": payload(typing.get_args(t)[0]), "n": 3}
        if o is list:
            return [payload(typing.get_args(t)[0])]
        if o is dict:
            return {"k": payload(typing.get_args(t)[1])}
        if o is tuple:
            return [payload(a) for a in typing.get_args(t)]
        if o is Union:
            return payload([a for a in typing.get_args(t) if a is not type(None)][0])
        return {int: 5, str: "s", SK: "b"}[t]

    def nrm(x):
        if attrs.has(type(x)) or (dataclasses.is_dataclass(x) and not isinstance(x, type)):
            return {"<inst>": {k: nrm(val) for k, val in fields_of(x).items()}}
        if isinstance(x, dict):
            return {k: nrm(val) for k, val in x.items()}
        if isinstance(x, (list, tuple)):
            return [type(x).__name__] + [nrm(e) for e in x]
        return x
    hist["self_nesting"] = {"comparisons": 0, "kinds": {}, "orders": {"cold": 0, "warm": 0}}
    for G, gname in ((GA, "attrs"), (GD, "dataclass"), (GT, "TypedDict")):
        for leaf in (int, SK):
            nests = [("G[G[X]]", G[G[leaf]], G[leaf]), ("G[List[G[X]]]", G[List[G[leaf]]], G[leaf]), ("G[Dict[str, G[X]]]", G[Dict[str, G[leaf]]], G[leaf]),
                     ("G[Optional[G[X]]]", G[Optional[G[leaf]]], G[leaf]), ("G[Tuple[G[X], int]]", G[Tuple[G[leaf], int]], G[leaf]),
                     ("G[G[G[X]]]", G[G[G[leaf]]], G[G[leaf]]), ("G[G[str]] next to G[X]", G[G[str]], G[leaf])]
            for label, GA_, inner in nests:
                Clone = mono(GA_)
                p = payload(GA_)
                for dv in (True, False):
                    for order in ("cold", "warm"):
                        cg, cc = Converter(detailed_validation=dv), Converter(detailed_validation=dv)
                        if order == "warm":
                            outcome(lambda: cg.structure(payload(inner), inner))
                            outcome(lambda: cg.unstructure(cg.structure(payload(inner), inner), unstructure_as=inner))
                        desc = {"lane": "GEN/C17 self-nesting", "kind": gname, "type": f"{label} with X = {leaf.__name__}", "detailed_validation": dv,
                                "converter": "fresh" if order == "cold" else "the inner parametrisation was used before", "payload": repr(p)}
                        hist["self_nesting"]["comparisons"] += 1
                        hist["self_nesting"]["kinds"][gname] = hist["self_nesting"]["kinds"].get(gname, 0) + 1
                        hist["self_nesting"]["orders"][order] += 1
                        v.count(repr(("selfnest", desc)), True)
                        sg = outcome(lambda: cg.structure(p, GA_))
                        sc = outcome(lambda: cc.structure(p, Clone))
                        if (sg[0], nrm(sg[1]) if sg[0] == "ok" else sg[1]) != (sc[0], nrm(sc[1]) if sc[0] == "ok" else sc[1]):
                            v.violation("structuring as G[args] differs from structuring as the monomorphised copy",
                                        {**desc, "generic": repr(sg)[:300], "clone": repr(sc)[:300]})
                            continue
                        if sg[0] != "ok":
                            v.violation("a valid payload of a self-nested generic class is rejected (by the generic class and by its copy)", {**desc, "outcome": repr(sg)[:300]})
                            continue
                        ug = outcome(lambda: cg.unstructure(sg[1], unstructure_as=GA_))
                        uc = outcome(lambda: cc.unstructure(sc[1], unstructure_as=Clone))
                        if ug != uc or ug != ("ok", p if gname != "x" else p):
                            if ug == uc and _tuple_as_list(ug[1] if ug[0] == "ok" else None) == _tuple_as_list(p):
                                continue
                            v.violation("unstructuring as G[args] differs from unstructuring the monomorphised copy (or from the payload it was structured from)",
                                        {**desc, "generic": repr(ug)[:300], "clone": repr(uc)[:300]})


def _tuple_as_list(x):
    if isinstance(x, (list, tuple)):
        return [_tuple_as_list(e) for e in x]
    if isinstance(x, dict):
        return {k: _tuple_as_list(e) for k, e in x.items()}
    return x
