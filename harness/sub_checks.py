"""SUB lane: include_subclasses (C14), automatic disambiguation and the tagged-union strategy."""
from __future__ import annotations

import gc
import random
import re

import attrs
from typing import Dict, List

from cattrs import Converter
from cattrs.strategies import configure_tagged_union, include_subclasses
from common import Verdict, parse_coq_value, run_cases_file
from lane_tpl import Interner, cN, c_bool, c_list

FIELD_POOL = ["a", "b", "c", "d", "e", "f", "g", "h"]


def gen_tree(rng, uid):
    """A random class tree.  Returns (classes in preorder, parent index, own field specs)."""
    n = rng.randint(2, 7)
    parent = [None]
    for i in range(1, n):
        cand = [j for j in range(i) if depth(parent, j) < 3]
        parent.append(rng.choice(cand))
    own = []
    used = set()
    for i in range(n):
        k = rng.choice([0, 1, 1, 2]) if i else rng.choice([1, 2])
        names = []
        inherited = inherited_names(parent, own, i)
        for _ in range(k):
            cand = [f for f in FIELD_POOL if f not in inherited and f not in names]
            if not cand:
                break
            names.append(rng.choice(cand))
        own.append([(nm, rng.random() < 0.7) for nm in names])     # (name, required)
    # build real classes: required attributes must precede defaulted ones along the MRO: make everything kw_only
    classes = []
    for i in range(n):
        bases = (classes[parent[i]],) if parent[i] is not None else (object,)
        d = {nm: (attrs.field(type=int, kw_only=True) if req else attrs.field(type=int, default=0, kw_only=True)) for nm, req in own[i]}
        classes.append(attrs.make_class(f"T{uid}_{i}", d, bases=bases))
    # preorder as __subclasses__ would give it
    return classes, parent, own


def depth(parent, j):
    d = 0
    while parent[j] is not None:
        j = parent[j]
        d += 1
    return d


def inherited_names(parent, own, i):
    out = set()
    j = parent[i] if i < len(parent) else None
    while j is not None:
        out |= {nm for nm, _ in own[j]}
        j = parent[j]
    return out


def all_fields(parent, own, i):
    chain = []
    j = i
    while j is not None:
        chain.append(j)
        j = parent[j]
    out = []
    for j in reversed(chain):
        out += own[j]
    return out


def check_c14(v: Verdict, t1_summary, n_trees):
    rng = random.Random(v.seed * 7919 + 14)
    skip = bool((t1_summary.get("disambig") or {}).get("skip_noninit", True))
    sub_flags = {"transitive": True, "anc_first": True, **(t1_summary.get("subclasses") or {})}
    intern = Interner()
    cases, meta = [], []
    hist = {"trees": 0, "auto_accepted": 0, "auto_refused": 0, "tagged": 0, "pairs_checked": 0, "forbid": 0, "fieldless_subclasses": 0,
            "with_subclasses_arg": 0, "f16_hits": 0, "model_success_mismatch_order_dependent": 0}
    for ti in range(n_trees):
        classes, parent, own = gen_tree(rng, f"{v.seed}_{ti}")
        n = len(classes)
        hist["trees"] += 1
        hist["fieldless_subclasses"] += sum(1 for i in range(1, n) if not own[i])
        forbid = rng.random() < 0.4
        dv = rng.random() < 0.5
        hist["forbid"] += forbid
        use_arg = rng.random() < 0.35
        hist["with_subclasses_arg"] += use_arg
        # an explicit `subclasses` tuple: all of them in a random order, or (half of the time) a proper subset -- possibly skipping
        # an intermediate class, so that a listed class has listed descendants but no listed direct child
        configured = list(range(n))
        if use_arg and n > 2 and rng.random() < 0.5:
            configured = [0] + sorted(rng.sample(range(1, n), rng.randint(1, n - 2)))
            hist["partial_subclasses_arg"] = hist.get("partial_subclasses_arg", 0) + 1
        partial = len(configured) < n
        desc = {"subclasses_argument": ([classes[i].__name__ for i in configured[1:]] if use_arg else None),
                "tree": [f"{classes[i].__name__}(parent={classes[parent[i]].__name__ if parent[i] is not None else None}, own={own[i]})" for i in range(n)],
                "forbid_extra_keys": forbid, "detailed_validation": dv}
        insts = []
        for i in range(n):
            kw = {nm: rng.randrange(1, 30) for nm, req in all_fields(parent, own, i) if req or rng.random() < 0.6}
            insts.append(classes[i](**kw))
        for strategy in ("auto", "tagged"):
            conv = Converter(forbid_extra_keys=forbid, detailed_validation=dv)
            gc.collect()
            kwargs = {}
            if use_arg:
                subs = [classes[i] for i in configured[1:]]
                rng.shuffle(subs)
                kwargs["subclasses"] = tuple(subs)
            if strategy == "tagged":
                kwargs["union_strategy"] = configure_tagged_union
            try:
                include_subclasses(classes[0], conv, **kwargs)
                accepted = True
            except Exception as e:
                accepted = False
                err = repr(e)
            if strategy == "auto" and not partial:
                hist["auto_accepted" if accepted else "auto_refused"] += 1
                # ---- model: is a disambiguator available at every node / where does each payload land
                cl_coq = c_list("{| dc_id := %s; dc_fields := %s |}" % (cN(i + 1), c_list(
                    "{| df_name := %s; df_required := %s; df_init := true; df_lit := None |}" % (cN(intern(nm)), c_bool(req))
                    for nm, req in all_fields(parent, own, i))) for i in range(n))
                desc_pairs = [(x + 1, k + 1) for x in range(n) for k in range(n) if issubclass(classes[x], classes[k])]
                isd = "(fun x k => existsb (fun p => N.eqb (fst p) x && N.eqb (snd p) k) [" + "; ".join(f"({x}%N, {k}%N)" for x, k in desc_pairs) + "])"
                cases.append(("ok", f"forallb (node_ok (fun l => l) (fun l => l) {c_bool(skip)} {cl_coq} {isd}) [{'; '.join(f'{i+1}%N' for i in range(n))}]", accepted,
                              {**desc, "strategy": strategy, "check": "accepted", "observed": accepted, "tree_id": ti}))
            elif strategy == "tagged":
                hist["tagged"] += 1
            if not accepted:
                continue
            tagged_obs = []
            for k in configured:
                for x in configured:
                    if not issubclass(classes[x], classes[k]):
                        continue
                    hist["pairs_checked"] += 1
                    inst = insts[x]
                    rp = {"lane": "SUB/C14", **desc, "strategy": strategy, "structure_as": classes[k].__name__, "instance": repr(inst)}
                    try:
                        payload = conv.unstructure(inst, unstructure_as=classes[k])
                        back = conv.structure(payload, classes[k])
                    except Exception as e:
                        rp["error"] = repr(e)
                        if strategy == "tagged":
                            try:
                                tagged_obs.append((k, x, conv.unstructure(inst, unstructure_as=classes[k]), 0))
                            except Exception:
                                pass
                        leaf = not any(j != k and issubclass(classes[j], classes[k]) for j in configured)
                        if strategy == "tagged" and forbid and leaf and "ForbiddenExtraKeysError" in repr(e) + repr(getattr(e, "exceptions", "")):
                            hist["f16_hits"] += 1
                            v.finding("F16", "leaf class under the tagged-union strategy + forbid_extra_keys rejects the tag its unstructure hook adds", rp)
                        else:
                            v.violation("base-typed round trip raised after include_subclasses", rp)
                        continue
                    if type(back) is not type(inst) or back != inst:
                        rp["payload"], rp["back"] = payload, repr(back)
                        v.violation("base-typed round trip lost the exact subclass or its attributes", rp)
                    if strategy == "tagged":
                        tagged_obs.append((k, x, payload, classes.index(type(back)) + 1))
                    if strategy == "auto" and not partial:
                        keys = c_list(cN(intern(kk)) for kk in payload)
                        cases.append(("res", f"auto_resolve (fun l => l) (fun l => l) {c_bool(skip)} {cl_coq} {isd} 4 {k+1}%N {keys}", classes.index(type(back)) + 1,
                                      {**desc, "strategy": strategy, "check": "resolve", "structure_as": classes[k].__name__, "payload": payload, "observed": type(back).__name__, "tree_id": ti}))
                    v.count(repr((ti, strategy, k, x)), n >= 3)
            if strategy == "tagged" and tagged_obs:
                # ---- model of the two-pass registration (Model/SubUnion.v): payload emitted, and the class whose first-pass hook runs
                order = ([0] + [classes.index(c) for c in kwargs["subclasses"]]) if "subclasses" in kwargs else list(range(n))
                isd = "(fun x k => existsb (fun p => N.eqb (fst p) x && N.eqb (snd p) k) [" + "; ".join(
                    f"({x + 1}%N, {k + 1}%N)" for x in range(n) for k in range(n) if issubclass(classes[x], classes[k])) + "])"
                isc = "(fun x k => existsb (fun p => N.eqb (fst p) x && N.eqb (snd p) k) [" + "; ".join(
                    f"({x + 1}%N, {parent[x] + 1}%N)" for x in range(n) if parent[x] is not None) + "])"
                flds = "(fun c => " + " ".join(f"if N.eqb c {i + 1}%N then {c_list(cN(intern(nm)) for nm, _ in all_fields(parent, own, i))} else" for i in range(n)) + " [])"
                tn = cN(intern("_type"))
                hd = (f"N {c_list(cN(i + 1) for i in order)} {isd} {isc} (fun c => (200000 + c)%N) {tn} {c_bool(forbid)}")
                for k, x, payload, got_cls in tagged_obs:
                    own_d = [(kk, vv) for kk, vv in payload.items() if kk != "_type"]
                    own_coq = c_list(f"({cN(intern(kk))}, {vv}%N)" for kk, vv in own_d)
                    pay_coq = c_list(f"({cN(intern(kk))}, {(vv if isinstance(vv, int) else 200000 + 1 + [c.__name__ for c in classes].index(vv))}%N)" for kk, vv in payload.items())
                    mu = f"un_sub {hd} {flds} {c_bool(sub_flags['transitive'])} {k + 1}%N {x + 1}%N {own_coq}"
                    cases.append(("raw", f"(match {mu} with Ok d => if pay_eqb d {pay_coq} then 1%N else 0%N | _ => 0%N end)", 1,
                                  {**desc, "strategy": strategy, "check": "union-strategy payload", "structure_as": classes[k].__name__, "instance_class": classes[x].__name__, "payload": payload}))
                    ms = (f"st_sub N N.eqb {c_list(cN(i + 1) for i in order)} {isd} {isc} (fun c => (200000 + c)%N) {tn} {c_bool(forbid)} "
                          f"{c_bool(sub_flags['transitive'])} {c_bool(sub_flags['anc_first'])} {k + 1}%N {pay_coq}")
                    cases.append(("raw", f"(match {ms} with Ok (c, d) => if {c_bool(forbid)} && mem_N {tn} (keys d) then 0%N else c | _ => 0%N end)", got_cls,
                                  {**desc, "strategy": strategy, "check": "union-strategy class reached", "structure_as": classes[k].__name__, "payload": payload,
                                   "observed": (classes[got_cls - 1].__name__ if got_cls else "raised")}))
        if len(v.samples) < 3:
            v.samples.append(desc)
    c14_order_battery(v, hist)
    c14_overrides_battery(v, hist)
    c14_nested_battery(v, hist)
    c14_literal_battery(v, hist)
    c14_collection_member_battery(v, hist)
    # the model's acceptance is evaluated for the tree's own order; the real union is built from a set (hash order),
    # and acceptance can depend on the order (finding F23 of C12): such mismatches are counted, not compared
    texts, metas = [], []
    for kind, term, obs, m in cases:
        if kind == "ok":
            texts.append(f"(if {term} then 1%N else 0%N, {1 if obs else 0}%N, true)")
        elif kind == "raw":
            texts.append(f"({term}, {obs}%N, false)")
        else:
            texts.append(f"(match {term} with Ok c => c | _ => 0%N end, {obs}%N, false)")
        metas.append(m)
    bad = []
    soft = 0
    soft_trees = set()        # trees whose ACCEPTANCE differs between the model's member order and the real (hash) order: finding F23
    shard = 250
    for k in range(0, len(texts), shard):
        src = ("From V.Model Require Import Base Disambig Subclasses Tagged SubUnion.\n"
               "Definition pay_eqb (a b : list (N * N)) : bool := Nat.eqb (length a) (length b) && forallb (fun kv => match assoc b (fst kv) with Some x => N.eqb x (snd kv) | None => false end) a.\n"
               "Definition cs : list (N * N * bool) := [\n" + ";\n".join(texts[k:k + shard]) + "\n].\n"
               "Fixpoint bad (k : nat) (l : list (N * N * bool)) : list nat := match l with [] => [] | (a, b, _) :: r => if N.eqb a b then bad (S k) r else k :: bad (S k) r end.\n"
               "Eval vm_compute in (bad 0 cs).\n")
        rc, out = run_cases_file(f"c14_{v.seed}_{k}", src)
        vals = parse_coq_value(out)
        if rc != 0 or not vals:
            v.obligation("correspondence:SUB/C14:coqc", False, out[-700:])
            return
        if vals[-1] != "[]":
            for x in re.findall(r"\d+", vals[-1]):
                idx = k + int(x)
                if metas[idx]["check"] == "accepted":
                    soft += 1
                    soft_trees.add(metas[idx].get("tree_id"))
                else:
                    bad.append(idx)
    # where the model (evaluated for the tree's own order) could not build a disambiguator but the implementation (set order) could,
    # the model has no answer for that tree's payloads either: those follow-up mismatches are the same order dependence, not new ones
    bad = [i for i in bad if not (metas[i].get("check") == "resolve" and metas[i].get("tree_id") in soft_trees)]
    hist["model_success_mismatch_order_dependent"] = soft
    v.obligation("correspondence:SUB/C14 (automatic variant: the class every payload is handed to; union strategy: payload emitted and class whose first-pass hook runs; model = implementation)", not bad,
                 "" if not bad else f"{len(bad)} disagree, first: {metas[bad[0]]}")
    v.coverage["input_distribution"] = hist


def c14_order_battery(v: Verdict, hist):
    """systematic (no randomness): the chain Root > Mid > Leaf plus a sibling Other, every non-empty subset of the subclasses in every
    order as the `subclasses` argument (and None), both strategies, forbid_extra_keys on/off, both validation modes: every configured
    (K, descendant instance) pair must round-trip to the exact class"""
    import itertools
    Root = attrs.make_class("ORoot", {"a": attrs.field(type=int, kw_only=True)})
    Mid = attrs.make_class("OMid", {"b": attrs.field(type=int, kw_only=True)}, bases=(Root,))
    Leaf = attrs.make_class("OLeaf", {"c": attrs.field(type=int, kw_only=True)}, bases=(Mid,))
    Other = attrs.make_class("OOther", {"d": attrs.field(type=int, kw_only=True)}, bases=(Root,))
    insts = {Root: Root(a=1), Mid: Mid(a=2, b=3), Leaf: Leaf(a=4, b=5, c=6), Other: Other(a=7, d=8)}
    args = [None]
    for k in (1, 2, 3):
        for sub in itertools.combinations((Mid, Leaf, Other), k):
            args += list(itertools.permutations(sub))
    n = 0
    for arg in args:
        configured = [Root] + (list(arg) if arg is not None else [Mid, Leaf, Other])
        for strategy in ("auto", "tagged"):
            for forbid in (False, True):
                for dv in (True, False):
                    conv = Converter(forbid_extra_keys=forbid, detailed_validation=dv)
                    gc.collect()
                    kwargs = {} if arg is None else {"subclasses": tuple(arg)}
                    if strategy == "tagged":
                        kwargs["union_strategy"] = configure_tagged_union
                    desc = {"lane": "SUB/C14 order battery", "subclasses_argument": None if arg is None else [c.__name__ for c in arg],
                            "strategy": strategy, "forbid_extra_keys": forbid, "detailed_validation": dv}
                    try:
                        include_subclasses(Root, conv, **kwargs)
                    except Exception as e:
                        v.violation("include_subclasses refused a tree whose classes all have a unique required attribute", {**desc, "error": repr(e)})
                        continue
                    for K in configured:
                        for X in configured:
                            if not issubclass(X, K):
                                continue
                            n += 1
                            rp = {**desc, "structure_as": K.__name__, "instance": repr(insts[X])}
                            v.count(repr(rp), True)
                            try:
                                payload = conv.unstructure(insts[X], unstructure_as=K)
                                back = conv.structure(payload, K)
                            except Exception as e:
                                leaf = not any(c is not K and issubclass(c, K) for c in configured)
                                if strategy == "tagged" and forbid and leaf and "ForbiddenExtraKeysError" in repr(e) + repr(getattr(e, "exceptions", "")):
                                    v.finding("F16", "leaf class under the tagged-union strategy + forbid_extra_keys rejects the tag its unstructure hook adds", {**rp, "error": repr(e)})
                                else:
                                    v.violation("base-typed round trip raised after include_subclasses", {**rp, "error": repr(e)})
                                continue
                            if type(back) is not X or back != insts[X]:
                                v.violation("base-typed round trip lost the exact subclass or its attributes", {**rp, "payload": payload, "back": repr(back)})
    hist["order_battery_pairs"] = n


def c14_overrides_battery(v: Verdict, hist):
    """systematic (no randomness): the chain Root > Mid > Leaf plus a sibling Other with `overrides=` renaming one or two attributes
    introduced at any level (the root's, an intermediate class's, a leaf's), both strategies, forbid_extra_keys on/off, both
    validation modes: every (K, descendant instance) pair must round-trip to the exact class, and the payload must carry the renamed
    keys (an override names an attribute wherever it occurs in the tree)"""
    import itertools
    from cattrs.gen import override
    Root = attrs.make_class("VRoot", {"a": attrs.field(type=int, kw_only=True)})
    Mid = attrs.make_class("VMid", {"b": attrs.field(type=int, kw_only=True)}, bases=(Root,))
    Leaf = attrs.make_class("VLeaf", {"c": attrs.field(type=int, kw_only=True)}, bases=(Mid,))
    Other = attrs.make_class("VOther", {"d": attrs.field(type=int, kw_only=True)}, bases=(Root,))
    insts = {Root: Root(a=1), Mid: Mid(a=2, b=3), Leaf: Leaf(a=4, b=5, c=6), Other: Other(a=7, d=8)}
    classes = [Root, Mid, Leaf, Other]
    renames = {"a": "aye", "b": "bee", "c": "cee", "d": "dee"}
    combos = [(k,) for k in renames] + list(itertools.combinations(renames, 2))
    n = 0
    for combo in combos:
        for strategy in ("auto", "tagged"):
            for forbid in (False, True):
                for dv in (True, False):
                    conv = Converter(forbid_extra_keys=forbid, detailed_validation=dv)
                    gc.collect()
                    kwargs = {"overrides": {k: override(rename=renames[k]) for k in combo}}
                    if strategy == "tagged":
                        kwargs["union_strategy"] = configure_tagged_union
                    desc = {"lane": "SUB/C14 overrides battery", "overrides": {k: f"override(rename={renames[k]!r})" for k in combo},
                            "strategy": strategy, "forbid_extra_keys": forbid, "detailed_validation": dv}
                    try:
                        include_subclasses(Root, conv, **kwargs)
                    except Exception as e:
                        v.violation("include_subclasses refused a tree whose classes all have a unique required attribute", {**desc, "error": repr(e)})
                        continue
                    for K in classes:
                        for X in classes:
                            if not issubclass(X, K):
                                continue
                            n += 1
                            rp = {**desc, "structure_as": K.__name__, "instance": repr(insts[X])}
                            v.count(repr(rp), True)
                            try:
                                payload = conv.unstructure(insts[X], unstructure_as=K)
                                back = conv.structure(payload, K)
                            except Exception as e:
                                leaf = not any(c is not K and issubclass(c, K) for c in classes)
                                if strategy == "tagged" and forbid and leaf and "ForbiddenExtraKeysError" in repr(e) + repr(getattr(e, "exceptions", "")):
                                    v.finding("F16", "leaf class under the tagged-union strategy + forbid_extra_keys rejects the tag its unstructure hook adds", {**rp, "error": repr(e)})
                                else:
                                    v.violation("base-typed round trip raised after include_subclasses with overrides", {**rp, "error": repr(e)})
                                continue
                            if type(back) is not X or back != insts[X]:
                                v.violation("base-typed round trip lost the exact subclass or its attributes (include_subclasses with overrides)", {**rp, "payload": payload, "back": repr(back)})
                                continue
                            want = {renames.get(f.name, f.name) if f.name in combo else f.name for f in attrs.fields(X)}
                            got = set(payload) - {"_type"}
                            if got != want:
                                v.violation("include_subclasses with overrides: the payload does not carry exactly the (renamed) attributes of the instance's class",
                                            {**rp, "payload": payload, "expected_keys": sorted(want)})
    hist["overrides_battery_pairs"] = n


def c14_nested_battery(v: Verdict, hist):
    """systematic: a subclass whose attributes are typed with the BASE class (bare, Optional, List, Dict) holding instances of other
    subclasses, both strategies, forbid_extra_keys on/off, both modes, on a fresh converter and on one that was USED for one of the
    classes before include_subclasses was called (finding F37): the base-typed round trip restores every nested instance's exact class"""
    from typing import Dict, List, Optional
    E = attrs.make_class("NE", {})
    L = attrs.make_class("NL", {"value": attrs.field(type=int)}, bases=(E,))
    A = attrs.make_class("NA", {"left": attrs.field(type=E), "opt": attrs.field(type=Optional[E], default=None), "many": attrs.field(type=List[E], factory=list),
                                "named": attrs.field(type=Dict[str, E], factory=dict)}, bases=(E,))
    x = A(L(1), L(2), [L(3), A(L(4), A(L(5)))], {"k": L(6), "j": A(L(7))})
    warm_values = {None: None, "NE": E(), "NL": L(0), "NA": A(L(0), L(0), [L(0)], {"k": L(0)})}
    n = 0
    for strategy in ("auto", "tagged"):
        for warm, wv in warm_values.items():
            for how in ("unstructure", "structure", "both"):
                if warm is None and how != "unstructure":
                    continue
                for forbid in (False, True):
                    for dv in (True, False):
                        conv = Converter(forbid_extra_keys=forbid, detailed_validation=dv)
                        gc.collect()
                        if wv is not None:
                            try:
                                u0 = conv.unstructure(wv) if how in ("unstructure", "both") else Converter().unstructure(wv)
                                if how in ("structure", "both"):
                                    conv.structure(u0, type(wv))
                            except Exception:      # noqa
                                pass
                        desc = {"lane": "SUB/C14 nested battery", "strategy": strategy, "forbid_extra_keys": forbid, "detailed_validation": dv,
                                "converter_used_before_for": None if warm is None else f"{how}({warm})"}
                        try:
                            include_subclasses(E, conv, **({"union_strategy": configure_tagged_union} if strategy == "tagged" else {}))
                        except Exception as e:
                            v.violation("include_subclasses refused a tree whose subclasses all have a unique required attribute", {**desc, "error": repr(e)})
                            continue
                        for K, inst in ((E, x), (A, x), (E, L(9))):
                            n += 1
                            rp = {**desc, "structure_as": K.__name__, "instance": repr(inst)}
                            v.count(repr(rp), True)
                            try:
                                payload = conv.unstructure(inst, unstructure_as=K)
                                back = conv.structure(payload, K)
                            except Exception as e:
                                leaf = K is not E
                                if strategy == "tagged" and forbid and leaf and "ForbiddenExtraKeysError" in repr(e) + repr(getattr(e, "exceptions", "")):
                                    v.finding("F16", "leaf class under the tagged-union strategy + forbid_extra_keys rejects the tag its unstructure hook adds", {**rp, "error": repr(e)})
                                else:
                                    v.violation("base-typed round trip raised after include_subclasses (attributes typed with the base class)", {**rp, "error": repr(e)[:400]})
                                continue
                            if back != inst or repr(back) != repr(inst):
                                v.violation("base-typed round trip lost the exact subclass of a nested instance (attributes typed with the base class)",
                                            {**rp, "payload": repr(payload)[:500], "back": repr(back)[:400]})
    hist["nested_battery_pairs"] = n


def c14_literal_battery(v: Verdict, hist):
    """systematic: hierarchies discriminated by a Literal-valued attribute, where subclasses may KEEP the tag value of their parent
    (the disambiguator then maps that value to a union of classes, told apart by their unique attributes) while siblings override
    it; both strategies, forbid_extra_keys on/off, both modes: every (K, instance of K or of a descendant) pair -- instances of the
    PARENT classes included -- round-trips to the exact class"""
    from typing import Literal
    src = {}

    def mk(name, base, own, tag):
        attrs_ = {k: attrs.field(type=int, kw_only=True) for k in own}
        if tag is not None:
            attrs_["kind"] = attrs.field(type=Literal[tag], default=tag, kw_only=True)
        cl = attrs.make_class(name, attrs_, bases=(base,) if base else (object,))
        src[name] = (base.__name__ if base else None, own, tag)
        return cl
    trees = []
    Shape = mk("LShape", None, ["name"], "shape")
    Line = mk("LLine", Shape, ["length"], None)                 # keeps "shape"
    Circle = mk("LCircle", Shape, ["radius"], "circle")
    Arc = mk("LArc", Circle, ["angle"], None)                   # keeps "circle"
    Dot = mk("LDot", Shape, [], "dot")                          # no attribute of its own, own tag
    trees.append(("shape / line keeps the tag / circle overrides / arc keeps circle's / dot", [Shape, Line, Circle, Arc, Dot],
                  {Shape: dict(name=1), Line: dict(name=2, length=3), Circle: dict(name=4, radius=5), Arc: dict(name=6, radius=7, angle=8), Dot: dict(name=9)}))
    Base = mk("MBase", None, ["a"], "x")
    C1 = mk("MC1", Base, ["b"], "y")
    C2 = mk("MC2", Base, ["c"], "z")
    trees.append(("every class its own tag", [Base, C1, C2], {Base: dict(a=1), C1: dict(a=2, b=3), C2: dict(a=4, c=5)}))
    n = 0
    from cattrs.gen import override as _ov
    # overrides= renames: none / the root's attribute / the attributes that tell tag-sharing classes apart / both
    ov_sets = [None, {0: "title"}, {"length": "len_", "angle": "ang", "b": "bee"}, {0: "title", "length": "len_", "angle": "ang", "c": "cee"}]
    for tname, classes, kws in trees:
      for ovs in ov_sets:
        root_attr = src[classes[0].__name__][1][0]
        overrides = None if ovs is None else {(root_attr if k == 0 else k): _ov(rename=r) for k, r in ovs.items()}
        for strategy in ("auto", "tagged"):
            for forbid in (False, True):
                for dv in (True, False):
                    conv = Converter(forbid_extra_keys=forbid, detailed_validation=dv)
                    gc.collect()
                    desc = {"lane": "SUB/C14 literal battery", "tree": tname, "classes": {c.__name__: src[c.__name__] for c in classes}, "strategy": strategy,
                            "forbid_extra_keys": forbid, "detailed_validation": dv,
                            "overrides": None if overrides is None else {k: f"override(rename={o.rename!r})" for k, o in overrides.items()}}
                    try:
                        include_subclasses(classes[0], conv, **({"union_strategy": configure_tagged_union} if strategy == "tagged" else {}),
                                           **({} if overrides is None else {"overrides": overrides}))
                    except Exception:      # noqa  (refusing is allowed: "whenever it is accepted")
                        continue
                    for K in classes:
                        for X in classes:
                            if not issubclass(X, K):
                                continue
                            n += 1
                            inst = X(**kws[X])
                            rp = {**desc, "structure_as": K.__name__, "instance": repr(inst)}
                            v.count(repr(rp), True)
                            try:
                                payload = conv.unstructure(inst, unstructure_as=K)
                                back = conv.structure(payload, K)
                            except RecursionError as e:
                                v.violation("base-typed round trip recursed without bound after include_subclasses (Literal-discriminated hierarchy)", {**rp, "error": repr(e)[:200]})
                                continue
                            except Exception as e:
                                leaf = not any(c is not K and issubclass(c, K) for c in classes)
                                if strategy == "tagged" and forbid and leaf and "ForbiddenExtraKeysError" in repr(e) + repr(getattr(e, "exceptions", "")):
                                    v.finding("F16", "leaf class under the tagged-union strategy + forbid_extra_keys rejects the tag its unstructure hook adds", {**rp, "error": repr(e)})
                                else:
                                    v.violation("base-typed round trip raised after include_subclasses (Literal-discriminated hierarchy)", {**rp, "error": repr(e)[:400]})
                                continue
                            if type(back) is not X or back != inst:
                                v.violation("base-typed round trip lost the exact subclass or its attributes (Literal-discriminated hierarchy)", {**rp, "payload": payload, "back": repr(back)})
    hist["literal_battery_pairs"] = n


def c14_collection_member_battery(v: Verdict, hist):
    """systematic: a hierarchy whose members hold COLLECTIONS of the hierarchy (Group(Base): members: List[Base]; Table(Base): rows:
    Dict[str, Base]; Pair(Base): both: Tuple[Base, Base]) -- the collection hooks are generated (and cached by the converter) with the
    element hook of Base inlined, before or after include_subclasses installs its hooks.  Strategy automatic / tagged union x the
    converter was used before (nothing / unstructure of a Group / of List[Base] / structure of a Table payload) x forbid_extra_keys x
    validation mode: every instance round-trips through every ancestor K to the exact classes, nested members included."""
    def mk():
        Base = attrs.make_class("CBase", {"a": attrs.field(type=int)})
        Leaf = attrs.make_class("CLeaf", {"b": attrs.field(type=int)}, bases=(Base,))
        Group = attrs.make_class("CGroup", {"members": attrs.field(type=List[Base])}, bases=(Base,))
        Table = attrs.make_class("CTable", {"rows": attrs.field(type=Dict[str, Base])}, bases=(Base,))
        return Base, Leaf, Group, Table
    n = 0
    for strategy in ("auto", "tagged"):
        for warm in ("nothing", "unstructure(Group)", "unstructure(List[Base])", "structure(Table payload)"):
            for forbid in (False, True):
                for dv in (True, False):
                    Base, Leaf, Group, Table = mk()
                    conv = Converter(forbid_extra_keys=forbid, detailed_validation=dv)
                    try:
                        if warm == "unstructure(Group)":
                            conv.unstructure(Group(1, [Base(2)]))
                        elif warm == "unstructure(List[Base])":
                            conv.unstructure([Base(2)], unstructure_as=List[Base])
                        elif warm == "structure(Table payload)":
                            conv.structure({"a": 1, "rows": {"k": {"a": 2}}}, Table)
                    except Exception:      # noqa
                        pass
                    gc.collect()
                    desc = {"lane": "SUB/C14 collection-member battery", "classes": "CBase(a); CLeaf(CBase)(b); CGroup(CBase)(members: List[CBase]); CTable(CBase)(rows: Dict[str, CBase])",
                            "strategy": strategy, "before_the_strategy": warm, "forbid_extra_keys": forbid, "detailed_validation": dv}
                    try:
                        include_subclasses(Base, conv, **({"union_strategy": configure_tagged_union} if strategy == "tagged" else {}))
                    except Exception:      # noqa
                        continue
                    insts = [Group(1, [Leaf(2, 3), Base(4), Group(5, [Leaf(6, 7)])]), Table(1, {"x": Leaf(2, 3), "y": Base(4)}), Leaf(8, 9)]
                    for inst in insts:
                        for K in (Base, type(inst)):
                            n += 1
                            rp = {**desc, "structure_as": K.__name__, "instance": repr(inst)}
                            v.count(repr(rp), True)
                            try:
                                payload = conv.unstructure(inst, unstructure_as=K)
                                back = conv.structure(payload, K)
                            except Exception as e:      # noqa
                                leaf = not any(c is not K and issubclass(c, K) for c in (Base, Leaf, Group, Table))
                                if strategy == "tagged" and forbid and "ForbiddenExtraKeysError" in repr(e) + repr(getattr(e, "exceptions", "")) and leaf:
                                    v.finding("F16", "leaf class under the tagged-union strategy + forbid_extra_keys rejects the tag its unstructure hook adds", {**rp, "error": repr(e)})
                                else:
                                    v.violation("base-typed round trip raised after include_subclasses (members holding collections of the hierarchy)", {**rp, "error": repr(e)[:300]})
                                continue
                            if type(back) is not type(inst) or back != inst or repr(back) != repr(inst):
                                v.violation("base-typed round trip lost the exact subclass or its attributes (members holding collections of the hierarchy)",
                                            {**rp, "payload": repr(payload)[:300], "back": repr(back)[:300]})
    hist["collection_member_pairs"] = n
