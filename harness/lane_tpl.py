"""TPL lane -- class-level templates (generated detailed / fast hooks, interpretive
BaseConverter hooks, generated unstructure hooks) against Model/Templates.v.

Field handlers are tagging hooks registered for per-field marker NewTypes, so
the templates are compared with *abstract* handlers: the nested universe is the
business of the CONV lane."""
from __future__ import annotations

import dataclasses
import random
from collections.abc import Mapping
from typing import Any, NewType

import attrs

from cattrs import BaseConverter, Converter
from cattrs.errors import ClassValidationError, ForbiddenExtraKeysError
from cattrs.gen import make_dict_structure_fn, make_dict_unstructure_fn, override

UNSAFE_KEYS = ["it's", "trailing\\"]


class Interner:
    def __init__(self):
        self.ids = {}
        self.rev = {}

    def __call__(self, s):
        if s not in self.ids:
            self.ids[s] = len(self.ids) + 1
            self.rev[self.ids[s]] = s
        return self.ids[s]


class FrozenMap(Mapping):
    """A Mapping that is not a dict (no .copy())."""

    def __init__(self, d):
        self._d = dict(d)

    def __getitem__(self, k):
        return self._d[k]

    def __iter__(self):
        return iter(self._d)

    def __len__(self):
        return len(self._d)


@dataclasses.dataclass
class FieldSpec:
    name: str
    alias: str
    default: Any          # None = required, else int
    factory: bool
    init: bool
    kw_only: bool
    conv: bool
    typed: bool


@dataclasses.dataclass
class ClassSpec:
    kind: str             # "attrs" | "dataclass"
    fields: list
    cid: int = 0


_marker_cache = {}


def marker(n):
    if n not in _marker_cache:
        _marker_cache[n] = NewType(f"M{n}", int)
    return _marker_cache[n]


def K(v):
    return v + 500000


def gen_class_spec(rng: random.Random, idx: int, allow_init_false=True, kinds=("attrs", "attrs", "dataclass")) -> ClassSpec:
    kind = rng.choice(kinds)
    n = rng.randint(0, 6)
    fs = []
    seen_default_pos = False
    for i in range(n):
        private = kind == "attrs" and rng.random() < 0.25
        name = f"_p{i}" if private else f"f{i}"
        alias = name.lstrip("_")
        if kind == "attrs" and rng.random() < 0.2:
            alias = f"al{i}"
        init = not (allow_init_false and rng.random() < 0.2)
        kw_only = rng.random() < 0.3
        has_default = rng.random() < (0.45 if init else 0.7)
        factory = has_default and rng.random() < 0.3
        if init and not kw_only and not has_default and seen_default_pos:
            # attrs/dataclasses refuse a mandatory positional attribute after a defaulted one
            if rng.random() < 0.5:
                kw_only = True
            else:
                has_default = True
        if init and not kw_only and has_default:
            seen_default_pos = True
        conv = kind == "attrs" and init and rng.random() < 0.15
        typed = rng.random() < 0.85 or kind == "dataclass"
        fs.append(FieldSpec(name, alias, (rng.randrange(0, 40) if has_default else None), factory, init, kw_only, conv, typed))
    return ClassSpec(kind, fs, idx)


def build_class(spec: ClassSpec, intern: Interner):
    name = f"K{spec.cid}"
    if spec.kind == "attrs":
        d = {}
        for i, f in enumerate(spec.fields):
            kw = {"init": f.init, "kw_only": f.kw_only}
            if f.default is not None:
                if f.factory:
                    kw["factory"] = (lambda v=f.default: v)
                else:
                    kw["default"] = f.default
            if f.conv:
                kw["converter"] = K
            if f.typed:
                kw["type"] = marker(intern(f.name))
            if f.alias != f.name.lstrip("_"):
                kw["alias"] = f.alias
            d[f.name] = attrs.field(**kw)
        return attrs.make_class(name, d)
    fl = []
    for f in spec.fields:
        kw = {"init": f.init, "kw_only": f.kw_only}
        if f.default is not None:
            if f.factory:
                kw["default_factory"] = (lambda v=f.default: v)
            else:
                kw["default"] = f.default
        fl.append((f.name, marker(intern(f.name)), dataclasses.field(**kw)))
    return dataclasses.make_dataclass(name, fl)


def seen_kw_only(cl):
    """The kw_only flag of each attribute as the generators see it (adapted_fields)."""
    from cattrs._compat import adapted_fields
    return {a.name: bool(a.kw_only) for a in adapted_fields(cl)}


def register_handlers(conv, spec: ClassSpec, intern: Interner):
    for f in spec.fields:
        if not f.typed:
            continue
        n = intern(f.name)
        t = marker(n)

        def sh(v, _t, n=n):
            if not isinstance(v, int) or isinstance(v, bool):
                raise TypeError("not an int")
            if v >= 50:
                raise ValueError("too large")
            return 1000 * (n + 1) + v

        def uh(v, n=n):
            return v + 7
        conv.register_structure_hook(t, sh)
        conv.register_unstructure_hook(t, uh)


# ------------------------------------------------------------------ Coq text

def cN(n):
    return f"{n}%N"


def c_bool(b):
    return "true" if b else "false"


def c_opt(x, f):
    return "None" if x is None else f"(Some {f(x)})"


def c_list(xs):
    return "[" + "; ".join(xs) + "]"


def c_field(f: FieldSpec, intern, kw_seen):
    return ("{| f_name := %s; f_alias := %s; f_dflt := %s; f_init := %s; f_kw_only := %s; f_kw_seen := %s; f_conv := %s |}" % (
        cN(intern(f.name)), cN(intern(f.alias)), c_opt(f.default, cN), c_bool(f.init), c_bool(f.kw_only),
        c_bool(kw_seen[f.name]), c_bool(f.conv)))


def c_fov(o):
    return "{| ov_omit := %s; ov_rename := %s; ov_oid := %s |}" % (
        c_opt(o.get("omit"), c_bool), c_opt(o.get("rename"), cN), c_opt(o.get("oid"), c_bool))


def c_topts(cid, forbid, use_alias, incl, oid):
    return "{| t_cl := %s; t_forbid := %s; t_use_alias := %s; t_incl_init_false := %s; t_omit_if_default := %s |}" % (
        cN(cid), c_bool(forbid), c_bool(use_alias), c_bool(incl), c_bool(oid))


def c_result(r, f):
    if r[0] == "ok":
        return f"(Ok {f(r[1])})"
    return f"(Err {r[1]})"


def c_pairs(d):
    return c_list(f"({cN(k)}, {cN(v)})" for k, v in d)


def c_payload(p):
    if p[0] == "dict":
        return f"(PDict {c_pairs(p[1])})"
    _, ins, gets, ks, it, is_map, cp = p
    return "(PJunk %s %s %s %s %s %s)" % (
        c_list(f"({cN(k)}, {c_result(r, c_bool)})" for k, r in ins),
        c_list(f"({cN(k)}, {c_result(r, cN)})" for k, r in gets),
        c_result(ks, lambda l: c_list(cN(x) for x in l)),
        c_result(it, lambda l: c_list(cN(x) for x in l)),
        c_bool(is_map),
        c_result(cp, lambda x: c_opt(x, c_pairs)))


def c_outcome(x):
    if x[0] == "ok":
        return f"(XOk {c_pairs(x[1])})"
    if x[0] == "tuple":
        return f"(XTuple {c_list(cN(v) for v in x[1])})"
    if x[0] == "forbidden":
        return f"(XErr (CForbidden {c_list(cN(k) for k in x[1])}))"
    return {"classval": "(XErr CClassVal)", "syntax": "(XErr CSyntax)", "other": "(XErr COther)"}[x[0]]


ERRK = {KeyError: "EKey", TypeError: "EType", ValueError: "EValue", AttributeError: "EAttr"}


def errk(e):
    for k, v in ERRK.items():
        if isinstance(e, k):
            return v
    return "EOther"


def probe_obj(o, keys, intern):
    """The pobj record of an arbitrary Python object, for the given key strings."""
    ins, gets = [], []
    for k in keys:
        try:
            ins.append((intern(k), ("ok", bool(k in o))))
        except Exception as e:
            ins.append((intern(k), ("err", errk(e))))
        try:
            v = o[k]
            if not isinstance(v, int) or isinstance(v, bool):
                raise TypeError("harness: non-int value in junk payload")
            gets.append((intern(k), ("ok", v)))
        except Exception as e:
            gets.append((intern(k), ("err", errk(e))))
    try:
        ks = ("ok", [intern(k) for k in set(o.keys())])
    except Exception as e:
        ks = ("err", errk(e))
    try:
        it = list(iter(o))
        if not all(isinstance(v, int) and not isinstance(v, bool) for v in it):
            raise TypeError("harness: non-int element")
        it = ("ok", it)
    except Exception as e:
        it = ("err", errk(e))
    try:
        c = o.copy()
        cp = ("ok", [(intern(k), v) for k, v in c.items()]) if isinstance(c, dict) else ("ok", None)
    except Exception as e:
        cp = ("err", errk(e))
    return ("junk", ins, gets, ks, it, isinstance(o, Mapping), cp)


def outcome_of_exception(e, intern):
    if isinstance(e, ForbiddenExtraKeysError):
        return ("forbidden", sorted(intern(k) for k in e.extra_fields))
    if isinstance(e, ClassValidationError):
        return ("classval",)
    if isinstance(e, SyntaxError):
        return ("syntax",)
    return ("other",)


def read_instance(inst, spec: ClassSpec, intern):
    out = []
    for f in spec.fields:
        if hasattr(inst, f.name):
            v = getattr(inst, f.name)
            out.append((intern(f.name), v))
    return out


def gen_overrides(rng, spec: ClassSpec, for_unstructure=False, allow_unsafe=False):
    ovs = {}
    used = set()
    for f in spec.fields:
        if rng.random() < 0.3:
            o = {}
            r = rng.random()
            if r < 0.25:
                o["omit"] = rng.choice([True, False]) if (f.default is not None or not f.init or for_unstructure) else False
            if rng.random() < 0.5:
                key = rng.choice([f"r{f.name}", f"ren_{len(used)}", f.name] + (UNSAFE_KEYS * 3 if allow_unsafe else []))
                if key not in used:
                    o["rename"] = key
                    used.add(key)
            if for_unstructure and rng.random() < 0.4:
                o["oid"] = rng.choice([True, False])
            if o:
                ovs[f.name] = o
    return ovs


def real_overrides(ovs):
    out = {}
    for n, o in ovs.items():
        kw = {}
        if "omit" in o:
            kw["omit"] = o["omit"]
        if "rename" in o:
            kw["rename"] = o["rename"]
        if "oid" in o:
            kw["omit_if_default"] = o["oid"]
        out[n] = override(**kw)
    return out


def coq_ovs(ovs, intern):
    return c_list("(%s, %s)" % (cN(intern(n)), c_fov({"omit": o.get("omit"), "rename": (intern(o["rename"]) if "rename" in o else None), "oid": o.get("oid")}))
                  for n, o in ovs.items())


def key_of(f: FieldSpec, ovs, use_alias):
    o = ovs.get(f.name, {})
    if "rename" in o:
        return o["rename"]
    return f.alias if use_alias else f.name


def is_included(f: FieldSpec, ovs, incl_init_false):
    o = ovs.get(f.name, {})
    if o.get("omit") is True:
        return False
    if o.get("omit") is False:
        return True
    return f.init or incl_init_false


def gen_payload(rng, spec: ClassSpec, ovs, use_alias, incl, junk_rate=0.2, extras_rate=0.35, bad_rate=0.15, missing_rate=0.12):
    """A payload for the generated/interpretive structure hooks: mostly-valid dicts, plus junk objects."""
    if rng.random() < junk_rate:
        k = rng.random()
        keys = [key_of(f, ovs, use_alias) for f in spec.fields] + [f.name for f in spec.fields]
        if k < 0.25:
            return rng.choice([[1, 2], [], [3] * len(spec.fields), list(range(len(spec.fields)))])
        if k < 0.4:
            return rng.choice(["f0", "", "abc"])
        if k < 0.5:
            return rng.choice([5, None, 1.5])
        if k < 0.75:
            return FrozenMap({kk: rng.randrange(0, 45) for kk in keys if rng.random() < 0.8})
        return tuple(rng.randrange(0, 45) for _ in range(rng.randint(0, len(spec.fields) + 1)))
    d = {}
    for f in spec.fields:
        kk = key_of(f, ovs, use_alias)
        r = rng.random()
        absent = r < (0.35 if f.default is not None else missing_rate)
        if not is_included(f, ovs, incl) and rng.random() < 0.7:
            absent = True
        if absent:
            continue
        d[kk] = rng.randrange(50, 60) if rng.random() < bad_rate else rng.randrange(0, 45)
    if rng.random() < extras_rate:
        for j in range(rng.randint(1, 2)):
            d[f"extra{j}"] = rng.randrange(0, 45)
    items = list(d.items())
    rng.shuffle(items)
    return dict(items)
