"""DISP lane -- hook lookup after operation histories (C07, C08, C18).

Runs the real converters from /repo/src, records for every probe which tagged
user hook / user factory / fallback / built-in answered, and writes the same
session as a Coq term so that Model/DispLane.check_case can be evaluated on it.
All random choices come from one random.Random(seed)."""
from __future__ import annotations

import collections
import dataclasses
import enum
import random
import sys
import typing
from pathlib import Path
from typing import (Annotated, Any, Dict, FrozenSet, List, Literal, NewType, Optional, Sequence, Set, Tuple, TypedDict,
                    Union)

import attrs

import cattrs
from cattrs import BaseConverter, Converter, UnstructureStrategy

sys.path.insert(0, str(Path(__file__).resolve().parent))
from t1_translate import WELL_KNOWN_CLS  # noqa: E402


class Marker:
    """What a tagged user hook returns."""
    __slots__ = ("x",)

    def __init__(self, x):
        self.x = x

    def __repr__(self):
        return f"Marker{self.x}"


# ----------------------------------------------------------------- type pool

class A: pass
class B(A): pass
class C_(B): pass
class D(A): pass
class E(B, D): pass


@attrs.define
class P:
    x: int = 0


@attrs.define
class Q(P):
    y: str = ""


@dataclasses.dataclass
class DC:
    a: int = 0


class Col(enum.Enum):
    R = 1
    G = 2


class TD(TypedDict):
    a: int


class NT(typing.NamedTuple):
    a: int
    b: str = ""


NT1 = NewType("NT1", int)
NT2 = NewType("NT2", A)
NT3 = NewType("NT3", P)

NESTABLE = [A, B, E, P, Q, DC, Col, NT1, NT2, int, str, Union[int, str], Union[P, Q]]


def _holder(t, i):
    return attrs.make_class(f"Holder{i}", {"f": attrs.field(type=t)})


class Pool:
    """Types with stable ids (interned by ==/hash), MRO table, union / NewType lists."""

    def __init__(self):
        self.ids: dict = {}
        self.types: list = []
        self.names: dict = {}
        for name, i in WELL_KNOWN_CLS.items():
            obj = {"object": object, "str": str, "bytes": bytes, "int": int, "float": float, "Enum": enum.Enum,
                   "Path": Path, "bool": bool}[name]
            self.ids[obj] = i
            self.names[i] = name
        self.next = 10
        base = [object, int, str, float, bytes, bool, A, B, C_, D, E, P, Q, DC, Col, TD, NT, NT1, NT2, NT3,
                Union[int, str], Union[A, D], Union[P, Q], Optional[int], Optional[P], Union[P, Q, None],
                list[int], List[int], List[P], dict[str, int], Dict[str, P], tuple[int, str], Tuple[int, ...],
                Sequence[A], Set[int], FrozenSet[int], Optional[List[int]], Annotated[int, "m"], Literal[1, 2],
                typing.Deque[int], Any]
        self.lists = {}
        self.holders = {}
        for t in base:
            self.add(t)
        for i, t in enumerate(NESTABLE):
            self.lists[t] = List[t]
            self.add(List[t])
            self.holders[t] = _holder(t, i)
            self.add(self.holders[t])
        # every class that occurs in some MRO needs an id
        for t in list(self.types):
            if isinstance(t, type):
                for c in t.__mro__:
                    self.add(c, probe=False)
        self.probe_types = [t for t in self.types if t not in (object,)]

    def add(self, t, probe=True):
        if t not in self.ids:
            self.ids[t] = self.next
            self.names[self.next] = getattr(t, "__name__", None) or repr(t)
            self.next += 1
        if probe and t not in self.types:
            self.types.append(t)
        return self.ids[t]

    def tid(self, t):
        return self.ids[t]

    def mro(self, t):
        if isinstance(t, type):
            return [self.ids[c] for c in t.__mro__]
        return []

    def is_union(self, t):
        from cattrs._compat import is_union_type
        return bool(is_union_type(t))

    exact_route_cond = "get_newtype_base(T) is not None"

    def is_newtype(self, t):
        """Does register_*_hook route t to an exact-type predicate entry?  Evaluates the very test the
        source uses (text supplied by T1) in the namespace of cattrs.converters."""
        import cattrs.converters as cc
        return bool(eval(self.exact_route_cond, vars(cc), {"T": t}))


def user_predicates():
    """(id, description, function).  Some raise on non-classes, as real predicates do."""
    preds = [
        (1, "t is A", lambda t: t is A),
        (2, "issubclass(t, A)", lambda t: issubclass(t, A)),                     # raises for non-classes
        (3, "origin is list", lambda t: getattr(t, "__origin__", None) is list),
        (4, "t in (int, str)", lambda t: t in (int, str)),
        (5, "always", lambda t: True),
        (6, "raises", lambda t: 1 / 0),
        (7, "is Enum subclass", lambda t: isinstance(t, type) and issubclass(t, enum.Enum)),
        (8, "t == Union[int,str]", lambda t: t == Union[int, str]),
        (9, "attrs.has", lambda t: attrs.has(t)),
        (10, "is NewType", lambda t: hasattr(t, "__supertype__")),
        (11, "issubclass(t, P)", lambda t: issubclass(t, P)),
        (12, "is a union", lambda t: typing.get_origin(t) is Union),
        (13, "never", lambda t: False),
    ]
    return preds


def delegating_base(t):
    from cattrs._compat import get_final_base, get_newtype_base, is_annotated
    from cattrs.typealiases import get_type_alias_base, is_type_alias
    b = get_newtype_base(t)
    if b is not None:
        return b
    if is_annotated(t):
        return t.__origin__
    b = get_final_base(t)
    if b is not None:
        return b
    if is_type_alias(t):
        return get_type_alias_base(t)
    return None


def safe_call(f, t):
    try:
        return bool(f(t))
    except Exception:
        return None


# ------------------------------------------------------------- real sessions

OPT_NAMES = ["ODictFactory", "OStrat", "OPrefer", "ODetailed", "OOmit", "OForbid", "OTypeOv", "OCollOv",
             "OUnstructFallback", "OStructFallback"]


class RealSession:
    """Executes session steps on real converters and records observations."""

    def __init__(self, pool: Pool):
        self.pool = pool
        self.convs: list = []
        self.tagmap: dict = {}       # id(function) -> xhook tuple
        self.keep: list = []         # keep function objects alive (ids must stay unique)
        self.opt_objs = {}           # (opt, value id) -> python object
        self.memo = {}

    # -- tagged callables
    def user_hook(self, d, n):
        if (d, n) in self.memo:
            return self.memo[(d, n)]          # the same hook object when a registration is repeated
        h = self._user_hook(d, n)
        self.memo[(d, n)] = h
        return h

    def _user_hook(self, d, n):
        m = Marker(("XUser", n))
        if d == "DUn":
            def h(v, _m=m): return _m
        else:
            def h(v, t, _m=m): return _m
        self.tagmap[id(h)] = ("XUser", n)
        self.keep.append(h)
        return h

    def made_hook(self, d, x):
        m = Marker(x)
        if d == "DUn":
            def h(v, _m=m): return _m
        else:
            def h(v, t, _m=m): return _m
        self.tagmap[id(h)] = x
        self.keep.append(h)
        return h

    def factory(self, d, fid, ext, wrap=False):
        key = ("fact", d, fid, ext, wrap)
        if key in self.memo:
            return self.memo[key]
        f = self._factory(d, fid, ext, wrap)
        self.memo[key] = f
        return f

    def _factory(self, d, fid, ext, wrap=False):
        sess = self
        if wrap:
            # finding F8 shape: a user factory that post-processes Converter.gen_unstructure_iterable
            def f(t, conv):
                inner = conv.gen_unstructure_iterable(t)
                x = ("XMade", fid, sess.pool.tid(t), True)
                m = Marker(x)
                def h(v, _m=m, _inner=inner): return _m
                sess.tagmap[id(h)] = x
                sess.keep.append(h)
                return h
        elif ext:
            def f(t, conv):
                ok = any(conv is c for c in sess.convs)
                x = ("XMade", fid, sess.pool.tid(t), True) if ok else ("XUser", 999999)
                sess.last_conv_passed = conv
                return sess.made_hook(d, x)
        else:
            def f(t):
                return sess.made_hook(d, ("XMade", fid, sess.pool.tid(t), False))
        self.keep.append(f)
        return f

    def fallback_factory(self, d, fid):
        sess = self
        def f(t):
            return sess.made_hook(d, ("XFallback", fid, sess.pool.tid(t)))
        self.keep.append(f)
        return f

    # -- construction
    def opt_kwargs(self, full, o: dict):
        kw = {}
        if o.get("OStrat", 0) == 1:
            kw["unstruct_strat"] = UnstructureStrategy.AS_TUPLE
        if o.get("OPrefer", 0):
            kw["prefer_attrib_converters"] = True
        if o.get("ODetailed", 0):
            kw["detailed_validation"] = False
        if o.get("ODictFactory", 0):
            kw["dict_factory"] = collections.OrderedDict
        if o.get("OUnstructFallback", 0):
            kw["unstructure_fallback_factory"] = self.fallback_factory("DUn", o["OUnstructFallback"])
        if o.get("OStructFallback", 0):
            kw["structure_fallback_factory"] = self.fallback_factory("DSt", o["OStructFallback"])
        if full:
            if o.get("OOmit", 0):
                kw["omit_if_default"] = True
            if o.get("OForbid", 0):
                kw["forbid_extra_keys"] = True
        return kw

    def read_opts(self, c) -> dict:
        """Option values as the model encodes them (fallbacks are not readable attributes: omitted)."""
        o = {
            "OStrat": 0 if c.unstruct_strat is UnstructureStrategy.AS_DICT else 1,
            "OPrefer": 1 if c._prefer_attrib_converters else 0,
            "ODetailed": 0 if c.detailed_validation else 1,
            "ODictFactory": 0 if c._dict_factory is dict else 1,
        }
        if isinstance(c, Converter):
            o["OOmit"] = 1 if c.omit_if_default else 0
            o["OForbid"] = 1 if c.forbid_extra_keys else 0
        return o

    def new(self, full, o):
        cls = Converter if full else BaseConverter
        self.convs.append(cls(**self.opt_kwargs(full, o)))

    def copy(self, i, ov, deep=False):
        c = self.convs[i]
        if deep:
            import copy as _copy
            self.convs.append(_copy.deepcopy(c))
        else:
            kw = {}
            if "OStrat" in ov:
                kw["unstruct_strat"] = UnstructureStrategy.AS_TUPLE if ov["OStrat"] == 1 else UnstructureStrategy.AS_DICT
            if "ODetailed" in ov:
                kw["detailed_validation"] = not ov["ODetailed"]
            if "OPrefer" in ov:
                kw["prefer_attrib_converters"] = bool(ov["OPrefer"])
            if "OForbid" in ov:
                kw["forbid_extra_keys"] = bool(ov["OForbid"])
            if "OOmit" in ov:
                kw["omit_if_default"] = bool(ov["OOmit"])
            self.convs.append(c.copy(**kw))

    # -- lookups
    def _get(self, c, d, t, use_cache):
        if d == "DUn":
            return c.get_unstructure_hook(t, cache_result=use_cache)
        return c.get_structure_hook(t, cache_result=use_cache)

    def observe(self, i, d, t, use_cache=True):
        """Which registration answered the lookup of t (by identity of the hook object).
        Some born-with factories (NewType, Annotated, Final, type alias) *return the hook object of the
        underlying type*.  For such a t, `self.same_as_base` says whether the hook found for t is the very
        object found for its base (then either the registration was chosen for t directly, or a born-with
        entry delegated to the base: indistinguishable and equivalent), and `self.base_obs` is the
        (base type, observation) pair of the extra cached lookup that was made to find out."""
        c = self.convs[i]
        self.same_as_base = False
        self.base_obs = None
        try:
            h = self._get(c, d, t, use_cache)
        except Exception:
            return ("XBuiltin",)
        x = self.tagmap.get(id(h), ("XBuiltin",))
        b = delegating_base(t)
        if b is not None and x != ("XBuiltin",):
            try:
                hb = self._get(c, d, b, True)
                xb = self.tagmap.get(id(hb), ("XBuiltin",))
            except Exception:
                hb, xb = None, ("XBuiltin",)
            self.base_obs = (b, xb)
            self.same_as_base = hb is h
        return x

    def warm(self, i, d, t):
        """A structure / unstructure call (as opposed to get_*_hook): same lookup, then the hook runs."""
        c = self.convs[i]
        try:
            if d == "DUn":
                c.unstructure(object(), unstructure_as=t)
            else:
                c.structure({}, t)
        except Exception:
            pass

    def nested(self, i, d, outer, kind):
        """Observe which hook the hook of `outer` (List[T] or a class with a field of type T) applies to T."""
        c = self.convs[i]
        try:
            if d == "DUn":
                if kind == "list":
                    r = c.unstructure([object()], unstructure_as=outer)
                    r = r[0]
                else:
                    inst = outer(object())
                    r = c.unstructure(inst, unstructure_as=outer)
                    r = r["f"] if isinstance(r, dict) else r[0]
            else:
                if kind == "list":
                    r = c.structure([1], outer)[0]
                else:
                    payload = {"f": 1} if c.unstruct_strat is UnstructureStrategy.AS_DICT else (1,)
                    r = c.structure(payload, outer).f
        except Exception:
            return ("XBuiltin",)
        if isinstance(r, Marker):
            return r.x
        return ("XBuiltin",)

    def nested_for(self, i, d, outer, kind, tid):
        """nested(), keeping only answers that are about the inner type: a built-in hook that dispatches on
        the runtime class of the sentinel reports a lookup of another type, which counts as built-in."""
        x = self.nested(i, d, outer, kind)
        if x[0] in ("XMade", "XFallback") and x[2] != tid:
            return ("XBuiltin",)
        return x


class TableMismatch(Exception):
    """the hooks a fresh converter is born with are not the registrations its source makes (one had no effect, or was made twice)"""

    def __init__(self, direction, source_names, real_names):
        super().__init__(f"source registers {len(source_names)} {direction} predicates, a fresh Converter() has {len(real_names)}")
        self.direction, self.source_names, self.real_names = direction, source_names, real_names


def init_truth_tables(pool: Pool, t1_summary: dict):
    """Truth table of every predicate a converter is born with, indexed as T1 indexes them
    (source order: BaseConverter entries, then Converter entries), for both directions."""
    conv = Converter()  # AS_DICT: every entry present
    out = {}
    front = t1_summary["dispatch"]["insert_front"]
    for d, attr in (("unstructure", "_unstructure_func"), ("structure", "_structure_func")):
        pairs = list(getattr(conv, attr)._function_dispatch._handler_pairs)
        src_order = list(reversed(pairs)) if front else pairs
        names = [e["pred"] for e in t1_summary["converters"]["base_tables"][d]["func"]] + \
                [e["pred"] for e in t1_summary["converters"]["conv_regs"][d]]
        if len(names) != len(src_order):
            raise TableMismatch(d, names, [getattr(p_[0], "__name__", "?") for p_ in src_order])
        tbl = {}
        for i, (name, pair) in enumerate(zip(names, src_order)):
            fn = pair[0]
            real = getattr(fn, "__name__", "?")
            if name.isidentifier() and real != name:
                raise RuntimeError(f"T1 entry {i} of {d} is `{name}` but the real converter has `{real}` there")
            if not name.isidentifier() and real != "<lambda>":
                raise RuntimeError(f"T1 entry {i} of {d} is a lambda but the real converter has `{real}` there")
            if "_union_struct_registry" in name:
                continue
            tbl[i] = {pool.tid(t): safe_call(fn, t) for t in pool.probe_types}
        out[d] = tbl
    return out


# ---------------------------------------------------------------- Coq output

def coq_optb(v):
    return {True: "Some true", False: "Some false", None: "None"}[v]


def coq_N(n):
    return f"{n}%N"


def coq_xhook(x):
    if x[0] == "XUser":
        return f"(XUser {x[1]}%N)"
    if x[0] == "XMade":
        return f"(XMade {x[1]}%N {x[2]}%N {'true' if x[3] else 'false'})"
    if x[0] == "XFallback":
        return f"(XFallback {x[1]}%N {x[2]}%N)"
    return "XBuiltin"


def coq_hook(x):
    if x[0] == "XUser":
        return f"(HUser {x[1]}%N)"
    raise ValueError(x)


def coq_optmap(o: dict):
    return "[" + "; ".join(f"({k}, {v}%N)" for k, v in o.items()) + "]"


def coq_step(s):
    k = s[0]
    if k == "new":
        return f"SNew {'true' if s[1] else 'false'} {coq_optmap(s[2])}"
    if k == "copy":
        return f"SCopy {s[1]} {coq_optmap(s[2])}"
    if k == "opts":
        return f"SOpts {s[1]} {coq_optmap(s[2])}"
    if k == "reghook":
        return f"SOp {s[1]} (URegHook {s[2]} {s[3]}%N (HUser {s[4]}%N))"
    if k == "regfunc":
        return f"SOp {s[1]} (URegFunc {s[2]} {s[3]}%N (HUser {s[4]}%N))"
    if k == "regfact":
        w = s[6]
        ws = "WNone" if w is None else (f"(WOther (HInit 0 {w}%N))")
        return f"SOp {s[1]} (URegFactory {s[2]} {s[3]}%N {s[4]}%N {'true' if s[5] else 'false'} {ws})"
    if k == "get":
        return f"SOp {s[1]} (UGet {s[2]} {s[3]}%N {'true' if s[4] else 'false'})"
    if k == "probe":
        return f"SProbe {s[1]} {s[2]} {s[3]}%N {'true' if s[4] else 'false'} {coq_xhook(s[5])}"
    if k == "probed":
        return f"SProbeD {s[1]} {s[2]} {s[3]}%N {'true' if s[4] else 'false'} {coq_xhook(s[5])}"
    raise ValueError(s)


def coq_world(pool: Pool, preds, init_tbl):
    def table(rows):
        return "[" + "; ".join(f"({k}%N, {v})" for k, v in rows) + "]"
    mro = table((pool.tid(t), "[" + "; ".join(coq_N(c) for c in pool.mro(t)) + "]") for t in pool.probe_types)
    user = table((pid, table((pool.tid(t), coq_optb(safe_call(fn, t))) for t in pool.probe_types)) for pid, _, fn in preds)
    def init(d):
        return table((i, table((tid, coq_optb(v)) for tid, v in row.items())) for i, row in init_tbl[d].items())
    unions = "[" + "; ".join(coq_N(pool.tid(t)) for t in pool.probe_types if pool.is_union(t)) + "]"
    newtypes = "[" + "; ".join(coq_N(pool.tid(t)) for t in pool.probe_types if pool.is_newtype(t)) + "]"
    return (f"Definition the_world : dir -> world :=\n  mk_world {mro}\n  {user}\n  {init('unstructure')}\n  {init('structure')}\n"
            f"  {unions} {newtypes}.\n")


def cases_file(world_text: str, cases: list) -> str:
    L = ["From V.Model Require Import Base Dispatch Routing DispLane.",
         "From V.Gen Require Import DispatchSrc ConvSrc.",
         world_text,
         "Definition the_cases : list (list sop) := ["]
    L.append(";\n".join("  [" + "; ".join(coq_step(s) for s in c) + "]" for c in cases))
    L.append("].")
    L.append("Eval vm_compute in (bad_cases the_world src_cfg src_csrc 0 the_cases).")
    return "\n".join(L) + "\n"


def answers_file(world_text: str, case: list) -> str:
    L = ["From V.Model Require Import Base Dispatch Routing DispLane.",
         "From V.Gen Require Import DispatchSrc ConvSrc.",
         world_text,
         "Definition the_case : list sop := [" + "; ".join(coq_step(s) for s in case) + "].",
         "Eval vm_compute in (answers the_world src_cfg src_csrc [] the_case)."]
    return "\n".join(L) + "\n"


# ---------------------------------------------------------------- generators

class Gen:
    def __init__(self, rng: random.Random, pool: Pool, preds, tier: str):
        self.rng, self.pool, self.preds, self.tier = rng, pool, preds, tier
        self.tag = 0
        self.done = []
        pool.types_by_id = {i: t for t, i in pool.ids.items()}

    def fresh(self):
        self.tag += 1
        return self.tag

    def reg_targets(self):
        """Types register_*_hook is called with: classes, NewTypes, unions."""
        return [t for t in self.pool.probe_types
                if (isinstance(t, type) and t not in (object,)) or self.pool.is_newtype(t) or self.pool.is_union(t)]

    def options(self, full, allow_fallback=True):
        r = self.rng
        o = {}
        if r.random() < 0.3:
            o["OStrat"] = 1
        if r.random() < 0.3:
            o["ODetailed"] = 1
        if r.random() < 0.2:
            o["OPrefer"] = 1
        if r.random() < 0.15:
            o["ODictFactory"] = 1
        if full and r.random() < 0.2:
            o["OForbid"] = 1
        if full and r.random() < 0.2:
            o["OOmit"] = 1
        if allow_fallback and r.random() < 0.25:
            o["OUnstructFallback"] = 50 + r.randrange(5)
        if allow_fallback and r.random() < 0.25:
            o["OStructFallback"] = 60 + r.randrange(5)
        return o

    def reg_step(self, i, allow_union_struct=True, allow_wrap=False, full=True):
        r = self.rng
        # now and then repeat an earlier registration verbatim (same predicate object, same hook object):
        # a repeated registration is still the most recent one
        if self.done and r.random() < 0.12:
            prev = r.choice(self.done)
            if prev[1] == i and (allow_union_struct or prev[0] != "reghook" or prev[2] == "DUn" or not self.pool.is_union(self.pool.types_by_id[prev[3]])):
                return prev
        s = self._reg_step(i, allow_union_struct, allow_wrap, full)
        self.done.append(s)
        return s

    def _reg_step(self, i, allow_union_struct=True, allow_wrap=False, full=True):
        r = self.rng
        d = r.choice(["DUn", "DSt"])
        k = r.random()
        if k < 0.45:
            ts = self.reg_targets()
            t = r.choice(ts)
            if d == "DSt" and self.pool.is_union(t) and not allow_union_struct:
                d = "DUn"
            return ("reghook", i, d, self.pool.tid(t), self.fresh())
        if k < 0.7:
            p = r.choice(self.preds)[0]
            return ("regfunc", i, d, p, self.fresh())
        p = r.choice(self.preds)[0]
        if allow_wrap and full and r.random() < 0.5:
            return ("regfact", i, "DUn", 3, self.fresh(), True, "wrap")
        return ("regfact", i, d, p, self.fresh(), r.random() < 0.5, None)

    def get_step(self, i):
        r = self.rng
        t = r.choice(self.pool.probe_types)
        return ("get", i, r.choice(["DUn", "DSt"]), self.pool.tid(t), r.random() < 0.75, r.random() < 0.4)


def nontrivial_history(steps):
    kinds = {s[0] for s in steps if s[0] in ("reghook", "regfunc", "regfact", "get", "copy")}
    n = sum(1 for s in steps if s[0] in ("reghook", "regfunc", "regfact", "get", "copy"))
    return n >= 3 and len(kinds) >= 2
