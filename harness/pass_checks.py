"""PASS lane: configure_union_passthrough (C15)."""
from __future__ import annotations

import itertools
import random
import re
from typing import Literal, NewType, Union

import attrs

from cattrs import BaseConverter, Converter
from cattrs._compat import get_newtype_base, is_literal
from cattrs.strategies import configure_union_passthrough
from common import Verdict, parse_coq_value, run_cases_file

NoneType = type(None)


@attrs.define
class SA:
    x: int = 0


@attrs.define
class SB:
    y: int = 0


class IntSub(int):
    pass


NTint = NewType("NTint", int)
NTstr = NewType("NTstr", str)
NTA = NewType("NTA", SA)

CLASSES = [NoneType, str, bool, int, float, bytes, SA, SB, IntSub]
CID = {c: i for i, c in enumerate(CLASSES)}          # NoneType has id 0 (Passthrough.none_cls)
NEWTYPES = {NTint: 50, NTstr: 51, NTA: 52}
LIT_POOL = [0, False, 1, True, 2, "", "a", "b", b"", b"x", None]
PROBES = [0, False, 0.0, 1, True, 1.0, 2, 3, "", "a", "b", "zz", b"", b"x", None, 2.5, IntSub(1), IntSub(7)]


class Eq:
    """interning of values by Python equality (1 == True == 1.0 share an id)"""

    def __init__(self):
        self.d = {}

    def __call__(self, v):
        if v not in self.d:
            self.d[v] = len(self.d) + 10
        return self.d[v]


class Spill:
    def __init__(self, what):
        self.what = what


def encode_member(t, eq):
    if is_literal(t):
        return "MLit [" + "; ".join(f"({CID[v.__class__]}%N, {eq(v)}%N)" for v in t.__args__) + "]"
    b = get_newtype_base(t)
    if b is not None:
        return f"MNewType {NEWTYPES[t]}%N {CID[b]}%N"
    return f"MCls {CID[t]}%N"


def doc_applies(u_args, s_set):
    """the documented applicability: the union mentions a configured class -- as a member, as the base of a NewType member or as
    the class of a literal -- and is not a plain Optional[X] (exactly two members, one of them None), which is left to the default hook"""
    if len(set(u_args)) == 2 and NoneType in u_args:
        return False
    for t in u_args:
        if is_literal(t):
            if any(lit.__class__ in s_set for lit in t.__args__):
                return True
        elif (get_newtype_base(t) or t) in s_set:
            return True
    return False


def gen_union(rng):
    members = []
    if rng.random() < 0.2:
        # members that collapse onto one class once literals and NewTypes are normalised, next to None
        x = rng.choice([str, int, bool, bytes])
        pool = [x, Literal[tuple(v for v in LIT_POOL if v.__class__ is x)[:rng.randint(1, 2)]]] + [nt for nt in NEWTYPES if get_newtype_base(nt) is x]
        members = [NoneType] + rng.sample(pool, rng.randint(2, len(pool)))
        rng.shuffle(members)
        return Union[tuple(members)]
    for _ in range(rng.randint(2, 5)):
        r = rng.random()
        if r < 0.45:
            members.append(rng.choice(CLASSES[:8]))
        elif r < 0.75:
            vals = rng.sample(LIT_POOL, rng.randint(1, 3))
            members.append(Literal[tuple(vals)])
        else:
            members.append(rng.choice(list(NEWTYPES)))
    try:
        u = Union[tuple(members)]
    except Exception:
        return None
    if not hasattr(u, "__args__") or is_literal(u) or get_newtype_base(u) is not None or len(getattr(u, "__args__", ())) < 2:
        return None
    return u


def doc_rule(u_args, s_set, v):
    """the documented rule, re-implemented (independent of the model)"""
    accepted = set()
    for t in u_args:
        if is_literal(t):
            continue
        b = get_newtype_base(t) or t
        if b in s_set:
            accepted.add(b)
    accepted |= {a for a in s_set if any(isinstance(a, type) and isinstance(c, type) and issubclass(a, c) for c in accepted)}
    for t in u_args:
        if is_literal(t):
            for lit in t.__args__:
                if lit.__class__ is v.__class__ and lit == v:
                    return ("pass",)
    if v.__class__ in accepted:
        return ("pass",)
    rest = [t for t in u_args if not is_literal(t) and (get_newtype_base(t) or t) not in accepted]
    if rest:
        return ("delegate", frozenset(rest))
    return ("reject",)


def observe(conv, u, v):
    try:
        r = conv.structure(v, u)
    except TypeError:
        return ("reject",)
    except Exception as e:
        return ("error", repr(e))
    if isinstance(r, Spill):
        return ("delegate", r.what)
    if r is v:
        return ("pass",)
    return ("coerced", repr(r))


SPILLABLE = None


def make_converter(rng, s_members):
    conv = (Converter if rng.random() < 0.7 else BaseConverter)(detailed_validation=rng.random() < 0.5)
    # tagged hooks for everything the strategy may hand the value to
    for t in (SA, SB, NTA, NTint, NTstr, bytes, float, str, int, bool, NoneType):
        # class registrations take precedence over the born-with hooks of str/int/float/bytes
        conv.register_structure_hook(t, lambda val, _t, t=t: Spill(frozenset([t])))
    spillable = {SA, SB, NTA, NTint, NTstr, bytes, float, str, int, bool, NoneType}
    global SPILLABLE
    SPILLABLE = spillable
    conv.register_structure_hook_func(
        lambda x: getattr(x, "__origin__", None) is Union and all(a in spillable for a in x.__args__),
        lambda val, t: Spill(frozenset(t.__args__)))
    configure_union_passthrough(Union[tuple(s_members)], conv)
    return conv


def check_c15(v: Verdict, t1_summary, n_unions):
    rng = random.Random(v.seed * 7919 + 15)
    eq = Eq()
    pairs = bool((t1_summary.get("unions") or {}).get("literal_pairs", True))
    cases, meta = [], []
    hist = {"unions": 0, "applies": 0, "probes": 0, "pass": 0, "delegate": 0, "reject": 0, "orders": 0, "with_literals": 0,
            "with_newtypes": 0, "lookalike_probes": 0, "f6_hits": 0}
    sub_tbl = [(CID[a], CID[c]) for a in CLASSES for c in CLASSES if issubclass(a, c)]
    sub_coq = "(fun a c => existsb (fun p => N.eqb (fst p) a && N.eqb (snd p) c) [" + "; ".join(f"({a}%N, {c}%N)" for a, c in sub_tbl) + "])"
    # systematic first: both spellings of every two-member union with None (Optional[X] is documented as left to the default hook --
    # whatever the position of None), then random unions
    JSON_SET = [str, bool, int, float, NoneType]
    fixed = []
    for x in [str, int, bool, float, bytes, SA] + list(NEWTYPES)[:2] + [Literal[1, "a"]]:
        fixed += [(Union[None, x], JSON_SET), (Union[x, None], JSON_SET)]
    # literals whose class is an UNCONFIGURED subclass of a configured member (bool under int, IntSub under int): accepted by value only
    for lit_u, s in [(Union[Literal[True], int, str], [int, str, NoneType]), (Union[Literal[True, False], int], [int, NoneType]),
                     (Union[Literal[True], int, str, None], [int, str, NoneType]), (Union[Literal[1], bool, str], [bool, str]),
                     (Union[Literal[True], float, str], [float, str, int]), (Union[Literal["a"], int], [int, bytes])]:
        fixed.append((lit_u, s))
    attempts = 0
    while hist["unions"] < n_unions + len(fixed):
        from_fixed = hist["unions"] < len(fixed)
        u = fixed[hist["unions"]][0] if from_fixed else gen_union(rng)
        if u is None:
            continue
        s_members = rng.sample(CLASSES[:6], rng.randint(2, 6))
        if rng.random() < 0.3:
            s_members = list(JSON_SET)          # the preconfigured JSON converters' set
        if from_fixed:
            s_members = list(fixed[hist["unions"]][1])
        if rng.random() < 0.2 and IntSub not in s_members:
            s_members.append(IntSub)
        conv = make_converter(rng, s_members)
        attempts += 1
        try:
            hook = conv.get_structure_hook(u)
        except Exception as e:
            if not doc_applies(list(u.__args__), set(s_members)):
                # a union the strategy leaves to the converter, and the converter has no hook for it: fine -- unless the SAME members in
                # another order do get a hook (the outcome must not depend on the order of the members)
                args0 = list(u.__args__)
                for i in range(1, len(args0)):
                    rot = args0[i:] + args0[:i]
                    try:
                        make_converter(random.Random(1), s_members).get_structure_hook(Union[tuple(rot)])
                    except Exception:      # noqa
                        continue
                    v.violation("whether a union can be structured at all depends on the order of its members",
                                {"lane": "PASS/C15", "union_members_in_order": [repr(a) for a in args0], "configured": [c.__name__ for c in s_members],
                                 "this_order": "hook creation raised " + type(e).__name__, "other_order": [repr(a) for a in rot], "other_order_outcome": "hook created"})
                    break
                if from_fixed or attempts > 40 * (n_unions + len(fixed)):
                    hist["unions"] += 1          # (never retry a fixed union; never spin on the random ones)
                    hist["skipped_no_hook"] = hist.get("skipped_no_hook", 0) + 1
                continue
            hook = e             # no hook at all for a union the strategy is documented to handle
        applies = getattr(hook, "__name__", "") == "structure_native_union"
        hist["unions"] += 1
        hist["applies"] += applies
        args = list(u.__args__)
        hist["with_literals"] += any(is_literal(t) for t in args)
        hist["with_newtypes"] += any(get_newtype_base(t) is not None for t in args)
        U_coq = "[" + "; ".join(encode_member(t, eq) for t in args) + "]"
        S_coq = "[" + "; ".join(f"{CID[c]}%N" for c in s_members) + "]"
        cases.append(f"Bool.eqb (applies {S_coq} {U_coq}) {'true' if applies else 'false'}")
        meta.append({"union": repr(u), "configured": [c.__name__ for c in s_members], "check": "applies", "observed": applies})
        want_applies = doc_applies(args, set(s_members))
        hist["doc_applies"] = hist.get("doc_applies", 0) + want_applies
        if want_applies and not applies:
            # the strategy declined a union it is documented to handle: look for a value that should come back as it is
            for val in PROBES:
                if doc_rule(args, set(s_members), val) == ("pass",):
                    obs = observe(conv, u, val)
                    if obs != ("pass",):
                        v.violation("union passthrough is not applied to a union containing configured classes: a value of an accepted class is not returned as it is",
                                    {"lane": "PASS/C15", "union": repr(u), "configured": [c.__name__ for c in s_members], "value": repr(val),
                                     "observed": repr(obs), "documented": "('pass',)", "hook": getattr(hook, "__qualname__", repr(hook))})
                        break
        if not want_applies and applies and all(a in SPILLABLE for a in args):
            # the strategy claimed a union it is documented to leave alone (a plain Optional, in either spelling): every value must
            # still reach the hook that handles the union without the strategy (here: the tagging hook registered for such unions)
            for val in PROBES:
                obs = observe(conv, u, val)
                if obs != ("delegate", frozenset(args)):
                    v.violation("union passthrough handles a union it is documented to leave to the default hooks (a plain Optional): the outcome differs from the converter's own hook for it",
                                {"lane": "PASS/C15", "union": repr(u), "members_in_order": [repr(a) for a in args], "configured": [c.__name__ for c in s_members], "value": repr(val),
                                 "observed": repr(obs), "documented": repr(("delegate", frozenset(args)))})
                    break
        if not applies:
            continue
        # all rotations and a few random permutations of the members
        orders = [args[i:] + args[:i] for i in range(len(args))]
        for _ in range(2):
            p = args[:]
            rng.shuffle(p)
            orders.append(p)
        for val in PROBES:
            hist["probes"] += 1
            hist["lookalike_probes"] += val in (0, 1) and type(val) in (bool, float, int)
            obs = observe(conv, u, val)
            want = doc_rule(args, set(s_members), val)
            desc = {"union": repr(u), "configured": [c.__name__ for c in s_members], "value": repr(val), "observed": repr(obs)}
            v.count(repr((u, tuple(s_members), repr(val))), len(args) >= 2)
            if obs[0] in ("error", "coerced"):
                v.violation("passthrough hook coerced the value or raised something other than TypeError", {"lane": "PASS/C15", **desc})
                continue
            hist[obs[0]] += 1
            if obs != want:
                rp = {"lane": "PASS/C15", **desc, "documented": repr(want)}
                lits = [l for t in args if is_literal(t) for l in t.__args__]
                if obs == ("pass",) and any(l == val and l.__class__ is not val.__class__ for l in lits):
                    hist["f6_hits"] += 1
                    v.finding("F6", "a look-alike of a literal (equal value, other class) is passed through", rp)
                else:
                    v.violation("passthrough outcome differs from the documented rule", rp)
            ocoq = {"pass": "Pass", "reject": "Reject"}.get(obs[0]) or ("(Delegate [" + "; ".join(encode_member(t, eq) for t in obs[1]) + "])")
            cases.append(f"outcome_same (structure_native {sub_coq} {S_coq} {'true' if pairs else 'false'} {U_coq} ({CID[val.__class__]}%N, {eq(val)}%N)) {ocoq}")
            meta.append(desc)
            # order independence on the implementation
            for order in orders[1:]:
                hist["orders"] += 1
                u2 = Union[tuple(order)]
                o2 = observe(conv, u2, val)
                if o2 != obs:
                    v.violation("passthrough outcome depends on the order of the union's members",
                                {"lane": "PASS/C15", **desc, "other_order": repr(order), "other_outcome": repr(o2)})
        if len(v.samples) < 4:
            v.samples.append({"union": repr(u), "configured": [c.__name__ for c in s_members]})
    bad = []
    shard = 500
    for k in range(0, len(cases), shard):
        src = ("From V.Model Require Import Base Passthrough.\nDefinition cs : list bool := [\n" + ";\n".join(cases[k:k + shard]) + "\n].\n"
               "Fixpoint bad (k : nat) (l : list bool) : list nat := match l with [] => [] | b :: r => if b then bad (S k) r else k :: bad (S k) r end.\n"
               "Eval vm_compute in (bad 0 cs).\n")
        rc, out = run_cases_file(f"c15_{v.seed}_{k}", src)
        vals = parse_coq_value(out)
        if rc != 0 or not vals:
            v.obligation("correspondence:PASS/C15:coqc", False, out[-600:])
            return
        if vals[-1] != "[]":
            bad += [k + int(x) for x in re.findall(r"\d+", vals[-1])]
    v.obligation("correspondence:PASS/C15 (model outcome and applicability = implementation)", not bad,
                 "" if not bad else f"{len(bad)} of {len(cases)} disagree, first: {meta[bad[0]]}")
    v.coverage["input_distribution"] = hist


def check_c02_passthrough(v: Verdict, n_unions):
    """C02 over unions handled by the union-passthrough strategy (every preconfigured converter uses it), oracle only: a value
    that comes back from structure(v, U) unchanged must be a value of U -- an instance of one of U's classes (NewTypes by
    their base) or equal to one of U's literals."""
    rng = random.Random(v.seed * 7919 + 2015)
    hist = {"unions": 0, "probes": 0, "passed_through": 0}
    attempts = 0
    while hist["unions"] < n_unions and attempts < 60 * n_unions:
        attempts += 1
        u = gen_union(rng)
        if u is None:
            continue
        s_members = rng.sample(CLASSES[:6], rng.randint(2, 6))
        if rng.random() < 0.4:
            s_members = [str, bool, int, float, NoneType]
        conv = make_converter(rng, s_members)
        try:
            conv.get_structure_hook(u)
        except Exception:
            continue
        hist["unions"] += 1
        args = list(u.__args__)
        for val in PROBES:
            hist["probes"] += 1
            obs = observe(conv, u, val)
            v.count(repr(("C02", u, tuple(s_members), repr(val))), True)
            if obs != ("pass",):
                continue
            hist["passed_through"] += 1
            ok = False
            for t in args:
                if is_literal(t):
                    # membership as C02 reads it for Literal positions: Python `in` (equality); the exact-class rule of the
                    # passthrough strategy itself is C15's business, and plain Optional[Literal[..]] goes to the default hooks
                    ok = ok or any(lit == val for lit in t.__args__)
                else:
                    b = get_newtype_base(t) or t
                    ok = ok or (isinstance(b, type) and isinstance(val, b))
            if not ok:
                v.violation("structure returned a value that is not a value of the requested union (union passthrough)",
                            {"lane": "PASS/C02", "union": repr(u), "configured": [c.__name__ for c in s_members], "value": repr(val), "returned": repr(val)})
    v.coverage["passthrough_soundness"] = hist
