"""Corpus of minimal replays of the OPEN known findings: run first by every check that lists them, so the
KNOWN-FINDING line does not depend on what the random generators happen to hit.  Each entry returns a
replay dict when the defect is still there, None when it is gone."""
from typing import NotRequired, TypedDict

import attrs


class _TD(TypedDict):
    a: int


class _TDopt(TypedDict):
    a: NotRequired[int]


def f4():
    from cattrs import Converter
    r = Converter().structure({"a": 1, "q": 2}, _TD)
    if r != {"a": 1}:
        return {"python_repro": "Converter().structure({'a': 1, 'q': 2}, TD)", "observed": repr(r), "expected": "{'a': 1}"}


def f11():
    from cattrs import Converter
    try:
        r = Converter(detailed_validation=False).structure([1, 2], _TDopt)
    except Exception:
        return None
    return {"python_repro": "Converter(detailed_validation=False).structure([1, 2], TD)  # TD has no required key", "observed": repr(r),
            "expected": "an exception, as with detailed_validation=True"}


def f3():
    from cattrs import Converter
    from cattrs.gen import make_dict_unstructure_fn, override

    @attrs.define
    class K:
        a: int = 0
    try:
        make_dict_unstructure_fn(K, Converter(), a=override(rename="it's"))
    except SyntaxError as e:
        return {"python_repro": "make_dict_unstructure_fn(K, Converter(), a=override(rename=\"it's\"))", "observed": repr(e)}


def f22():
    from cattrs import Converter

    @attrs.define
    class K:
        a: int = attrs.field(default=1, converter=lambda v: v + 1)
    r = Converter(omit_if_default=True).unstructure(K())
    if r != {}:
        return {"python_repro": "Converter(omit_if_default=True).unstructure(K())  # K.a = field(default=1, converter=lambda v: v + 1)",
                "observed": repr(r), "expected": "{}"}


def f23():
    from typing import Union
    from cattrs import Converter

    @attrs.define
    class A:
        a: int
        x: int

    @attrs.define
    class B:
        x: int
        y: int

    @attrs.define
    class C:
        y: int
    out = {}
    for order in ((A, B, C), (B, A, C)):
        try:
            Converter().get_structure_hook(Union[order])
            out["/".join(c.__name__ for c in order)] = "hook created"
        except Exception as e:
            out["/".join(c.__name__ for c in order)] = f"{type(e).__name__}: {e}"[:80]
    if len(set(v.split(":")[0] for v in out.values())) > 1:
        return {"python_repro": "A(a, x), B(x, y), C(y): Converter().get_structure_hook(Union[A, B, C]) vs Union[B, A, C]", "observed": out}


REPLAYS = {"F4": f4, "F11": f11, "F3": f3, "F22": f22, "F23": f23}


def run_corpus(v):
    from common import load_known_findings
    for f in load_known_findings():
        if f.get("fixed") or v.prop not in f.get("properties", []) or f["id"] not in REPLAYS:
            continue
        rp = REPLAYS[f["id"]]()
        if rp is not None:
            v.finding(f["id"], f["what"], {"lane": "corpus", **rp})
