"""Corpus of minimal replays of the OPEN known findings: run first by every check that lists them, so the
KNOWN-FINDING line does not depend on what the random generators happen to hit.  Each entry returns a
replay dict when the defect is still there, None when it is gone."""
from typing import NotRequired, TypedDict

import attrs


class _TD(TypedDict):
    a: int


class _TDopt(TypedDict):
    a: NotRequired[int]


def f4():
    from cattrs import Converter
    r = Converter().structure({"a": 1, "q": 2}, _TD)
    if r != {"a": 1}:
        return {"python_repro": "Converter().structure({'a': 1, 'q': 2}, TD)", "observed": repr(r), "expected": "{'a': 1}"}


def f11():
    from cattrs import Converter
    try:
        r = Converter(detailed_validation=False).structure([1, 2], _TDopt)
    except Exception:
        return None
    return {"python_repro": "Converter(detailed_validation=False).structure([1, 2], TD)  # TD has no required key", "observed": repr(r),
            "expected": "an exception, as with detailed_validation=True"}


def f3():
    from cattrs import Converter
    from cattrs.gen import make_dict_unstructure_fn, override

    @attrs.define
    class K:
        a: int = 0
    try:
        make_dict_unstructure_fn(K, Converter(), a=override(rename="it's"))
    except SyntaxError as e:
        return {"python_repro": "make_dict_unstructure_fn(K, Converter(), a=override(rename=\"it's\"))", "observed": repr(e)}


def f22():
    from cattrs import Converter

    @attrs.define
    class K:
        a: int = attrs.field(default=1, converter=lambda v: v + 1)
    r = Converter(omit_if_default=True).unstructure(K())
    if r != {}:
        return {"python_repro": "Converter(omit_if_default=True).unstructure(K())  # K.a = field(default=1, converter=lambda v: v + 1)",
                "observed": repr(r), "expected": "{}"}


def f23():
    from typing import Union
    from cattrs import Converter

    @attrs.define
    class A:
        a: int
        x: int

    @attrs.define
    class B:
        x: int
        y: int

    @attrs.define
    class C:
        y: int
    out = {}
    for order in ((A, B, C), (B, A, C)):
        try:
            Converter().get_structure_hook(Union[order])
            out["/".join(c.__name__ for c in order)] = "hook created"
        except Exception as e:
            out["/".join(c.__name__ for c in order)] = f"{type(e).__name__}: {e}"[:80]
    if len(set(v.split(":")[0] for v in out.values())) > 1:
        return {"python_repro": "A(a, x), B(x, y), C(y): Converter().get_structure_hook(Union[A, B, C]) vs Union[B, A, C]", "observed": out}


_F36_SRC = '''
import dataclasses
from typing import Dict, List, NotRequired, Self, TypedDict
@dataclasses.dataclass
class G1:
    link: 'List[G0]'
class G0(TypedDict):
    link: Dict[str, G1]
    me: NotRequired[List[Self]]
class Tree(TypedDict):
    children: List[Self]
    n: int
'''


def f36():
    """hook generation for a self-referential TypedDict must stop at the working-set guard, far from the interpreter's recursion
    limit (near the limit the dispatcher's predicates fail and wrong hooks are chosen and cached)"""
    import sys
    import types
    import cattrs.dispatch as D
    from cattrs import Converter
    mod = types.ModuleType("verif_corpus_f36")
    sys.modules[mod.__name__] = mod
    orig = D.FunctionDispatch.dispatch
    depth = [0, 0]

    def counting(self, typ):
        f, n = sys._getframe(), 0
        while f:
            n += 1
            f = f.f_back
        depth[1] = max(depth[1], n)
        return orig(self, typ)
    try:
        exec(compile(_F36_SRC, mod.__name__, "exec"), mod.__dict__)
        f, n = sys._getframe(), 0
        while f:
            n += 1
            f = f.f_back
        depth[0] = n
        D.FunctionDispatch.dispatch = counting
        out = {}
        for dv in (True, False):
            c = Converter(detailed_validation=dv)
            for T, u in ((mod.G1, {"link": [{"link": {"k0": {"link": []}}, "me": [{"link": {}, "me": []}]}]}),
                         (mod.Tree, {"children": [{"children": [], "n": 1}], "n": 0})):
                try:
                    r = c.structure(u, T)
                    ok = c.unstructure(r, T) == u
                    out[f"{T.__name__}/dv={dv}"] = "ok" if ok else f"round trip differs: {r!r}"
                except Exception as e:      # noqa
                    out[f"{T.__name__}/dv={dv}"] = f"{type(e).__name__}: {e}"[:160]
        used = depth[1] - depth[0]
        if used > 300 or any(x != "ok" for x in out.values()):
            return {"python_repro": "Converter(detailed_validation=True).structure({...}, G1)  # " + _F36_SRC.replace("\n", "; ")[:300],
                    "observed": out, "stack_frames_used_by_hook_generation": used, "expected": "every call succeeds; generation stops at the working-set guard (a few dozen frames)"}
    finally:
        D.FunctionDispatch.dispatch = orig
        sys.modules.pop(mod.__name__, None)


def f34():
    """reference cycle between attrs classes, subclass instances: the entry point of the first use must not matter"""
    from typing import List
    from cattrs import Converter
    A = attrs.define(type("CA34", (), {"__annotations__": {"bs": "List[CB34]"}, "bs": attrs.field(factory=list)}))
    B = attrs.define(type("CB34", (), {"__annotations__": {"as_": "List[CA34]"}, "as_": attrs.field(factory=list)}))
    ns = {"CA34": A, "CB34": B, "List": List}
    attrs.resolve_types(A, ns)
    attrs.resolve_types(B, ns)
    A2 = attrs.make_class("CA34b", {"more": attrs.field(type=int, default=7)}, bases=(A,))
    B2 = attrs.make_class("CB34b", {"extra": attrs.field(type=int, default=5)}, bases=(B,))
    val = A(bs=[B2(as_=[A2(bs=[B2()])])])
    res = {}
    for first in ("A", "B"):
        c = Converter()
        c.unstructure(A() if first == "A" else B())
        res[first] = c.unstructure(val)
    if res["A"] != res["B"]:
        return {"python_repro": "A.bs: List[B], B.as_: List[A]; c.unstructure(A(bs=[B2(as_=[A2(bs=[B2()])])])) after c.unstructure(A()) vs after c.unstructure(B())",
                "observed": {k: repr(x) for k, x in res.items()}, "expected": "the same result"}


REPLAYS = {"F4": f4, "F11": f11, "F3": f3, "F22": f22, "F23": f23, "F34": f34, "F36": f36}
REGRESSIONS = {"F34", "F36"}        # fixed findings whose minimal replay keeps running (a fixed entry suppresses nothing: a return is a violation)


def run_corpus(v):
    from common import load_known_findings
    for f in load_known_findings():
        if v.prop not in f.get("properties", []) or f["id"] not in REPLAYS:
            continue
        if f.get("fixed") and f["id"] not in REGRESSIONS:
            continue
        rp = REPLAYS[f["id"]]()
        if rp is not None:
            v.finding(f["id"], f["what"], {"lane": "corpus", **rp})


# ---- C17 (generics); the classes are defined here, in a module without `from __future__ import annotations`
from typing import Annotated as _Annotated, Generic as _Generic, List as _List, TypeVar as _TypeVar

_T = _TypeVar("T")
_U = _TypeVar("U")
_T_again = _TypeVar("T")


@attrs.define
class _GA(_Generic[_T]):
    x: _Annotated[_T, "m"]


@attrs.define
class _GBase(_Generic[_U]):
    y: _U


@attrs.define
class _GChild(_GBase[_T], _Generic[_T]):
    z: _T


@attrs.define
class _GBase2(_Generic[_T_again]):
    y: _T_again


@attrs.define
class _GChild2(_GBase2[int], _Generic[_T]):
    z: _T


class T:          # a CLASS named like the TypeVar
    def __init__(self, v):
        self.v = v


@attrs.define
class _GNamed(_Generic[_T]):
    xs: _List[T]
    y: _T


def _try(f):
    try:
        return ("ok", f())
    except Exception as e:
        return ("err", f"{type(e).__name__}: {e}"[:90])


def f25():
    from cattrs import Converter
    r = _try(lambda: Converter().structure({"x": "5"}, _GA[int]))
    if r != ("ok", _GA(5)):
        return {"python_repro": "G(Generic[T]) with x: Annotated[T, 'm']; Converter().structure({'x': '5'}, G[int])", "observed": repr(r), "expected": "G(x=5)"}


def f26():
    from cattrs import Converter
    r = _try(lambda: Converter().structure({"y": "1", "z": "2"}, _GChild[int]))
    if r != ("ok", _GChild(1, 2)):
        return {"python_repro": "Base(Generic[U]): y: U; Child(Base[T], Generic[T]): z: T; structure({'y': '1', 'z': '2'}, Child[int])", "observed": repr(r)}


def f14():
    from cattrs import Converter
    r = _try(lambda: Converter().structure({"y": "1", "z": "2"}, _GChild2[str]))
    if r != ("ok", _GChild2(1, "2")):
        return {"python_repro": "Base(Generic[T']) (another TypeVar named T): y: T'; Child(Base[int], Generic[T]): z: T; structure({'y': '1', 'z': '2'}, Child[str])",
                "observed": repr(r), "expected": "Child(y=1, z='2')"}


def f13():
    from cattrs import Converter
    c = Converter()
    c.register_structure_hook(T, lambda v, _: T(v))
    r = _try(lambda: c.structure({"xs": ["1"], "y": "2"}, _GNamed[int]))
    if r[0] != "ok" or not isinstance(r[1].xs[0], T):
        return {"python_repro": "class T (a class); G(Generic[T~]): xs: List[T]; y: T~; structure({'xs': ['1'], 'y': '2'}, G[int])", "observed": repr(r),
                "expected": "xs holds instances of class T"}


REPLAYS.update({"F25": f25, "F26": f26, "F14": f14, "F13": f13})
