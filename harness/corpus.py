"""Corpus of minimal replays of the OPEN known findings: run first by every check that lists them, so the
KNOWN-FINDING line does not depend on what the random generators happen to hit.  Each entry returns a
replay dict when the defect is still there, None when it is gone."""
from typing import NotRequired, TypedDict

import attrs


class _TD(TypedDict):
    a: int


class _TDopt(TypedDict):
    a: NotRequired[int]


def f4():
    from cattrs import Converter
    r = Converter().structure({"a": 1, "q": 2}, _TD)
    if r != {"a": 1}:
        return {"python_repro": "Converter().structure({'a': 1, 'q': 2}, TD)", "observed": repr(r), "expected": "{'a': 1}"}


def f11():
    from cattrs import Converter
    try:
        r = Converter(detailed_validation=False).structure([1, 2], _TDopt)
    except Exception:
        return None
    return {"python_repro": "Converter(detailed_validation=False).structure([1, 2], TD)  # TD has no required key", "observed": repr(r),
            "expected": "an exception, as with detailed_validation=True"}


def f3():
    from cattrs import Converter
    from cattrs.gen import make_dict_unstructure_fn, override

    @attrs.define
    class K:
        a: int = 0
    try:
        make_dict_unstructure_fn(K, Converter(), a=override(rename="it's"))
    except SyntaxError as e:
        return {"python_repro": "make_dict_unstructure_fn(K, Converter(), a=override(rename=\"it's\"))", "observed": repr(e)}


def f22():
    from cattrs import Converter

    @attrs.define
    class K:
        a: int = attrs.field(default=1, converter=lambda v: v + 1)
    r = Converter(omit_if_default=True).unstructure(K())
    if r != {}:
        return {"python_repro": "Converter(omit_if_default=True).unstructure(K())  # K.a = field(default=1, converter=lambda v: v + 1)",
                "observed": repr(r), "expected": "{}"}


def f23():
    from typing import Union
    from cattrs import Converter

    @attrs.define
    class A:
        a: int
        x: int

    @attrs.define
    class B:
        x: int
        y: int

    @attrs.define
    class C:
        y: int
    out = {}
    for order in ((A, B, C), (B, A, C)):
        try:
            Converter().get_structure_hook(Union[order])
            out["/".join(c.__name__ for c in order)] = "hook created"
        except Exception as e:
            out["/".join(c.__name__ for c in order)] = f"{type(e).__name__}: {e}"[:80]
    if len(set(v.split(":")[0] for v in out.values())) > 1:
        return {"python_repro": "A(a, x), B(x, y), C(y): Converter().get_structure_hook(Union[A, B, C]) vs Union[B, A, C]", "observed": out}


REPLAYS = {"F4": f4, "F11": f11, "F3": f3, "F22": f22, "F23": f23}


def run_corpus(v):
    from common import load_known_findings
    for f in load_known_findings():
        if f.get("fixed") or v.prop not in f.get("properties", []) or f["id"] not in REPLAYS:
            continue
        rp = REPLAYS[f["id"]]()
        if rp is not None:
            v.finding(f["id"], f["what"], {"lane": "corpus", **rp})


# ---- C17 (generics); the classes are defined here, in a module without `from __future__ import annotations`
from typing import Annotated as _Annotated, Generic as _Generic, List as _List, TypeVar as _TypeVar

_T = _TypeVar("T")
_U = _TypeVar("U")
_T_again = _TypeVar("T")


@attrs.define
class _GA(_Generic[_T]):
    x: _Annotated[_T, "m"]


@attrs.define
class _GBase(_Generic[_U]):
    y: _U


@attrs.define
class _GChild(_GBase[_T], _Generic[_T]):
    z: _T


@attrs.define
class _GBase2(_Generic[_T_again]):
    y: _T_again


@attrs.define
class _GChild2(_GBase2[int], _Generic[_T]):
    z: _T


class T:          # a CLASS named like the TypeVar
    def __init__(self, v):
        self.v = v


@attrs.define
class _GNamed(_Generic[_T]):
    xs: _List[T]
    y: _T


def _try(f):
    try:
        return ("ok", f())
    except Exception as e:
        return ("err", f"{type(e).__name__}: {e}"[:90])


def f25():
    from cattrs import Converter
    r = _try(lambda: Converter().structure({"x": "5"}, _GA[int]))
    if r != ("ok", _GA(5)):
        return {"python_repro": "G(Generic[T]) with x: Annotated[T, 'm']; Converter().structure({'x': '5'}, G[int])", "observed": repr(r), "expected": "G(x=5)"}


def f26():
    from cattrs import Converter
    r = _try(lambda: Converter().structure({"y": "1", "z": "2"}, _GChild[int]))
    if r != ("ok", _GChild(1, 2)):
        return {"python_repro": "Base(Generic[U]): y: U; Child(Base[T], Generic[T]): z: T; structure({'y': '1', 'z': '2'}, Child[int])", "observed": repr(r)}


def f14():
    from cattrs import Converter
    r = _try(lambda: Converter().structure({"y": "1", "z": "2"}, _GChild2[str]))
    if r != ("ok", _GChild2(1, "2")):
        return {"python_repro": "Base(Generic[T']) (another TypeVar named T): y: T'; Child(Base[int], Generic[T]): z: T; structure({'y': '1', 'z': '2'}, Child[str])",
                "observed": repr(r), "expected": "Child(y=1, z='2')"}


def f13():
    from cattrs import Converter
    c = Converter()
    c.register_structure_hook(T, lambda v, _: T(v))
    r = _try(lambda: c.structure({"xs": ["1"], "y": "2"}, _GNamed[int]))
    if r[0] != "ok" or not isinstance(r[1].xs[0], T):
        return {"python_repro": "class T (a class); G(Generic[T~]): xs: List[T]; y: T~; structure({'xs': ['1'], 'y': '2'}, G[int])", "observed": repr(r),
                "expected": "xs holds instances of class T"}


REPLAYS.update({"F25": f25, "F26": f26, "F14": f14, "F13": f13})
