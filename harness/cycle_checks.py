"""cycle_checks.py -- the CYCLE battery: families of mutually recursive classes of mixed kinds.

The nested model (Model/Conv.v) knows attrs classes and dataclasses that refer to themselves; cattrs' hook generation
for *mutually* recursive classes goes through the thread-local working set and the RecursionError late-binding signal,
and differs by class kind (attrs / dataclass / NamedTuple / TypedDict) and by the wrapper closing the cycle.  This
battery is oracle-only (no model involved): it generates such families as Python source, executes them in a fresh
module (so that forward references resolve the way user code's do) and checks the conversion properties directly:

  C01  structure(unstructure(x, T), T) == x and of the same classes at every depth
  C02  an accepted (possibly corrupted) payload yields a value of T at every depth
  C03  unstructure gives exactly the documented encoding, built from primitives only
  C04  the other validation mode accepts the same payloads with the same results
  C06  Converter and BaseConverter agree (families of attrs classes and dataclasses only)

Operations run in a random order on converters that live as long as the family, so that hooks are generated from
different entry points of the cycle (which hook is generated inside which matters).
"""
import copy
import dataclasses
import enum
import itertools
import random
import sys
import types
import typing

import attrs

from common import Verdict

KINDS = ["attrs", "dataclass", "nt", "nt", "td", "td"]
WRAPS = ["opt", "list", "dict", "tup"]
PLAIN = [("int",), ("str",), ("enum",), ("float",), ("list", ("int",)), ("opt", ("str",)), ("bool",), ("dict", ("enum",)), ("any",), ("any",)]
_counter = itertools.count()


# ------------------------------------------------------------------------------------ family generation

def ann(t):
    k = t[0]
    if k in ("int", "str", "float", "bool"):
        return k
    if k == "any":
        return "Any"
    if k == "enum":
        return "E"
    if k == "opt":
        return f"Union[None, {ann(t[1])}]" if len(t) > 2 and t[2] == 1 else f"Optional[{ann(t[1])}]"
    if k == "list":
        return f"List[{ann(t[1])}]"
    if k == "dict":
        return f"Dict[str, {ann(t[1])}]"
    if k == "tup":
        return f"Tuple[{ann(t[1])}, ...]"
    if k == "ref":
        return f"G{t[1]}"
    raise ValueError(t)


def has_ref(t):
    return t[0] == "ref" or any(isinstance(x, tuple) and has_ref(x) for x in t[1:])


def refs(t):
    if t[0] == "ref":
        yield t[1]
    for x in t[1:]:
        if isinstance(x, tuple):
            yield from refs(x)


def empty_of(t):
    return {"opt": None, "list": [], "dict": {}, "tup": ()}[t[0]]


def default_src(t, kind):
    """source text of a default of type t, as an attrs.field / dataclasses.field argument list or a plain NamedTuple default"""
    k = t[0]
    lit = {"int": "0", "str": "''", "float": "0.5", "bool": "False", "enum": "E.A", "any": "None", "opt": "None", "tup": "()"}.get(k)
    if kind == "nt":
        return lit if lit is not None else {"list": "()", "dict": "None"}[k]      # (immutable stand-ins: never used, values are always passed)
    if lit is not None:
        return f"default={lit}"
    fac = {"list": "list", "dict": "dict"}[k]
    return (f"factory={fac}" if kind == "attrs" else f"default_factory={fac}")


def gen_family(rng):
    """k classes G0..G(k-1).  Class i links to class i+1 (mod k); classes are DEFINED in the order G(k-1) .. G0, so the
    only forward reference of the cycle is the one from G(k-1) to G0 (G(k-1) is an attrs class or a dataclass; whether
    NamedTuples / TypedDicts may carry forward references is not something the documentation promises)."""
    k = rng.choice([1, 2, 2, 2, 3, 3])
    kinds = [rng.choice(KINDS) for _ in range(k)]
    kinds[k - 1] = rng.choice(["attrs", "dataclass"])
    if rng.random() < 0.35:
        kinds = [rng.choice(["attrs", "dataclass"]) for _ in range(k)]     # families both converter classes support
        kinds[k - 1] = "attrs"
    classes = []
    for i in range(k):
        fields = []
        nplain = rng.randint(0, 2)
        for j in range(nplain):
            fields.append([f"p{j}", rng.choice(PLAIN), rng.random() < 0.4, False])
        wrap = rng.choice(WRAPS)
        if i == 0 and k >= 2 and rng.random() < 0.25:
            # a direct reference: the cycle is still cut by the wrapped link of the next class
            fields.append(["link", ("ref", 1), False, False])
        else:
            lt = (wrap, ("ref", (i + 1) % k)) if wrap != "opt" else ("opt", ("ref", (i + 1) % k), rng.randrange(2))
            fields.append(["link", lt, rng.random() < 0.5, False])
        if rng.random() < 0.3:
            # a second edge: to any class defined earlier (higher index) or, from attrs / dataclass classes, to any class
            cands = [j for j in range(k) if j > i or kinds[i] == "attrs" or (kinds[i] == "dataclass" and rng.random() < 0.3)]
            if cands:
                fields.append(["extra", (rng.choice(WRAPS), ("ref", rng.choice(cands))), True, False])
        spell, notreq = {}, set()
        if kinds[i] != "nt" and rng.random() < 0.35:
            # a reference to the class itself, spelled typing.Self (inside a generic alias, which is where it has to be substituted);
            # Self is resolved by the GENERATED hooks of attrs classes, dataclasses and TypedDicts (docs: Converter only), so families
            # that use it are not run through BaseConverter or the tuple strategy (see Family.interp_ok)
            w = rng.choice(WRAPS)
            st = (w, ("ref", i)) if w != "opt" else ("opt", ("ref", i), rng.randrange(2))
            fields.append(["me", st, True, False])
            spell["me"] = ann(st).replace(f"G{i}", "Self")
        rng.shuffle(fields)
        # attrs field converters on reference-carrying attributes (identity on structured values)
        for f in fields:
            if kinds[i] == "attrs" and has_ref(f[1]) and rng.random() < 0.4:
                f[3] = True
        if kinds[i] != "td":
            fields.sort(key=lambda f: f[2])          # mandatory attributes first
        else:
            for f in fields:
                f[2] = False
                # NotRequired keys (only where the annotation is not a quoted forward reference)
                if not any(j <= i for j in refs(f[1])) or f[0] in spell:
                    if rng.random() < (0.6 if f[0] == "me" else 0.25):
                        notreq.add(f[0])
        classes.append({"kind": kinds[i], "fields": [tuple(f) for f in fields], "spell": spell, "notreq": notreq})
    return classes


def source(classes):
    out = ["import enum, dataclasses, attrs",
           "from typing import Any, Dict, List, NamedTuple, NotRequired, Optional, Self, Tuple, TypedDict, Union",
           "class E(enum.Enum):\n    A = 'a'\n    B = 'b'",
           "def ident(v):\n    return v"]
    k = len(classes)
    for i in reversed(range(k)):
        c = classes[i]
        body = []
        for name, t, dflt, conv in c["fields"]:
            a = ann(t)
            fwd = any(j <= i for j in refs(t))            # refers to a class not defined yet (or to itself)
            a_s = repr(a) if fwd else a
            if name in c.get("spell", {}):
                a_s = c["spell"][name]
            if name in c.get("notreq", ()):
                a_s = f"NotRequired[{a_s}]"
            if c["kind"] == "attrs":
                args = []
                if dflt:
                    args.append(default_src(t, "attrs"))
                if conv:
                    args.append("converter=ident")
                body.append(f"    {name}: {a_s}" + (f" = attrs.field({', '.join(args)})" if args else ""))
            elif c["kind"] == "dataclass":
                if dflt:
                    body.append(f"    {name}: {a_s} = dataclasses.field({default_src(t, 'dataclass')})")
                else:
                    body.append(f"    {name}: {a_s}")
            elif c["kind"] == "nt":
                if dflt:
                    body.append(f"    {name}: {a_s} = {default_src(t, 'nt')}")
                else:
                    body.append(f"    {name}: {a_s}")
            else:
                body.append(f"    {name}: {a_s}")
        head = {"attrs": f"@attrs.define\nclass G{i}:", "dataclass": f"@dataclasses.dataclass\nclass G{i}:",
                "nt": f"class G{i}(NamedTuple):", "td": f"class G{i}(TypedDict):"}[c["kind"]]
        out.append(head + "\n" + ("\n".join(body) if body else "    pass"))
    return "\n\n".join(out) + "\n"


class Family:
    def __init__(self, rng):
        self.classes = gen_family(rng)
        self.src = source(self.classes)
        self.modname = f"verif_cyc_{next(_counter)}"
        self.mod = types.ModuleType(self.modname)
        sys.modules[self.modname] = self.mod
        exec(compile(self.src, self.modname, "exec"), self.mod.__dict__)
        self.cls = [getattr(self.mod, f"G{i}") for i in range(len(self.classes))]
        self.E = self.mod.E
        for c, cl in zip(self.classes, self.cls):
            if c["kind"] == "attrs":
                attrs.resolve_types(cl, self.mod.__dict__)
        self.only_classes = all(c["kind"] in ("attrs", "dataclass") for c in self.classes)
        self.has_td = any(c["kind"] == "td" for c in self.classes)
        self.has_conv = any(f[3] for c in self.classes for f in c["fields"])
        # string annotations on dataclasses are resolved by the hook generator only (docs/indepth.md lists PEP 563 support
        # among the things Converter's generated hooks add); the interpretive hooks -- BaseConverter, and the tuple
        # strategy of either class -- are used only with families whose forward references sit in attrs classes
        # (resolved above the way user code would, with attrs.resolve_types)
        self.fwd_dataclass = any(c["kind"] == "dataclass" and any(any(j <= i for j in refs(f[1])) for f in c["fields"])
                                 for i, c in enumerate(self.classes))
        self.has_self = any(c.get("spell") for c in self.classes)
        self.interp_ok = self.only_classes and not self.fwd_dataclass and not self.has_self

    def close(self):
        sys.modules.pop(self.modname, None)

    def py(self, t):
        k = t[0]
        if k in ("int", "str", "float", "bool"):
            return {"int": int, "str": str, "float": float, "bool": bool}[k]
        if k == "enum":
            return self.E
        if k == "any":
            return typing.Any
        if k == "opt":
            return typing.Union[None, self.py(t[1])] if len(t) > 2 and t[2] == 1 else typing.Optional[self.py(t[1])]
        if k == "list":
            return typing.List[self.py(t[1])]
        if k == "dict":
            return typing.Dict[str, self.py(t[1])]
        if k == "tup":
            return typing.Tuple[self.py(t[1]), ...]
        return self.cls[t[1]]

    # ---- values
    def value(self, rng, t, depth):
        k = t[0]
        if k == "int":
            return rng.choice([0, 1, 7, -3])
        if k == "str":
            return rng.choice(["", "a", "xy"])
        if k == "float":
            return rng.choice([0.5, 2.0])
        if k == "bool":
            return rng.random() < 0.5
        if k == "enum":
            return rng.choice(list(self.E))
        if k == "any":
            return rng.choice([1, "s", None, [1, 2], {"a": 1}, 2.5])      # primitives: encoded by runtime class = unchanged
        n = 0 if depth <= 0 and has_ref(t) else rng.randint(0 if depth < 3 else 1, 2)
        if k == "opt":
            return None if n == 0 else self.value(rng, t[1], depth)
        if k == "list":
            return [self.value(rng, t[1], depth) for _ in range(n)]
        if k == "tup":
            return tuple(self.value(rng, t[1], depth) for _ in range(n))
        if k == "dict":
            return {f"k{j}": self.value(rng, t[1], depth) for j in range(n)}
        return self.instance(rng, t[1], depth - 1)

    def instance(self, rng, i, depth):
        c = self.classes[i]
        vals = {name: self.value(rng, t, depth) for name, t, _d, _c in c["fields"]}
        if c["kind"] == "td":
            for name in c.get("notreq", ()):
                if rng.random() < 0.35:
                    del vals[name]
            return vals
        if c["kind"] == "nt":
            return self.cls[i](*[vals[f[0]] for f in c["fields"]])
        return self.cls[i](**vals)

    # ---- the documented encoding (Converter, dict strategy / tuple strategy for attrs classes and dataclasses)
    def encode(self, t, x, strat="dict"):
        k = t[0]
        if k in ("int", "str", "float", "bool", "any"):
            return x
        if k == "enum":
            return x.value
        if k == "opt":
            return None if x is None else self.encode(t[1], x, strat)
        if k in ("list", "tup"):
            return [self.encode(t[1], e, strat) for e in x]
        if k == "dict":
            return {kk: self.encode(t[1], e, strat) for kk, e in x.items()}
        c = self.classes[t[1]]
        if c["kind"] == "td":
            return {name: self.encode(ft, x[name], strat) for name, ft, _d, _c in c["fields"] if name in x}
        items = [(name, self.encode(ft, getattr(x, name), strat)) for name, ft, _d, _c in c["fields"]]
        if c["kind"] == "nt" or strat == "tuple":
            return tuple(e for _, e in items)
        return dict(items)

    # ---- is v a value of t, at every depth
    def conforms(self, t, v):
        k = t[0]
        if k == "any":
            return True
        if k in ("int", "str", "float", "bool"):
            return type(v) is {"int": int, "str": str, "float": float, "bool": bool}[k]
        if k == "enum":
            return type(v) is self.E
        if k == "opt":
            return v is None or self.conforms(t[1], v)
        if k == "list":
            return type(v) is list and all(self.conforms(t[1], e) for e in v)
        if k == "tup":
            return type(v) is tuple and all(self.conforms(t[1], e) for e in v)
        if k == "dict":
            return type(v) is dict and all(type(kk) is str and self.conforms(t[1], e) for kk, e in v.items())
        c = self.classes[t[1]]
        if c["kind"] == "td":
            return type(v) is dict and all((name in v and self.conforms(ft, v[name])) or (name not in v and name in c.get("notreq", ()))
                                           for name, ft, _d, _c in c["fields"])
        if type(v) is not self.cls[t[1]]:
            return False
        return all(self.conforms(ft, getattr(v, name)) for name, ft, _d, _c in c["fields"])

    def td_nonmapping(self, t, o):
        """a TypedDict position holding something that is not a dict (finding F11's shape)"""
        k = t[0]
        try:
            if k == "opt":
                return o is not None and self.td_nonmapping(t[1], o)
            if k in ("list", "tup"):
                return any(self.td_nonmapping(t[1], e) for e in o)
            if k == "dict":
                return isinstance(o, dict) and any(self.td_nonmapping(t[1], e) for e in o.values())
            if k == "ref":
                c = self.classes[t[1]]
                if c["kind"] == "td" and type(o) is not dict:
                    return True
                if isinstance(o, dict):
                    return any(name in o and self.td_nonmapping(ft, o[name]) for name, ft, _d, _c in c["fields"])
                if type(o) in (list, tuple):
                    return any(self.td_nonmapping(f[1], e) for f, e in zip(c["fields"], o))
        except TypeError:
            return False
        return False


def deep_same(a, b):
    if type(a) is not type(b):
        return False
    if isinstance(a, tuple):
        return len(a) == len(b) and all(deep_same(x, y) for x, y in zip(a, b))
    if type(a) is list:
        return len(a) == len(b) and all(deep_same(x, y) for x, y in zip(a, b))
    if type(a) is dict:
        return set(a) == set(b) and all(deep_same(a[k], b[k]) for k in a)
    if attrs.has(type(a)):
        return all(deep_same(getattr(a, f.name), getattr(b, f.name)) for f in attrs.fields(type(a)))
    if dataclasses.is_dataclass(a):
        return all(deep_same(getattr(a, f.name), getattr(b, f.name)) for f in dataclasses.fields(a))
    return a == b


PRIMS = (dict, list, tuple, type(None), bool, int, float, str, bytes)


def primitive_only(u):
    if type(u) not in PRIMS:
        return False
    if type(u) in (list, tuple):
        return all(primitive_only(x) for x in u)
    if type(u) is dict:
        return all(primitive_only(k) and primitive_only(x) for k, x in u.items())
    return True


def mutate(rng, o):
    """corrupt / drop / add a component at a random depth"""
    o = copy.deepcopy(o)
    nodes = []

    def walk(x, setter):
        nodes.append((x, setter))
        if type(x) is dict:
            for k in list(x):
                walk(x[k], (lambda v, x=x, k=k: x.__setitem__(k, v)))
        elif type(x) is list:
            for j in range(len(x)):
                walk(x[j], (lambda v, x=x, j=j: x.__setitem__(j, v)))
    box = [o]
    walk(o, lambda v: box.__setitem__(0, v))
    x, setter = rng.choice(nodes)
    r = rng.random()
    if type(x) is dict and x and r < 0.35:
        del x[rng.choice(list(x))]
    elif type(x) is dict and r < 0.5:
        x["zz"] = 1
    elif type(x) is list and x and r < 0.3:
        x.pop()
    else:
        setter(rng.choice(["zz", 3, None, [], {}, [1], {"a": 1}, 2.5]))
    return box[0]


def key_deletions(o, limit=12):
    """every payload obtained by deleting ONE key of ONE dict node (systematic: required-key checks at every class position)"""
    out = []

    def walk(x, rebuild):
        if len(out) >= limit:
            return
        if type(x) is dict:
            for k in x:
                if len(out) < limit:
                    out.append(rebuild({kk: vv for kk, vv in x.items() if kk != k}))
            for k in x:
                walk(x[k], (lambda v, x=x, k=k, rebuild=rebuild: rebuild({**x, k: v})))
        elif type(x) in (list, tuple):
            for j in range(len(x)):
                walk(x[j], (lambda v, x=x, j=j, rebuild=rebuild: rebuild(type(x)(list(x[:j]) + [v] + list(x[j + 1:])))))
    walk(o, lambda v: v)
    return out


def leaf_corruptions(o, limit=6):
    """every payload obtained by replacing ONE enum-valued leaf ('a' / 'b') by a value no member has"""
    out = []

    def walk(x, rebuild):
        if len(out) >= limit:
            return
        if type(x) is str and x in ("a", "b"):
            out.append(rebuild("zz"))
        elif type(x) is dict:
            for k in x:
                walk(x[k], (lambda v, x=x, k=k, rebuild=rebuild: rebuild({**x, k: v})))
        elif type(x) in (list, tuple):
            for j in range(len(x)):
                walk(x[j], (lambda v, x=x, j=j, rebuild=rebuild: rebuild(type(x)(list(x[:j]) + [v] + list(x[j + 1:])))))
    walk(o, lambda v: v)
    return out


def run(f, *a):
    """(the batteries call the library from a shallow stack on small finite values: a RecursionError is the library's own --
    the signal that cuts reference cycles during hook generation escaping to the caller -- and an outcome like any other error)"""
    try:
        return ("ok", f(*a))
    except BaseException as e:        # noqa
        return ("err", type(e).__name__)


# ------------------------------------------------------------------------------------ the battery

def cycle_battery(v: Verdict, prop: str, n_families: int):
    from cattrs import BaseConverter, Converter, UnstructureStrategy
    rng = random.Random(v.seed * 104729 + sum(map(ord, prop)) + 17)
    hist = {"families": 0, "kinds": {}, "wraps": {}, "with_field_converter": 0, "with_typing_self": 0, "notrequired_keys": 0, "classes_only": 0, "values": 0, "roundtrips": 0,
            "structure_mutated": 0, "mode_pairs": 0, "class_pairs": 0, "tuple_strategy": 0, "skipped_recursion": 0}
    for fi in range(n_families):
        fam = Family(rng)
        hist["families"] += 1
        hist["classes_only"] += fam.interp_ok
        hist["with_field_converter"] += fam.has_conv
        hist["with_typing_self"] += fam.has_self
        hist["notrequired_keys"] += sum(len(c.get("notreq", ())) for c in fam.classes)
        for c in fam.classes:
            hist["kinds"][c["kind"]] = hist["kinds"].get(c["kind"], 0) + 1
            for f in c["fields"]:
                if has_ref(f[1]):
                    hist["wraps"][f[1][0]] = hist["wraps"].get(f[1][0], 0) + 1
        strat_tuple = fam.interp_ok and rng.random() < 0.3
        hist["tuple_strategy"] += strat_tuple
        strat = "tuple" if strat_tuple else "dict"
        pac = False          # prefer_attrib_converters replaces the hook by the field's converter (C20); the converters here are identities
        kw = {"unstruct_strat": UnstructureStrategy.AS_TUPLE if strat_tuple else UnstructureStrategy.AS_DICT, "prefer_attrib_converters": pac}
        convs = {}

        # half of the families: the enum is structured by a user hook that looks the member up in a table (KeyError on bad data,
        # where the born-with hook raises ValueError) -- registered on every converter of the family
        table_hook = rng.random() < 0.5
        by_value = {m.value: m for m in fam.E}

        def conv(full, dv):
            if (full, dv) not in convs:
                convs[(full, dv)] = (Converter if full else BaseConverter)(detailed_validation=dv, **kw)
                if table_hook:
                    convs[(full, dv)].register_structure_hook(fam.E, lambda val, _t: by_value[val])
            return convs[(full, dv)]
        order = list(range(len(fam.classes)))
        rng.shuffle(order)
        desc = {"family_source": fam.src, "strategy": strat, "prefer_attrib_converters": pac, "order": order,
                "enum_hook": "user hook: table lookup (KeyError on bad data)" if table_hook else "born-with"}
        try:
            for i in order:
                t = ("ref", i)
                T = fam.cls[i]
                for _ in range(2):
                    x = fam.instance(rng, i, 3)
                    hist["values"] += 1
                    dv = rng.random() < 0.5
                    c1 = conv(True, dv)
                    ures = run(c1.unstructure, x, T)
                    case = {"class": f"G{i}", "value": repr(x), "detailed_validation": dv}
                    v.count(repr((fam.src, strat, pac, i, repr(x), dv)), True)
                    if ures[0] != "ok":
                        if prop in ("C01", "C03"):
                            v.violation("unstructure raised on a value of the type (mutually recursive classes)",
                                        dict(desc, **case, unstructure=ures[1], battery="CYCLE"))
                        continue
                    u = ures[1]
                    if prop == "C03":
                        exp = fam.encode(t, x, strat)
                        if not primitive_only(u) or not deep_same(u, exp):
                            v.violation("unstructured output differs from the documented encoding (mutually recursive classes)",
                                        dict(desc, **case, unstructured=repr(u), expected=repr(exp), battery="CYCLE"))
                    # structure back: same converter, then the other mode
                    for dv2 in (dv, not dv):
                        c2 = conv(True, dv2)
                        sres = run(c2.structure, copy.deepcopy(u), T)
                        hist["roundtrips"] += 1
                        if prop == "C01" and not (sres[0] == "ok" and deep_same(sres[1], x)):
                            v.violation("round trip does not give back the value (mutually recursive classes)",
                                        dict(desc, **case, unstructured=repr(u), structure_detailed_validation=dv2,
                                             structured=repr(sres[1]), battery="CYCLE"))
                    if prop == "C06" and fam.interp_ok:
                        cb = conv(False, dv)
                        ub = run(cb.unstructure, x, T)
                        hist["class_pairs"] += 1
                        if not (ub[0] == "ok" and deep_same(listify(ub[1]), listify(u))):
                            v.violation("Converter and BaseConverter unstructure the same value differently (mutually recursive classes)",
                                        dict(desc, **case, converter=repr(u), base_converter=repr(ub[1]), battery="CYCLE"))
                    # corrupted payloads
                    payloads = [u] + [mutate(rng, u) for _ in range(3)] + (key_deletions(u) + leaf_corruptions(u) if prop in ("C02", "C04", "C06") else [])
                    for o in payloads:
                        hist["structure_mutated"] += 1
                        r1 = run(c1.structure, copy.deepcopy(o), T)
                        v.count(repr((fam.src, strat, pac, i, repr(o), dv, "S")), True)
                        if prop == "C02" and r1[0] == "ok" and not fam.conforms(t, r1[1]):
                            if fam.has_td and (fam.td_nonmapping(t, o) or td_extras(fam, t, o)):
                                v.finding("F11" if fam.td_nonmapping(t, o) else "F4", "TypedDict position", dict(desc, **case, payload=repr(o), battery="CYCLE"))
                            else:
                                v.violation("structure returned a value that is not of the target type (mutually recursive classes)",
                                            dict(desc, **case, payload=repr(o), structured=repr(r1[1]), battery="CYCLE"))
                        if prop == "C04":
                            r2 = run(conv(True, not dv).structure, copy.deepcopy(o), T)
                            hist["mode_pairs"] += 1
                            if not same_outcome(r1, r2):
                                if fam.has_td and fam.td_nonmapping(t, o):
                                    v.finding("F11", "fast TypedDict hook accepts a non-mapping", dict(desc, **case, payload=repr(o), battery="CYCLE"))
                                else:
                                    v.violation("detailed_validation changes acceptance or the result (mutually recursive classes)",
                                                dict(desc, **case, payload=repr(o), this_mode=repr(r1), other_mode=repr(r2), battery="CYCLE"))
                        if prop == "C06" and fam.interp_ok and shaped(fam, t, o, strat):
                            r2 = run(conv(False, dv).structure, copy.deepcopy(o), T)
                            hist["class_pairs"] += 1
                            if not same_outcome(r1, r2):
                                v.violation("Converter and BaseConverter disagree on the same payload (mutually recursive classes)",
                                            dict(desc, **case, payload=repr(o), converter=repr(r1), base_converter=repr(r2), battery="CYCLE"))
        except RecursionError:
            hist["skipped_recursion"] += 1
        finally:
            fam.close()
    v.coverage["cycle_battery"] = hist


def same_outcome(r1, r2):
    if r1[0] != r2[0]:
        return False
    return r1[0] == "err" or deep_same(r1[1], r2[1])


def listify(u):
    if isinstance(u, (list, tuple)):
        return [listify(x) for x in u]
    if type(u) is dict:
        return {k: listify(x) for k, x in u.items()}
    return u


def td_extras(fam, t, o):
    """a TypedDict position whose payload carries keys the TypedDict does not declare (finding F4's shape)"""
    k = t[0]
    try:
        if k == "opt":
            return o is not None and td_extras(fam, t[1], o)
        if k in ("list", "tup"):
            return any(td_extras(fam, t[1], e) for e in o)
        if k == "dict":
            return isinstance(o, dict) and any(td_extras(fam, t[1], e) for e in o.values())
        if k == "ref":
            c = fam.classes[t[1]]
            if not isinstance(o, dict):
                if type(o) in (list, tuple):
                    return any(td_extras(fam, f[1], e) for f, e in zip(c["fields"], o))
                return False
            if c["kind"] == "td" and set(o) - {f[0] for f in c["fields"]}:
                return True
            return any(name in o and td_extras(fam, ft, o[name]) for name, ft, _d, _c in c["fields"])
    except TypeError:
        return False
    return False


def shaped(fam, t, o, strat):
    """class positions hold mappings (dict strategy) / sequences (tuple strategy): the inputs on which the two converter
    classes are documented to agree (the interpretive hooks index the payload, the generated ones use `in`)"""
    k = t[0]
    if k in ("int", "str", "float", "bool", "enum", "any"):
        return True
    if k == "opt":
        return o is None or shaped(fam, t[1], o, strat)
    if k in ("list", "tup"):
        return type(o) in (list, tuple) and all(shaped(fam, t[1], e, strat) for e in o)
    if k == "dict":
        return type(o) is dict and all(shaped(fam, t[1], e, strat) for e in o.values())
    c = fam.classes[t[1]]
    if strat == "dict":
        return type(o) is dict and all(type(kk) is str for kk in o) and all(name not in o or shaped(fam, ft, o[name], strat) for name, ft, _d, _c in c["fields"])
    return type(o) in (list, tuple) and all(shaped(fam, f[1], e, strat) for f, e in zip(c["fields"], o))


# ------------------------------------------------------------------------------------ GENERIC battery

GEN_SRC = '''import enum, dataclasses, attrs
from typing import Any, Dict, Generic, List, NotRequired, Optional, Tuple, TypedDict, TypeVar
T = TypeVar("T")
U = TypeVar("U")
class E(enum.Enum):
    A = 'a'
    B = 'b'
def ident(v):
    return v
@attrs.define
class Inner:
    a: int
    b: str = "x"
@attrs.define
class InnerSub(Inner):
    zz: int = 9
@dataclasses.dataclass
class DInner:
    n: int
'''


def gen_generic_family(rng):
    """one generic base (attrs or dataclass) over T with 1-4 TypeVar-typed attributes, some with attrs field converters
    (`field(converter=list)` is the common idiom), a non-parametrised subclass of a parametrised base, and a grand-child"""
    kind = rng.choice(["attrs", "attrs", "dataclass", "td"])
    shapes = rng.sample(["T", "List[T]", "Dict[str, T]", "Optional[T]", "Tuple[T, ...]"], rng.randint(1, 4))
    body, fields = [], []
    body.append("    label: str")
    for j, sh in enumerate(sorted(shapes, key=lambda s: s == "T", reverse=True)):
        name = f"g{j}"
        dflt = {"T": None, "List[T]": "list", "Dict[str, T]": "dict", "Optional[T]": "None", "Tuple[T, ...]": "()"}[sh]
        conv = kind == "attrs" and rng.random() < 0.45
        cname = {"List[T]": "list", "Dict[str, T]": "dict", "Tuple[T, ...]": "tuple"}.get(sh, "ident")
        if kind == "td":
            # a generic TypedDict: keys with a "default" become NotRequired
            body.append(f"    {name}: {sh}" if dflt is None else f"    {name}: NotRequired[{sh}]")
        elif kind == "attrs":
            args = []
            if dflt in ("list", "dict"):
                args.append(f"factory={dflt}")
            elif dflt is not None:
                args.append(f"default={dflt}")
            if conv:
                args.append(f"converter={cname}")
            body.append(f"    {name}: {sh}" + (f" = attrs.field({', '.join(args)})" if args else ""))
        else:
            if dflt in ("list", "dict"):
                body.append(f"    {name}: {sh} = dataclasses.field(default_factory={dflt})")
            elif dflt is not None:
                body.append(f"    {name}: {sh} = {dflt}")
            else:
                body.append(f"    {name}: {sh}")
        fields.append((name, sh, conv))
    arg = rng.choice(["int", "Inner", "E", "DInner", "str"])
    if kind == "td":
        src = GEN_SRC + "class Box(TypedDict, Generic[T]):\n" + "\n".join(body) + "\n"
        return {"kind": kind, "fields": fields, "sub_arg": arg, "src": src, "notrequired": {f[0] for f, b in zip(fields, body[1:]) if "NotRequired" in b}}
    deco = "@attrs.define" if kind == "attrs" else "@dataclasses.dataclass"
    src = GEN_SRC + f"{deco}\nclass Box(Generic[T]):\n" + "\n".join(body) + "\n"
    src += f"{deco}\nclass Sub(Box[{arg}]):\n    extra: int = 0\n"
    src += f"{deco}\nclass Leaf(Sub):\n    more: str = 'm'\n"
    # a class with TWO parametrised generic bases (dataclasses / attrs without slots): both TypeVars must be bound
    arg2 = rng.choice(["int", "Inner", "E", "str"])
    deco2 = "@attrs.define(slots=False)" if kind == "attrs" else "@dataclasses.dataclass"
    src += f"{deco2}\nclass Other(Generic[U]):\n    o: List[U] = {'attrs.field(factory=list)' if kind == 'attrs' else 'dataclasses.field(default_factory=list)'}\n"
    if kind == "attrs":
        src = src.replace("@attrs.define\nclass Box(Generic[T]):", "@attrs.define(slots=False)\nclass Box(Generic[T]):")
    src += f"{deco2}\nclass Two(Other[{arg2}], Box[{arg}]):\n    pass\n"
    # a class that inherits from a SPECIALISED generic base and is generic in a parameter of its own: Mixed[X] must bind both
    arg3 = rng.choice(["int", "Inner", "E", "str"])
    wdef = "attrs.field(factory=list)" if kind == "attrs" else "dataclasses.field(default_factory=list)"
    src += f"{deco}\nclass Mixed(Box[{arg}], Generic[U]):\n    w: List[U] = {wdef}\n".replace("@attrs.define\nclass Mixed", "@attrs.define(slots=False)\nclass Mixed")
    return {"kind": kind, "fields": fields, "sub_arg": arg, "src": src, "two_arg": arg2, "mixed_arg": arg3}


def generic_battery(v: Verdict, prop: str, n_families: int):
    """generic attrs classes and dataclasses (documented as supported by Converter's generated hooks): Box[A] for several A,
    a non-parametrised subclass of Box[A] and its child; values built from the SUBSTITUTED annotations; C01 / C02 / C03 / C04."""
    from cattrs import Converter
    rng = random.Random(v.seed * 15485863 + sum(map(ord, prop)) + 5)
    props = {"C17": {"C01", "C03"}}.get(prop, {prop})      # C17 (TypeVars monomorphised): round trip and encoding by the substituted types
    hist = {"families": 0, "with_field_converter": 0, "dataclass": 0, "round_trips": 0, "types": {}}
    for fi in range(n_families):
        fam = gen_generic_family(rng)
        modname = f"verif_gen_{next(_counter)}"
        mod = types.ModuleType(modname)
        sys.modules[modname] = mod
        try:
            exec(compile(fam["src"], modname, "exec"), mod.__dict__)
            hist["families"] += 1
            hist["with_field_converter"] += any(f[2] for f in fam["fields"])
            hist["dataclass"] += fam["kind"] == "dataclass"
            args = {"int": int, "str": str, "Inner": mod.Inner, "E": mod.E, "DInner": mod.DInner}

            def val_of(aname, depth=1):
                if aname == "int":
                    return rng.choice([0, 3, -7])
                if aname == "str":
                    return rng.choice(["", "s", "tt"])
                if aname == "E":
                    return rng.choice(list(mod.E))
                if aname == "Inner":
                    return mod.Inner(rng.choice([1, 2]), rng.choice(["x", "y"]))
                return mod.DInner(rng.choice([5, 6]))

            def enc_of(aname, x):
                if aname in ("int", "str"):
                    return x
                if aname == "E":
                    return x.value
                if aname == "Inner":
                    return {"a": x.a, "b": x.b}
                return {"n": x.n}

            def field_val(sh, aname):
                n = rng.randint(0, 2)
                if sh == "T":
                    return val_of(aname)
                if sh == "List[T]":
                    return [val_of(aname) for _ in range(n)]
                if sh == "Dict[str, T]":
                    return {f"k{j}": val_of(aname) for j in range(n)}
                if sh == "Optional[T]":
                    return None if n == 0 else val_of(aname)
                return tuple(val_of(aname) for _ in range(n))

            def field_enc(sh, aname, x):
                if sh == "T":
                    return enc_of(aname, x)
                if sh in ("List[T]", "Tuple[T, ...]"):
                    return [enc_of(aname, e) for e in x]
                if sh == "Dict[str, T]":
                    return {k: enc_of(aname, e) for k, e in x.items()}
                return None if x is None else enc_of(aname, x)

            def conforms_field(sh, aname, x):
                cl = args[aname]
                ok1 = lambda e: type(e) is cl
                if sh == "T":
                    return ok1(x)
                if sh == "List[T]":
                    return type(x) is list and all(ok1(e) for e in x)
                if sh == "Tuple[T, ...]":
                    return type(x) is tuple and all(ok1(e) for e in x)
                if sh == "Dict[str, T]":
                    return type(x) is dict and all(type(k) is str and ok1(e) for k, e in x.items())
                return x is None or ok1(x)

            is_td = fam["kind"] == "td"
            get = (lambda r, nm: r[nm]) if is_td else getattr
            targets = [("Box", a) for a in rng.sample(sorted(args), 2)]
            if not is_td:
                targets += [("Sub", fam["sub_arg"]), ("Leaf", fam["sub_arg"]), ("Two", fam["sub_arg"]), ("Mixed", fam["sub_arg"])]
            convs = {dv: Converter(detailed_validation=dv) for dv in (True, False)}
            rng.shuffle(targets)
            for cname, aname in targets:
                cl = getattr(mod, cname)
                T = cl[args[aname]] if cname == "Box" else (cl[args[fam["mixed_arg"]]] if cname == "Mixed" else cl)
                hist["types"][cname] = hist["types"].get(cname, 0) + 1
                kw = {"label": rng.choice(["l", "m"])}
                for name, sh, _c in fam["fields"]:
                    kw[name] = field_val(sh, aname)
                if cname in ("Sub", "Leaf"):
                    kw["extra"] = rng.choice([0, 4])
                if cname == "Leaf":
                    kw["more"] = rng.choice(["m", "n"])
                if cname == "Two":
                    kw["o"] = [val_of(fam["two_arg"]) for _ in range(rng.randint(0, 2))]
                if cname == "Mixed":
                    kw["w"] = [val_of(fam["mixed_arg"]) for _ in range(rng.randint(0, 2))]
                if is_td:
                    for nm in fam["notrequired"]:
                        if rng.random() < 0.3:
                            kw.pop(nm)
                x = cl(**kw)
                exp = {"label": kw["label"]}
                for name, sh, _c in fam["fields"]:
                    if name in kw:
                        exp[name] = field_enc(sh, aname, kw[name])
                for extra in ("extra", "more"):
                    if extra in kw:
                        exp[extra] = kw[extra]
                if cname == "Two":
                    exp["o"] = [enc_of(fam["two_arg"], e) for e in kw["o"]]
                if cname == "Mixed":
                    exp["w"] = [enc_of(fam["mixed_arg"], e) for e in kw["w"]]
                dv = rng.random() < 0.5
                desc = {"battery": "GENERIC", "family_source": fam["src"], "type": repr(T), "value": repr(x), "detailed_validation": dv}
                v.count(repr((fam["src"], repr(T), repr(x), dv)), True)
                ures = run(convs[dv].unstructure, x, T)
                if ures[0] != "ok":
                    if props & {"C01", "C03"}:
                        v.violation("unstructure raised on a value of a generic class", dict(desc, unstructure=ures[1]))
                    continue
                u = ures[1]
                if "C03" in props and not (primitive_only(u) and deep_same(u, exp)):
                    v.violation("unstructured output of a generic class differs from the documented encoding (TypeVars substituted)",
                                dict(desc, unstructured=repr(u), expected=repr(exp)))
                payloads = [u] + [mutate(rng, u) for _ in range(2)] + key_deletions(u, 6)
                for pi, o in enumerate(payloads):
                    r1 = run(convs[dv].structure, copy.deepcopy(o), T)
                    hist["round_trips"] += pi == 0
                    if "C01" in props and pi == 0 and not (r1[0] == "ok" and deep_same(r1[1], x)):
                        v.violation("round trip of a generic class does not give back the value", dict(desc, unstructured=repr(u), structured=repr(r1[1])))
                    if "C02" in props and r1[0] == "ok":
                        r = r1[1]
                        bad = (type(r) is not (dict if is_td else cl)) or any(
                            (name in r if is_td else True) and not conforms_field(sh, aname, get(r, name)) for name, sh, _c in fam["fields"]) or (
                            is_td and any(name not in r for name, _sh, _c in fam["fields"] if name not in fam["notrequired"]))
                        if bad:
                            v.violation("structure returned an instance of a generic class whose attributes are not of the substituted types",
                                        dict(desc, payload=repr(o), structured=repr(r)))
                    if "C04" in props:
                        r2 = run(convs[not dv].structure, copy.deepcopy(o), T)
                        if not same_outcome(r1, r2):
                            v.violation("detailed_validation changes acceptance or the result (generic class)",
                                        dict(desc, payload=repr(o), this_mode=repr(r1), other_mode=repr(r2)))
            # values whose runtime class is a SUBCLASS of the bound argument: a bound TypeVar means the hook of the declared argument runs
            # (the subclass's own attributes are not emitted); a TypeVar the generator failed to bind falls back to the runtime class
            if "C03" in props and not is_td and fam["sub_arg"] == "Inner":
                for cname in ("Sub", "Leaf", "Two", "Mixed"):
                    cl = getattr(mod, cname)
                    T = cl[args[fam["mixed_arg"]]] if cname == "Mixed" else cl
                    kw = {"label": "l"}
                    sub = lambda: mod.InnerSub(1, "q", 5)      # noqa
                    for name, sh, _c in fam["fields"]:
                        kw[name] = {"T": sub(), "List[T]": [sub()], "Dict[str, T]": {"k": sub()}, "Optional[T]": sub(), "Tuple[T, ...]": (sub(),)}[sh]
                    x = cl(**kw)
                    exp_fields = {name: field_enc(sh, "Inner", kw[name]) for name, sh, _c in fam["fields"]}
                    for dvv in (True, False):
                        ures = run(convs[dvv].unstructure, x, T)
                        hist["subclass_valued"] = hist.get("subclass_valued", 0) + 1
                        v.count(repr((fam["src"], cname, "subclass-valued", dvv)), True)
                        if ures[0] != "ok":
                            continue
                        got = {name: ures[1].get(name) for name in exp_fields}
                        if not deep_same(got, exp_fields):
                            v.violation("a TypeVar bound through a (plain) subclass chain is not applied when unstructuring: attributes typed with it are encoded by the runtime class of the value, not by the bound argument",
                                        {"battery": "GENERIC", "family_source": fam["src"], "type": repr(T), "value": repr(x), "detailed_validation": dvv,
                                         "unstructured": repr(ures[1]), "expected_for_the_typevar_attributes": repr(exp_fields)})
                            break
        finally:
            sys.modules.pop(modname, None)
    v.coverage["generic_battery"] = hist
