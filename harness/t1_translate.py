"""T1 -- fail-closed translator: /repo/src/cattrs/{dispatch,converters}.py -> coq/Gen/*.v

Reads the *current working tree* with `ast` and emits the source-derived
parameters of the Coq model.  Anything it does not recognise raises
T1Unrecognised(file, line, what); callers treat that like a broken
correspondence.  Usage: t1_translate.py <repo> <outdir>  (prints a JSON summary)
"""
from __future__ import annotations

import ast
import re
import json
import sys
from pathlib import Path


# fixed ids of the classes BaseConverter.__init__ registers hooks for (shared with harness/lane_disp.py)
WELL_KNOWN_CLS = {"object": 1, "str": 2, "bytes": 3, "int": 4, "float": 5, "Enum": 6, "Path": 7, "bool": 8}


class T1Unrecognised(Exception):
    def __init__(self, file, line, what):
        super().__init__(f"T1-UNRECOGNISED {file}:{line} {what}")
        self.file, self.line, self.what = file, line, what


def _strip_doc(body):
    if body and isinstance(body[0], ast.Expr) and isinstance(body[0].value, ast.Constant) and isinstance(body[0].value.value, str):
        return body[1:]
    return body


def _find_class(mod, name, file):
    for n in mod.body:
        if isinstance(n, ast.ClassDef) and n.name == name:
            return n
    raise T1Unrecognised(file, 0, f"class {name} not found")


def _find_method(cls, name, file):
    found = [n for n in cls.body if isinstance(n, ast.FunctionDef) and n.name == name
             and not any(_src(d) == "overload" for d in n.decorator_list)]
    if len(found) == 1:
        return found[0]
    raise T1Unrecognised(file, cls.lineno, f"method {cls.name}.{name}: {len(found)} definitions")


def _src(n):
    return ast.unparse(n)


# ---------------------------------------------------------------- dispatch.py

def _effect_of(stmt, file, clear_cache_effs=None):
    """self.clear_direct() / self.dispatch.cache_clear() / self._direct_dispatch.clear() / self.clear_cache()"""
    if not (isinstance(stmt, ast.Expr) and isinstance(stmt.value, ast.Call)):
        raise T1Unrecognised(file, stmt.lineno, f"expected an effect call, got `{_src(stmt)}`")
    s = _src(stmt.value)
    table = {
        "self.clear_direct()": ["EClearDirect"],
        "self._direct_dispatch.clear()": ["EClearDirect"],
        "self.dispatch.cache_clear()": ["ECacheClear"],
        "other.clear_cache()": None,
        "self.clear_cache()": None,
    }
    if s not in table:
        raise T1Unrecognised(file, stmt.lineno, f"unknown effect `{s}`")
    if table[s] is None:
        if clear_cache_effs is None:
            raise T1Unrecognised(file, stmt.lineno, "clear_cache used before being translated")
        return list(clear_cache_effs)
    return table[s]


def translate_dispatch(repo: Path):
    file = "src/cattrs/dispatch.py"
    mod = ast.parse((repo / file).read_text())
    cfg = {}
    fd = _find_class(mod, "FunctionDispatch", file)
    msd = _find_class(mod, "MultiStrategyDispatch", file)

    # FunctionDispatch.register -> insert_front
    reg = _strip_doc(_find_method(fd, "register", file).body)
    if len(reg) != 1:
        raise T1Unrecognised(file, reg[0].lineno, "FunctionDispatch.register: expected one statement")
    s = _src(reg[0])
    tup = "(predicate, func, is_generator, takes_converter)"
    if s == f"self._handler_pairs.insert(0, {tup})":
        cfg["insert_front"] = True
    elif s == f"self._handler_pairs.append({tup})":
        cfg["insert_front"] = False
    else:
        raise T1Unrecognised(file, reg[0].lineno, f"FunctionDispatch.register body `{s}`")

    # FunctionDispatch.dispatch -> pred_exc_continues (+ shape check)
    disp = _strip_doc(_find_method(fd, "dispatch", file).body)
    if not (len(disp) == 2 and isinstance(disp[0], ast.For) and _src(disp[1]) == "return None"):
        raise T1Unrecognised(file, disp[0].lineno, "FunctionDispatch.dispatch: expected `for ...` then `return None`")
    loop = disp[0]
    if _src(loop.target) != "(can_handle, handler, is_generator, takes_converter)" or _src(loop.iter) != "self._handler_pairs":
        raise T1Unrecognised(file, loop.lineno, "FunctionDispatch.dispatch loop header")
    body = loop.body
    if not (len(body) == 2 and isinstance(body[0], ast.Try) and isinstance(body[1], ast.If)):
        raise T1Unrecognised(file, loop.lineno, "FunctionDispatch.dispatch loop body shape")
    tr = body[0]
    if not (len(tr.body) == 1 and _src(tr.body[0]) == "ch = can_handle(typ)" and len(tr.handlers) == 1
            and _src(tr.handlers[0].type) == "Exception" and len(tr.handlers[0].body) == 1):
        raise T1Unrecognised(file, tr.lineno, "FunctionDispatch.dispatch try shape")
    hb = tr.handlers[0].body[0]
    if isinstance(hb, ast.Continue):
        cfg["pred_exc_continues"] = True
    elif _src(hb) == "return None" or isinstance(hb, ast.Break):
        cfg["pred_exc_continues"] = False
    else:
        raise T1Unrecognised(file, hb.lineno, "FunctionDispatch.dispatch except body")
    expected_if = ("if ch:\n    if is_generator:\n        if takes_converter:\n            return handler(typ, self._converter)\n"
                   "        return handler(typ)\n    return handler")
    if _src(body[1]) != expected_if:
        raise T1Unrecognised(file, body[1].lineno, "FunctionDispatch.dispatch hit branch")

    # FunctionDispatch.copy_to
    ct = _strip_doc(_find_method(fd, "copy_to", file).body)
    if len(ct) == 1 and _src(ct[0]) == "other._handler_pairs = self._handler_pairs[:-skip] + other._handler_pairs":
        cfg["copy_drops_suffix"] = True
    elif len(ct) == 1 and _src(ct[0]) == "other._handler_pairs = self._handler_pairs + other._handler_pairs":
        cfg["copy_drops_suffix"] = False
    else:
        raise T1Unrecognised(file, ct[0].lineno, "FunctionDispatch.copy_to body")

    # MultiStrategyDispatch.__init__ -> cached
    init = _strip_doc(_find_method(msd, "__init__", file).body)
    srcs = [_src(x) for x in init]
    need = ["self._direct_dispatch = {}", "self._function_dispatch = FunctionDispatch(converter)",
            "self._single_dispatch = singledispatch(_DispatchNotFound)", "self._fallback_factory = fallback_factory"]
    for n in need:
        if n not in srcs:
            raise T1Unrecognised(file, init[0].lineno, f"MultiStrategyDispatch.__init__: missing `{n}`")
    if "self.dispatch = lru_cache(maxsize=None)(self.dispatch_without_caching)" in srcs:
        cfg["cached"] = True
    elif "self.dispatch = self.dispatch_without_caching" in srcs:
        cfg["cached"] = False
    else:
        raise T1Unrecognised(file, init[0].lineno, "MultiStrategyDispatch.__init__: dispatch binding")

    # clear_direct / clear_cache
    cd = _strip_doc(_find_method(msd, "clear_direct", file).body)
    if [_src(x) for x in cd] != ["self._direct_dispatch.clear()"]:
        raise T1Unrecognised(file, cd[0].lineno, "clear_direct body")
    cc = _strip_doc(_find_method(msd, "clear_cache", file).body)
    cc_effs = []
    for stm in cc:
        cc_effs += _effect_of(stm, file)
    cfg["clear_cache_effs"] = cc_effs

    # dispatch_without_caching -> lookup_order
    dwc = _strip_doc(_find_method(msd, "dispatch_without_caching", file).body)
    order = []
    i = 0
    while i < len(dwc):
        stm = dwc[i]
        s = _src(stm)
        if isinstance(stm, ast.Try):
            exp = ("try:\n    dispatch = self._single_dispatch.dispatch(typ)\n    if dispatch is not _DispatchNotFound:\n"
                   "        return dispatch\nexcept Exception:\n    pass")
            if s != exp:
                raise T1Unrecognised(file, stm.lineno, "dispatch_without_caching: singledispatch block")
            order.append("TSingle")
            i += 1
        elif s == "direct_dispatch = self._direct_dispatch.get(typ)":
            nxt = dwc[i + 1] if i + 1 < len(dwc) else None
            if nxt is None or _src(nxt) != "if direct_dispatch is not None:\n    return direct_dispatch":
                raise T1Unrecognised(file, stm.lineno, "dispatch_without_caching: direct block")
            order.append("TDirect")
            i += 2
        elif s == "res = self._function_dispatch.dispatch(typ)":
            nxt = dwc[i + 1] if i + 1 < len(dwc) else None
            if nxt is None:
                raise T1Unrecognised(file, stm.lineno, "dispatch_without_caching: function block")
            ns = _src(nxt)
            if ns == "return res if res is not None else self._fallback_factory(typ)":
                if i + 2 != len(dwc):
                    raise T1Unrecognised(file, nxt.lineno, "dispatch_without_caching: code after fallback")
                order.append("TFunc")
                i += 2
            elif ns == "if res is not None:\n    return res":
                order.append("TFunc")
                i += 2
            else:
                raise T1Unrecognised(file, nxt.lineno, "dispatch_without_caching: function block tail")
        elif s == "return self._fallback_factory(typ)" and i + 1 == len(dwc):
            i += 1
        else:
            raise T1Unrecognised(file, stm.lineno, f"dispatch_without_caching: `{s.splitlines()[0]}`")
    cfg["lookup_order"] = order

    # register_cls_list
    rcl = _strip_doc(_find_method(msd, "register_cls_list", file).body)
    if not (rcl and isinstance(rcl[0], ast.For) and _src(rcl[0].target) == "(cls, handler)" and _src(rcl[0].iter) == "cls_and_handler"):
        raise T1Unrecognised(file, rcl[0].lineno, "register_cls_list loop header")
    lb = rcl[0].body
    if not (len(lb) == 1 and isinstance(lb[0], ast.If) and _src(lb[0].test) == "direct"):
        raise T1Unrecognised(file, rcl[0].lineno, "register_cls_list loop body")
    dbr, sbr = lb[0].body, lb[0].orelse
    if not (dbr and _src(dbr[0]) == "self._direct_dispatch[cls] = handler"):
        raise T1Unrecognised(file, lb[0].lineno, "register_cls_list direct branch")
    if not (sbr and _src(sbr[0]) == "self._single_dispatch.register(cls, handler)"):
        raise T1Unrecognised(file, lb[0].lineno, "register_cls_list singledispatch branch")
    cfg["cls_reg_direct_each"] = sum((_effect_of(x, file, cc_effs) for x in dbr[1:]), [])
    cfg["cls_reg_each"] = sum((_effect_of(x, file, cc_effs) for x in sbr[1:]), [])
    cfg["cls_reg_final"] = sum((_effect_of(x, file, cc_effs) for x in rcl[1:]), [])

    # register_func_list
    rfl = _strip_doc(_find_method(msd, "register_func_list", file).body)
    if not (rfl and isinstance(rfl[0], ast.For) and _src(rfl[0].target) == "tup" and _src(rfl[0].iter) == "pred_and_handler"):
        raise T1Unrecognised(file, rfl[0].lineno, "register_func_list loop header")
    exp_body = ("if len(tup) == 2:\n    func, handler = tup\n    self._function_dispatch.register(func, handler)\nelse:\n"
                "    func, handler, is_gen = tup\n    if is_gen == 'extended':\n"
                "        self._function_dispatch.register(func, handler, is_generator=is_gen, takes_converter=True)\n"
                "    else:\n        self._function_dispatch.register(func, handler, is_generator=is_gen)")
    if len(rfl[0].body) != 1 or _src(rfl[0].body[0]) != exp_body:
        raise T1Unrecognised(file, rfl[0].lineno, "register_func_list loop body")
    cfg["func_reg_final"] = sum((_effect_of(x, file, cc_effs) for x in rfl[1:]), [])

    # MultiStrategyDispatch.copy_to
    mct = _strip_doc(_find_method(msd, "copy_to", file).body)
    srcs = [_src(x) for x in mct]
    if not srcs or srcs[0] != "self._function_dispatch.copy_to(other._function_dispatch, skip=skip)":
        raise T1Unrecognised(file, mct[0].lineno, "MultiStrategyDispatch.copy_to: function-dispatch copy")
    rest = mct[1:]
    cfg["copy_copies_single"] = False
    if rest and isinstance(rest[0], ast.For):
        if _src(rest[0]) != "for cls, fn in self._single_dispatch.registry.items():\n    other._single_dispatch.register(cls, fn)":
            raise T1Unrecognised(file, rest[0].lineno, "MultiStrategyDispatch.copy_to: registry copy")
        cfg["copy_copies_single"] = True
        rest = rest[1:]
    cfg["copy_final"] = sum((_effect_of(x, file, cc_effs) for x in rest), [])
    return cfg


def _coq_bool(b):
    return "true" if b else "false"


def _coq_list(xs):
    return "[" + "; ".join(xs) + "]"


def emit_dispatch(cfg) -> str:
    L = []
    L.append("(* GENERATED by harness/t1_translate.py from src/cattrs/dispatch.py -- do not edit *)")
    L.append("From V.Model Require Import Base Dispatch.")
    L.append("Definition src_cfg : dcfg := {|")
    L.append(f"  insert_front := {_coq_bool(cfg['insert_front'])};")
    L.append(f"  lookup_order := {_coq_list(cfg['lookup_order'])};")
    L.append(f"  pred_exc_continues := {_coq_bool(cfg['pred_exc_continues'])};")
    L.append(f"  cls_reg_each := {_coq_list(cfg['cls_reg_each'])};")
    L.append(f"  cls_reg_direct_each := {_coq_list(cfg['cls_reg_direct_each'])};")
    L.append(f"  cls_reg_final := {_coq_list(cfg['cls_reg_final'])};")
    L.append(f"  func_reg_final := {_coq_list(cfg['func_reg_final'])};")
    L.append(f"  clear_cache_effs := {_coq_list(cfg['clear_cache_effs'])};")
    L.append(f"  cached := {_coq_bool(cfg['cached'])};")
    L.append(f"  copy_drops_suffix := {_coq_bool(cfg['copy_drops_suffix'])};")
    L.append(f"  copy_copies_single := {_coq_bool(cfg['copy_copies_single'])};")
    L.append(f"  copy_final := {_coq_list(cfg['copy_final'])}")
    L.append("|}.")
    return "\n".join(L) + "\n"


# -------------------------------------------------------------- converters.py

def _tuple_entries(list_node, file):
    if not isinstance(list_node, ast.List):
        raise T1Unrecognised(file, list_node.lineno, "expected a list literal of registrations")
    out = []
    for e in list_node.elts:
        if not isinstance(e, ast.Tuple) or len(e.elts) not in (2, 3):
            raise T1Unrecognised(file, e.lineno, "registration entry is not a 2/3-tuple")
        kind = "hook"
        if len(e.elts) == 3:
            k = e.elts[2]
            if isinstance(k, ast.Constant) and k.value is True:
                kind = "factory"
            elif isinstance(k, ast.Constant) and k.value == "extended":
                kind = "extended"
            else:
                raise T1Unrecognised(file, e.lineno, "unknown third element of registration entry")
        out.append({"pred": _src(e.elts[0]), "handler": _src(e.elts[1]), "kind": kind, "line": e.lineno})
    return out


exact_conds = []


def _route(fn, file, direction):
    """register_(un)structure_hook: the if/elif/else routing after the decorator branch."""
    body = _strip_doc(fn.body)
    # skip: `if func is None: ...` and `if attrs_has(cls): resolve_types(cls)`
    rest = []
    for stm in body:
        s = _src(stm)
        if isinstance(stm, ast.If) and _src(stm.test) == "func is None":
            continue
        if isinstance(stm, ast.If) and _src(stm.test) in ("attrs_has(cls)", "attrs_has(cl)") and len(stm.body) == 1:
            continue
        if s == "return None":
            continue
        rest.append(stm)
    if len(rest) != 1 or not isinstance(rest[0], ast.If):
        raise T1Unrecognised(file, fn.lineno, f"{fn.name}: expected a single routing if-chain")
    var = "cls" if direction == "unstructure" else "cl"
    disp = "_unstructure_func" if direction == "unstructure" else "_structure_func"
    routes = []
    node = rest[0]
    while True:
        cond = _src(node.test)
        if cond == f"is_union_type({var})":
            c = "CUnion"
        else:
            # any other test may select the exact-type route (`lambda t: t is x`): the harness evaluates the
            # test itself on real types (it is an oracle of the model, w_is_newtype), T1 only checks the action
            c = "CNewType"
            act = _route_action(node.body, file, var, disp, fn.name)
            if act != "AFuncExact":
                raise T1Unrecognised(file, node.lineno, f"{fn.name}: unknown routing condition `{cond}`")
            import re as _re
            exact_conds.append(_re.sub(rf"\b{var}\b", "T", cond))
        routes.append((c, _route_action(node.body, file, var, disp, fn.name)))
        if len(node.orelse) == 1 and isinstance(node.orelse[0], ast.If):
            node = node.orelse[0]
            continue
        routes.append(("CElse", _route_action(node.orelse, file, var, disp, fn.name)))
        break
    return routes


def _route_action(stmts, file, var, disp, fname):
    srcs = [_src(x) for x in stmts]
    if srcs == [f"self.{disp}.register_func_list([(lambda t: t == {var}, func)])"]:
        return "AFuncExact"
    if srcs == [f"self.{disp}.register_func_list([(lambda t: t is {var}, func)])"]:
        return "AFuncExact"
    if srcs == [f"self.{disp}.register_cls_list([({var}, func)])"]:
        return "ACls"
    if srcs and srcs[0] == f"self._union_struct_registry[{var}] = func":
        effs = []
        for s in srcs[1:]:
            if s == f"self.{disp}.clear_cache()":
                effs.append("CLEAR_CACHE")
            elif s == f"self.{disp}.clear_direct()":
                effs.append("EClearDirect")
            elif s == f"self.{disp}.dispatch.cache_clear()":
                effs.append("ECacheClear")
            else:
                raise T1Unrecognised(file, stmts[0].lineno, f"{fname}: after registry write `{s}`")
        return ("ARegistry", effs)
    raise T1Unrecognised(file, stmts[0].lineno if stmts else 0, f"{fname}: unknown routing action `{srcs}`")


def _copy_args(fn, file):
    """Which constructor options copy() forwards (positionally or by keyword) and the copy_to calls."""
    body = _strip_doc(fn.body)
    if not (isinstance(body[0], ast.Assign) and _src(body[0].targets[0]) == "res" and isinstance(body[0].value, ast.Call)
            and _src(body[0].value.func) == "self.__class__"):
        raise T1Unrecognised(file, fn.lineno, f"{fn.name}: expected `res = self.__class__(...)`")
    call = body[0].value
    params = [a.arg for a in fn.args.args[1:]]
    passed = []
    for i, a in enumerate(call.args):
        passed.append(_classify_copy_arg(a, file, params))
    for kw in call.keywords:
        fb = {"unstructure_fallback_factory": "self._unstructure_func._fallback_factory",
              "structure_fallback_factory": "self._structure_func._fallback_factory"}
        if kw.arg in fb and _src(kw.value) == fb[kw.arg]:
            passed.append(kw.arg)      # forwarded unchanged (not overridable through copy())
        else:
            passed.append(_classify_copy_arg(kw.value, file, params))
    tail = [_src(x) for x in body[1:]]
    return passed, tail


def _classify_copy_arg(a, file, params):
    # `<p> if <p> is not None else <self-attr / strat expr>`
    if isinstance(a, ast.IfExp) and isinstance(a.test, ast.Compare) and isinstance(a.test.left, ast.Name):
        p = a.test.left.id
        if p in params and _src(a.test) == f"{p} is not None" and _src(a.body) == p:
            return p
    raise T1Unrecognised(file, a.lineno, f"copy(): unrecognised constructor argument `{_src(a)[:60]}`")


def translate_converters(repo: Path):
    file = "src/cattrs/converters.py"
    mod = ast.parse((repo / file).read_text())
    del exact_conds[:]
    base = _find_class(mod, "BaseConverter", file)
    conv = _find_class(mod, "Converter", file)
    out = {}

    init = _find_method(base, "__init__", file)
    tables = {"unstructure": {"cls": [], "func": []}, "structure": {"cls": [], "func": []}}
    order = []  # (dispatcher, kind) in source order
    for stm in ast.walk(init):
        pass
    for stm in _strip_doc(init.body):
        if isinstance(stm, ast.Expr) and isinstance(stm.value, ast.Call):
            f = _src(stm.value.func)
            for d, attr in (("unstructure", "_unstructure_func"), ("structure", "_structure_func")):
                if f == f"self.{attr}.register_cls_list":
                    ents = stm.value.args[0]
                    if not isinstance(ents, ast.List):
                        raise T1Unrecognised(file, stm.lineno, "register_cls_list arg")
                    for e in ents.elts:
                        tables[d]["cls"].append({"cls": _src(e.elts[0]), "handler": _src(e.elts[1]), "line": e.lineno})
                    order.append((d, "cls"))
                elif f == f"self.{attr}.register_func_list":
                    tables[d]["func"] += _tuple_entries(stm.value.args[0], file)
                    order.append((d, "func"))
    for d in tables:
        if not tables[d]["func"]:
            raise T1Unrecognised(file, init.lineno, f"BaseConverter.__init__: no register_func_list for {d}")
    out["base_tables"] = tables
    # skip counts must be taken after all registrations
    srcs = [_src(x) for x in _strip_doc(init.body)]
    for s in ("self._unstruct_copy_skip = self._unstructure_func.get_num_fns()", "self._struct_copy_skip = self._structure_func.get_num_fns()"):
        if s not in srcs:
            raise T1Unrecognised(file, init.lineno, f"BaseConverter.__init__: missing `{s}`")
    fb = {}
    for d, attr, arg in (("unstructure", "_unstructure_func", "unstructure_fallback_factory"), ("structure", "_structure_func", "structure_fallback_factory")):
        hits = [s for s in srcs if s.startswith(f"self.{attr} = MultiStrategyDispatch(")]
        if hits != [f"self.{attr} = MultiStrategyDispatch({arg}, self)"]:
            raise T1Unrecognised(file, init.lineno, f"BaseConverter.__init__: construction of {attr}")

    # Converter.__init__ : factory registrations in order
    cinit = _find_method(conv, "__init__", file)
    creg = {"unstructure": [], "structure": []}

    def visit(stmts, cond):
        for stm in stmts:
            if isinstance(stm, ast.If):
                c = _src(stm.test)
                if c == "unstruct_strat is UnstructureStrategy.AS_DICT":
                    visit(stm.body, "AS_DICT")
                    if stm.orelse:
                        raise T1Unrecognised(file, stm.lineno, "Converter.__init__: else branch on strategy")
                continue
            if isinstance(stm, ast.Expr) and isinstance(stm.value, ast.Call):
                call = stm.value
                f = _src(call.func)
                for d in ("unstructure", "structure"):
                    name = f"self.register_{d}_hook_factory"
                    if f == name:
                        if len(call.args) != 2:
                            raise T1Unrecognised(file, stm.lineno, "Converter.__init__: factory registration arity")
                        creg[d].append({"pred": _src(call.args[0]), "handler": _src(call.args[1]), "cond": cond, "line": stm.lineno})
                    elif isinstance(call.func, ast.Call) and _src(call.func.func) == name:
                        creg[d].append({"pred": _src(call.func.args[0]), "handler": _src(call.args[0]), "cond": cond, "line": stm.lineno})
    visit(_strip_doc(cinit.body), None)
    out["conv_regs"] = creg
    csrcs = [_src(x) for x in _strip_doc(cinit.body)]
    for s in ("self._struct_copy_skip = self._structure_func.get_num_fns()", "self._unstruct_copy_skip = self._unstructure_func.get_num_fns()"):
        if s not in csrcs:
            raise T1Unrecognised(file, cinit.lineno, f"Converter.__init__: missing `{s}`")
        # and after the last registration
    last_reg = max(e["line"] for d in creg for e in creg[d])
    for stm in _strip_doc(cinit.body):
        if _src(stm).startswith("self._struct_copy_skip") or _src(stm).startswith("self._unstruct_copy_skip"):
            if stm.lineno < last_reg:
                raise T1Unrecognised(file, stm.lineno, "Converter.__init__: skip count taken before the last registration")

    # Converter methods that write the direct table
    writers = []
    for n in conv.body:
        if isinstance(n, ast.FunctionDef):
            for c in ast.walk(n):
                if isinstance(c, ast.Call) and _src(c.func).endswith(".register_cls_list") and any(
                        k.arg == "direct" and isinstance(k.value, ast.Constant) and k.value.value is True for k in c.keywords):
                    writers.append(n.name)
                    break
    out["direct_writers"] = writers

    # routing
    out["route_unstructure"] = _route(_find_method(base, "register_unstructure_hook", file), file, "unstructure")
    out["route_structure"] = _route(_find_method(base, "register_structure_hook", file), file, "structure")
    if len(set(exact_conds)) != 1:
        raise T1Unrecognised(file, 0, f"the two register_*_hook methods select the exact-type route differently: {exact_conds}")
    out["exact_route_cond"] = exact_conds[0]

    # hook_func / hook_factory registrations
    for d, attr in (("unstructure", "_unstructure_func"), ("structure", "_structure_func")):
        fn = _find_method(base, f"register_{d}_hook_func", file)
        if [_src(x) for x in _strip_doc(fn.body)] != [f"self.{attr}.register_func_list([(check_func, func)])"]:
            raise T1Unrecognised(file, fn.lineno, f"register_{d}_hook_func body")
        fn = _find_method(base, f"register_{d}_hook_factory", file)
        body = _strip_doc(fn.body)
        tail = [_src(x) for x in body if not (isinstance(x, ast.If) and _src(x.test) == "factory is None")]
        exp = [f"self.{attr}.register_func_list([(predicate, factory, 'extended' if _is_extended_factory(factory) else True)])", "return factory"]
        if tail != exp:
            raise T1Unrecognised(file, fn.lineno, f"register_{d}_hook_factory body")
        # Converter wrappers delegate to super()
        cfn = _find_method(conv, f"register_{d}_hook_factory", file)
        if [_src(x) for x in _strip_doc(cfn.body)] != [f"return super().register_{d}_hook_factory(predicate, factory)"]:
            raise T1Unrecognised(file, cfn.lineno, f"Converter.register_{d}_hook_factory body")

    # _is_extended_factory
    for n in mod.body:
        if isinstance(n, ast.FunctionDef) and n.name == "_is_extended_factory":
            b = [_src(x) for x in _strip_doc(n.body)]
            exp = ["sig = inspect_signature(factory)",
                   "return len(sig.parameters) >= 2 and list(sig.parameters.values())[1].default is Signature.empty"]
            if b != exp:
                raise T1Unrecognised(file, n.lineno, "_is_extended_factory body")

    # copy()
    bpassed, btail = _copy_args(_find_method(base, "copy", file), file)
    cpassed, ctail = _copy_args(_find_method(conv, "copy", file), file)
    out["copy_base_passes"] = bpassed
    out["copy_conv_passes"] = cpassed
    def tail_info(tail, fname):
        info = {"unstruct": None, "struct": None, "copies_ureg": False}
        for s in tail:
            s2 = s.replace("skip=", "")
            if s2 == "self._unstructure_func.copy_to(res._unstructure_func, self._unstruct_copy_skip)":
                info["unstruct"] = "skip"
            elif s2 == "self._structure_func.copy_to(res._structure_func, self._struct_copy_skip)":
                info["struct"] = "skip"
            elif s == "return res":
                pass
            elif s in ("res._union_struct_registry.update(self._union_struct_registry)",):
                info["copies_ureg"] = True
            else:
                raise T1Unrecognised(file, 0, f"{fname}: unrecognised statement `{s}`")
        if info["unstruct"] is None or info["struct"] is None:
            raise T1Unrecognised(file, 0, f"{fname}: missing copy_to call")
        return info
    out["copy_base_tail"] = tail_info(btail, "BaseConverter.copy")
    out["copy_conv_tail"] = tail_info(ctail, "Converter.copy")
    dc = _find_method(base, "__deepcopy__", file)
    if [_src(x) for x in _strip_doc(dc.body)] != ["return self.copy()"]:
        raise T1Unrecognised(file, dc.lineno, "__deepcopy__ body")
    return out


def translate_unionstruct(repo: Path):
    file = "src/cattrs/converters.py"
    mod = ast.parse((repo / file).read_text())
    base = _find_class(mod, "BaseConverter", file)
    return {"none_guard_identity": _union_structure_guard(base, file)}


def emit_unionstruct(u) -> str:
    return ("(* GENERATED by harness/t1_translate.py from src/cattrs/converters.py (_gen_attrs_union_structure) -- do not edit *)\n"
            "(* `if obj is None: return None` (true) / a truthiness test (false) *)\n"
            f"Definition src_union_none_guard_is_identity : bool := {_coq_bool(u['none_guard_identity'])}.\n")


def _union_structure_guard(base, file):
    """BaseConverter._gen_attrs_union_structure: with None among the members the hook returns None for `obj is None` (True) or
    for every falsy payload (False); every other payload goes to self.structure(obj, dis_fn(obj)) in both variants."""
    fn = _find_method(base, "_gen_attrs_union_structure", file)
    body = _strip_doc(fn.body)
    srcs = [_src(x) for x in body]
    ifs = [x for x in body if isinstance(x, ast.If)]
    if "has_none = NoneType in cl.__args__" not in srcs or len(ifs) != 1 or _src(ifs[0].test) != "has_none" or srcs[-1] != "return structure_attrs_union":
        raise T1Unrecognised(file, fn.lineno, "_gen_attrs_union_structure: expected `has_none = NoneType in cl.__args__`, one `if has_none:` and the return of the closure")
    if not any(s.startswith("dis_fn = self._get_dis_func(cl") for s in srcs):
        raise T1Unrecognised(file, fn.lineno, "_gen_attrs_union_structure: dis_fn is not self._get_dis_func(cl, ...)")

    def closure(stmts, where):
        if len(stmts) != 1 or not isinstance(stmts[0], ast.FunctionDef) or stmts[0].name != "structure_attrs_union":
            raise T1Unrecognised(file, fn.lineno, f"_gen_attrs_union_structure: {where} branch is not one closure")
        return _strip_doc(stmts[0].body), stmts[0].args.args[0].arg
    nb, na = closure(ifs[0].body, "has_none")
    pb, pa = closure(ifs[0].orelse, "else")
    if [_src(x) for x in pb] != [f"return self.structure({pa}, dis_fn({pa}))"]:
        raise T1Unrecognised(file, fn.lineno, "_gen_attrs_union_structure: closure without None")
    if not (len(nb) == 2 and isinstance(nb[0], ast.If) and not nb[0].orelse and [_src(x) for x in nb[0].body] == ["return None"]
            and _src(nb[1]) == f"return self.structure({na}, dis_fn({na}))"):
        raise T1Unrecognised(file, fn.lineno, "_gen_attrs_union_structure: closure with None")
    test = _src(nb[0].test)
    if test == f"{na} is None":
        return True
    if test == f"not {na}":
        return False
    raise T1Unrecognised(file, nb[0].lineno, f"_gen_attrs_union_structure: None guard `{test}`")


def translate_latebinding(repo: Path):
    """gen/__init__.py, gen/typeddicts.py: what the unstructure generators bind when the attribute's hook cannot be generated because of
    a reference cycle (`except RecursionError:`): a call that keeps the declared type (late_unstructure_handler(t, converter) ->
    converter.unstructure(v, unstructure_as=t)) or converter.unstructure (dispatch on the class of the value)"""
    def handlers(file, fname):
        mod = ast.parse((repo / file).read_text())
        fn = [n for n in mod.body if isinstance(n, ast.FunctionDef) and n.name == fname]
        if len(fn) != 1:
            raise T1Unrecognised(file, 0, f"{fname} not found")
        out = []
        for n in ast.walk(fn[0]):
            if isinstance(n, ast.ExceptHandler) and n.type is not None and _src(n.type) == "RecursionError":
                body = [_src(x) for x in _strip_doc(n.body)]
                if body == ["handler = converter.unstructure"]:
                    out.append(False)
                elif body == ["handler = late_unstructure_handler(t, converter)"]:
                    out.append(True)
                else:
                    raise T1Unrecognised(file, n.lineno, f"{fname}: late binding of an attribute is `{'; '.join(body)}`")
        if not out:
            raise T1Unrecognised(file, fn[0].lineno, f"{fname}: no `except RecursionError` around the attribute hook lookup")
        return out
    gen = handlers("src/cattrs/gen/__init__.py", "make_dict_unstructure_fn_from_attrs")
    td = handlers("src/cattrs/gen/typeddicts.py", "make_dict_unstructure_fn")
    by_decl = all(gen)
    if by_decl:
        file = "src/cattrs/gen/_shared.py"
        mod = ast.parse((repo / file).read_text())
        fn = [n for n in mod.body if isinstance(n, ast.FunctionDef) and n.name == "late_unstructure_handler"]
        if len(fn) != 1:
            raise T1Unrecognised(file, 0, "late_unstructure_handler not found")
        inner = [n for n in _strip_doc(fn[0].body) if isinstance(n, ast.FunctionDef)]
        rets = [_src(x) for x in _strip_doc(fn[0].body) if isinstance(x, ast.Return)]
        if len(inner) != 1 or rets != [f"return {inner[0].name}"]:
            raise T1Unrecognised(file, fn[0].lineno, "late_unstructure_handler: expected one closure, returned")
        a = fn[0].args.args
        body = [_src(x) for x in _strip_doc(inner[0].body)]
        ia = inner[0].args
        defaults = {x.arg: _src(d) for x, d in zip(ia.args[len(ia.args) - len(ia.defaults):], ia.defaults)}
        val = ia.args[0].arg
        ok = False
        for cn, tn in [(c_, t_) for c_ in defaults for t_ in defaults if c_ != t_]:
            if body == [f"return {cn}.unstructure({val}, unstructure_as={tn})"] and defaults[tn] == a[0].arg and defaults[cn] == a[1].arg:
                ok = True
        if not ok:
            raise T1Unrecognised(file, inner[0].lineno, "late_unstructure_handler: the closure is not `return c.unstructure(val, unstructure_as=type)`")
    return {"gen_by_declared": by_decl, "td_by_declared": all(td)}


def emit_latebinding(l) -> str:
    return ("(* GENERATED by harness/t1_translate.py from src/cattrs/gen/__init__.py, gen/_shared.py, gen/typeddicts.py -- do not edit *)\n"
            "(* the unstructure handler bound when a reference cycle prevents generating the attribute's hook: keeps the declared type (true) /\n"
            "   converter.unstructure, dispatching on the class of the value (false) *)\n"
            f"Definition src_late_unstructure_by_declared : bool := {_coq_bool(l['gen_by_declared'])}.\n"
            f"Definition src_td_late_unstructure_by_declared : bool := {_coq_bool(l['td_by_declared'])}.\n")


def emit_converters(cv, dcfg) -> str:
    L = ["(* GENERATED by harness/t1_translate.py from src/cattrs/converters.py -- do not edit *)",
         "From V.Model Require Import Base Dispatch Routing."]
    writers = cv["direct_writers"]

    def ient(e, asdict_only=False):
        ureg = "_union_struct_registry" in e["pred"]
        wr = any(("self." + w) in e["handler"] for w in writers)
        return "{| ie_ureg := %s; ie_writes := %s; ie_asdict_only := %s |}" % (_coq_bool(ureg), _coq_bool(wr), _coq_bool(asdict_only))

    def comment(entries):
        out = []
        for i, e in enumerate(entries):
            t = f"   {i}: {e['pred']!s:.70} -> {e['handler']!s:.70}"
            out.append(t.replace("*", "_").replace("(", "<").replace(")", ">"))
        return out

    for d, short in (("unstructure", "un"), ("structure", "st")):
        base_entries = cv["base_tables"][d]["func"]
        if d == "structure" and len([e for e in base_entries if "_union_struct_registry" in e["pred"]]) > 1:
            raise T1Unrecognised("src/cattrs/converters.py", 0, "two union-registry entries")
        L.append(f"(* BaseConverter.__init__ {d} entries, source order:")
        L += comment(base_entries)
        L.append("*)")
        L.append(f"Definition src_base_{short} : list ientry := " + _coq_list([ient(e) for e in base_entries]) + ".")
        ce = cv["conv_regs"][d]
        L.append(f"(* Converter.__init__ {d} factory registrations, source order:")
        L += comment(ce)
        L.append("*)")
        L.append(f"Definition src_conv_{short} : list ientry := " + _coq_list([ient(e, e["cond"] == "AS_DICT") for e in ce]) + ".")

    def route(rs):
        items = []
        for c, a in rs:
            if isinstance(a, tuple):
                effs = []
                for e in a[1]:
                    effs += dcfg["clear_cache_effs"] if e == "CLEAR_CACHE" else [e]
                items.append(f"({c}, ARegistry {_coq_list(effs)})")
            else:
                items.append(f"({c}, {a})")
        return _coq_list(items)
    opt = {"dict_factory": "ODictFactory", "unstruct_strat": "OStrat", "prefer_attrib_converters": "OPrefer",
           "detailed_validation": "ODetailed", "omit_if_default": "OOmit", "forbid_extra_keys": "OForbid",
           "type_overrides": "OTypeOv", "unstruct_collection_overrides": "OCollOv",
           "unstructure_fallback_factory": "OUnstructFallback", "structure_fallback_factory": "OStructFallback"}
    for k in ("copy_base_passes", "copy_conv_passes"):
        for p in cv[k]:
            if p not in opt:
                raise T1Unrecognised("src/cattrs/converters.py", 0, f"copy(): unknown option {p}")
    wk = WELL_KNOWN_CLS
    for d, short in (("unstructure", "un"), ("structure", "st")):
        ids = []
        for e in cv["base_tables"][d]["cls"]:
            if e["cls"] not in wk:
                raise T1Unrecognised("src/cattrs/converters.py", e["line"], f"register_cls_list for unknown class {e['cls']}")
            ids.append(f"{wk[e['cls']]}%N")
        L.append(f"Definition src_cls_{short} : list cls := {_coq_list(ids)}.")
    L.append("Definition src_csrc : csrc := {|")
    L.append("  base_un := src_base_un; base_st := src_base_st; conv_un := src_conv_un; conv_st := src_conv_st;")
    L.append("  cls_un := src_cls_un; cls_st := src_cls_st;")
    L.append(f"  r_un := {route(cv['route_unstructure'])};")
    L.append(f"  r_st := {route(cv['route_structure'])};")
    L.append(f"  copy_base := {_coq_list([opt[p] for p in cv['copy_base_passes']])};")
    L.append(f"  copy_full := {_coq_list([opt[p] for p in cv['copy_conv_passes']])};")
    L.append(f"  copy_base_ureg := {_coq_bool(cv['copy_base_tail']['copies_ureg'])};")
    L.append(f"  copy_full_ureg := {_coq_bool(cv['copy_conv_tail']['copies_ureg'])}")
    L.append("|}.")
    return "\n".join(L) + "\n"


# ------------------------------------------------------------ gen/__init__.py

def translate_gen(repo: Path):
    """Flags of make_dict_structure_fn_from_attrs the class-template model is parametric in."""
    file = "src/cattrs/gen/__init__.py"
    mod = ast.parse((repo / file).read_text())
    fn = None
    for n in mod.body:
        if isinstance(n, ast.FunctionDef) and n.name == "make_dict_structure_fn_from_attrs":
            fn = n
    if fn is None:
        raise T1Unrecognised(file, 0, "make_dict_structure_fn_from_attrs not found")
    top = None
    for stm in fn.body:
        if isinstance(stm, ast.If) and _src(stm.test) == "_cattrs_detailed_validation":
            top = stm
    if top is None:
        raise T1Unrecognised(file, fn.lineno, "no `if _cattrs_detailed_validation:` split")
    out = {}
    # detailed branch: is `errors` looked at again after the post-instantiation lines?
    tail = [s for s in top.body if isinstance(s, ast.If) and _src(s.test) == "not pi_lines"]
    if len(tail) != 1:
        raise T1Unrecognised(file, top.lineno, "detailed branch: expected one `if not pi_lines:`")
    els = [_src(x) for x in tail[0].orelse]
    if not els or els[-1] != "pi_lines.append('  return instance')":
        raise T1Unrecognised(file, tail[0].lineno, "detailed branch: post-instantiation lines must end with `return instance`")
    rechecks = [e for e in els if e.startswith("pi_lines.append(") and "if errors: raise __c_cve(" in e]
    out["detailed_rechecks_errors"] = bool(rechecks)
    for e in els[1:-1]:
        if e not in rechecks:
            raise T1Unrecognised(file, tail[0].lineno, f"detailed branch: unrecognised statement `{e[:60]}`")
    # fast branch: keyword-only call arguments
    fast_src = "\n".join(_src(x) for x in top.orelse)
    if ("kw_invocation_lines.append(f'{a.alias}={invocation_line}')" in fast_src
            and "invocation_lines.extend(kw_invocation_lines)" in fast_src
            and fast_src.index("invocation_lines.extend(kw_invocation_lines)") < fast_src.index("invocation_lines.append('**res,')")):
        out["fast_kw_last"] = True
    elif "invocation_line = f'{a.alias}={invocation_line}'" in fast_src:
        out["fast_kw_last"] = False
    else:
        raise T1Unrecognised(file, top.lineno, "fast branch: how keyword-only arguments are emitted")
    # bucket order of the generated function
    tl = [s for s in fn.body if isinstance(s, ast.Assign) and _src(s.targets[0]) == "total_lines"]
    if len(tl) != 1 or [_src(e) for e in tl[0].value.elts[1:]] != ["*lines", "*post_lines", "*instantiation_lines", "*pi_lines"]:
        raise T1Unrecognised(file, fn.lineno, "order of the line buckets in total_lines")
    # dataclass fields keep their kw_only flag (adapted_fields)
    cfile = "src/cattrs/_compat.py"
    cmod = ast.parse((repo / cfile).read_text())
    af = [n for n in cmod.body if isinstance(n, ast.FunctionDef) and n.name == "adapted_fields"]
    if len(af) != 1:
        raise T1Unrecognised(cfile, 0, "adapted_fields not found")
    out["dataclass_kw_only_kept"] = "kw_only=attr.kw_only" in _src(af[0])
    # converters.py structure_attrs_fromtuple: positional for everything, or keyword-only attributes by keyword and init=False left out
    vfile = "src/cattrs/converters.py"
    vmod = ast.parse((repo / vfile).read_text())
    ft = _find_method(_find_class(vmod, "BaseConverter", vfile), "structure_attrs_fromtuple", vfile)
    body = [_src(x) for x in _strip_doc(ft.body)]
    fsrc = "\n".join(body)
    if "for a, value in zip(fields(cl), obj):" not in fsrc:
        raise T1Unrecognised(vfile, ft.lineno, "structure_attrs_fromtuple: the zip over fields(cl) and the payload")
    if body[-1] == "return cl(*conv_obj)" and "kw_only" not in fsrc and "a.init" not in fsrc:
        out["tuple_by_kw"] = False
    elif (body[-1] == "return cl(*conv_obj, **kw_obj)" and "if not a.init:\n        continue" in fsrc and "if a.kw_only:" in fsrc
          and "kw_obj[getattr(a, 'alias', a.name)] = converted" in fsrc and fsrc.index("if not a.init:") < fsrc.index("self._structure_attribute(a, value)")):
        out["tuple_by_kw"] = True
    else:
        raise T1Unrecognised(vfile, ft.lineno, "structure_attrs_fromtuple: how the structured values are passed to the class")
    return out


def _lookups_under_recursion_handler(fn, names):
    """(number of calls to one of `names` inside fn, number of those NOT inside the body of a `try` with an `except RecursionError`)"""
    parents = {}
    for n in ast.walk(fn):
        for ch in ast.iter_child_nodes(n):
            parents[ch] = n
    lookups, unguarded = 0, 0
    for n in ast.walk(fn):
        if isinstance(n, ast.Call) and _src(n.func) in names:
            lookups += 1
            cur, ok = n, False
            while cur in parents:
                par = parents[cur]
                if isinstance(par, ast.Try) and cur in par.body and any(h.type is not None and "RecursionError" in _src(h.type) for h in par.handlers):
                    ok = True
                    break
                cur = par
            unguarded += not ok
    return lookups, unguarded


def translate_td(repo: Path):
    """gen/typeddicts.py: are the removals of a renamed key skipped when the rename does not change the key?"""
    file = "src/cattrs/gen/typeddicts.py"
    src = (repo / file).read_text()
    mod = ast.parse(src)
    fn = ([n for n in mod.body if isinstance(n, ast.FunctionDef) and n.name == "_make_dict_structure_fn"]
          or [n for n in mod.body if isinstance(n, ast.FunctionDef) and n.name == "make_dict_structure_fn"])
    if len(fn) != 1:
        raise T1Unrecognised(file, 0, "make_dict_structure_fn not found")
    guards = []
    for n in ast.walk(fn[0]):
        if isinstance(n, ast.If) and len(n.body) == 1 and isinstance(n.body[0], ast.Expr):
            b = _src(n.body[0])
            if b.startswith("lines.append(") and ("del res[" in b or "res.pop(" in b):
                guards.append(_src(n.test))
    if len(guards) != 3:
        raise T1Unrecognised(file, fn[0].lineno, f"expected three guarded removals of renamed keys, found {len(guards)}")
    # every attribute hook lookup of the structure generator survives the signal that cuts reference cycles: it is
    # find_structure_handler(...) (which catches RecursionError) or a converter.get_structure_hook(...) inside `try: ... except RecursionError:`
    lookups, unguarded = _lookups_under_recursion_handler(fn[0], ("converter.get_structure_hook", "converter._structure_func.dispatch"))
    if lookups == 0 and "find_structure_handler(" not in _src(fn[0]):
        raise T1Unrecognised(file, fn[0].lineno, "no attribute hook lookup found in the TypedDict structure generator")
    catch = unguarded == 0
    if all(g == "override.rename is not None and kn != an" for g in guards):
        return {"skip_self_rename": True, "lookups_catch_cycles": catch}
    if all(g == "override.rename is not None" for g in guards):
        return {"skip_self_rename": False, "lookups_catch_cycles": catch}
    raise T1Unrecognised(file, fn[0].lineno, f"removal guards differ: {guards}")


def emit_gen(g) -> str:
    return ("(* GENERATED by harness/t1_translate.py from src/cattrs/gen/__init__.py -- do not edit *)\n"
            f"Definition src_recheck : bool := {_coq_bool(g['detailed_rechecks_errors'])}.\n"
            f"Definition src_kw_last : bool := {_coq_bool(g['fast_kw_last'])}.\n"
            f"Definition src_td_skip_self_rename : bool := {_coq_bool(g['td']['skip_self_rename'])}.\n"
            f"Definition src_tuple_by_kw : bool := {_coq_bool(g['tuple_by_kw'])}.\n"
            "(* gen/typeddicts.py: every attribute hook lookup of the structure generator (both validation modes) catches the RecursionError that signals a reference cycle *)\n"
            f"Definition src_td_structure_lookups_catch_cycles : bool := {_coq_bool(g['td']['lookups_catch_cycles'])}.\n")


# ------------------------------------------------------- strategies/_unions.py

def translate_unions(repo: Path):
    file = "src/cattrs/strategies/_unions.py"
    mod = ast.parse((repo / file).read_text())
    fn = None
    for n in ast.walk(mod):
        if isinstance(n, ast.FunctionDef) and n.name == "make_structure_native_union":
            fn = n
    if fn is None:
        raise T1Unrecognised(file, 0, "make_structure_native_union not found")
    lv = [s for s in fn.body if isinstance(s, ast.Assign) and _src(s.targets[0]) == "literal_values"]
    if len(lv) != 1 or not isinstance(lv[0].value, ast.SetComp):
        raise T1Unrecognised(file, fn.lineno, "literal_values is not a set comprehension")
    elt = _src(lv[0].value.elt)
    checks = []
    for n in ast.walk(fn):
        if isinstance(n, ast.If) and "literal_classes" in _src(n.test):
            checks.append(_src(n.test))
    if len(checks) != 2 or checks[0] != checks[1]:
        raise T1Unrecognised(file, fn.lineno, f"expected the same literal check in both hook variants, got {checks}")
    if elt == "(v.__class__, v)" and checks[0] == "val.__class__ in literal_classes and (val.__class__, val) in vals":
        pairs = True
    elif elt == "v" and checks[0] == "val.__class__ in literal_classes and val in vals":
        pairs = False
    else:
        raise T1Unrecognised(file, lv[0].lineno, f"literal check `{checks[0]}` over elements `{elt}`")
    # order of the checks in both variants: literal, then classes, then spillover / TypeError
    for n in ast.walk(fn):
        if isinstance(n, ast.FunctionDef) and n.name == "structure_native_union":
            b = [_src(x) for x in _strip_doc(n.body)]
            if len(b) != 3 or not b[0].startswith("if val.__class__ in literal_classes") or not b[1].startswith("if val.__class__ in classes:"):
                raise T1Unrecognised(file, n.lineno, "structure_native_union: order of the checks")
            if not (b[2].startswith("return converter.structure(val, spillover)") or b[2].startswith("raise TypeError(")):
                raise T1Unrecognised(file, n.lineno, "structure_native_union: last statement")
    return {"literal_pairs": pairs}


def translate_disambig(repo: Path):
    file = "src/cattrs/disambiguators.py"
    mod = ast.parse((repo / file).read_text())
    fn = [n for n in mod.body if isinstance(n, ast.FunctionDef) and n.name == "create_default_dis_func"]
    if len(fn) != 1:
        raise T1Unrecognised(file, 0, "create_default_dis_func not found")
    tests = []
    for n in ast.walk(fn[0]):
        if isinstance(n, ast.For) and _src(n.target) == "maybe_renamed_attr_name":
            if not (len(n.body) == 2 and isinstance(n.body[1], ast.If) and isinstance(n.body[1].body[-1], ast.Break) and n.orelse):
                raise T1Unrecognised(file, n.lineno, "unique-key search loop shape")
            tests.append(_src(n.body[1].test))
    if len(tests) != 1:
        raise T1Unrecognised(file, fn[0].lineno, "expected one unique-key search loop")
    # the condition is a conjunction of recognised clauses: "no default value", "no default factory" (dataclasses keep the
    # factory apart from `default`), "takes part in __init__"
    base = "cl_fields[orig_name].default in (NOTHING, MISSING)"
    fac = "getattr(cl_fields[orig_name], 'default_factory', MISSING) is MISSING"
    ini = "cl_fields[orig_name].init"
    conj = [c.strip() for c in tests[0].split(" and ")]
    if base not in conj or any(c not in (base, fac, ini) for c in conj) or len(set(conj)) != len(conj):
        raise T1Unrecognised(file, fn[0].lineno, f"unique-key condition `{tests[0]}`")
    skip = ini in conj
    factory_default = fac in conj
    src = _src(fn[0])
    for needle in ("cls_and_attrs.sort(key=lambda c_a: len(c_a[1]), reverse=True)",
                   "c_and_a[0] is not cl and c_and_a[0] not in uniq_attrs_dict.values()",
                   "uniq = cl_reqs - other_reqs"):
        if needle not in src:
            raise T1Unrecognised(file, fn[0].lineno, f"missing `{needle}`")
    return {"skip_noninit": skip, "factory_is_default": factory_default}


def translate_threads(repo: Path):
    file = "src/cattrs/gen/_consts.py"
    mod = ast.parse((repo / file).read_text())
    val = None
    for n in mod.body:
        if isinstance(n, ast.Assign) and _src(n.targets[0]) == "already_generating":
            val = _src(n.value)
    if val is None:
        raise T1Unrecognised(file, 0, "already_generating not defined")
    imports = [_src(n) for n in mod.body if isinstance(n, (ast.Import, ast.ImportFrom))]
    if val == "local()" and "from threading import local" in imports:
        tl = True
    elif val in ("threading.local()",) and "import threading" in imports:
        tl = True
    elif val in ("SimpleNamespace()", "types.SimpleNamespace()", "_Namespace()", "object()"):
        tl = False
    else:
        raise T1Unrecognised(file, 0, f"already_generating = {val}")
    # every generator guards with `if cl in working_set: raise RecursionError()` and removes the class in a finally
    sites = 0
    for f in ("src/cattrs/gen/__init__.py", "src/cattrs/gen/typeddicts.py", "src/cattrs/cols.py"):
        src = (repo / f).read_text()
        adds, removes = re.findall(r"working_set\.add\((\w+)\)", src), re.findall(r"working_set\.remove\((\w+)\)", src)
        sites += len(adds)
        if sorted(adds) != sorted(removes):
            raise T1Unrecognised(f, 0, "working_set.add / remove are not paired")
    # ... and EVERY hook generator that can be re-entered through a reference cycle has the guard (a generator without it runs until
    # the interpreter's own RecursionError, near which the dispatcher's predicates fail and wrong hooks are chosen and cached: F36)
    unguarded = []
    for f, name in GENERATORS:
        m = ast.parse((repo / f).read_text())
        fns = [n for n in m.body if isinstance(n, ast.FunctionDef) and n.name == name]
        if len(fns) != 1:
            raise T1Unrecognised(f, 0, f"generator {name} not found")
        body = _src(fns[0])
        # the guard, on one and the same name: `if X in working_set: raise RecursionError()`, `working_set.add(X)`, and `working_set.remove(X)` in a finally
        keys = set(re.findall(r"working_set\.add\((\w+)\)", body))
        ok = len(keys) == 1 and "finally:" in body
        if ok:
            k = next(iter(keys))
            ok = (f"working_set.remove({k})" in body and re.search(rf"if {k} in working_set:\s*\n\s*raise RecursionError\(\)", body) is not None)
        if not ok:
            unguarded.append(f"{f}:{name}")
    # ... and every attribute hook lookup made while generating a STRUCTURE hook catches the cycle signal (it becomes late binding):
    # find_structure_handler (attrs / dataclass generator, detailed TypedDict branch) and the TypedDict generator's own lookups (F43)
    fsh_file = "src/cattrs/gen/_shared.py"
    m = ast.parse((repo / fsh_file).read_text())
    fsh = [n for n in m.body if isinstance(n, ast.FunctionDef) and n.name == "find_structure_handler"]
    if len(fsh) != 1:
        raise T1Unrecognised(fsh_file, 0, "find_structure_handler not found")
    n_fsh, un_fsh = _lookups_under_recursion_handler(fsh[0], ("c.get_structure_hook", "c._structure_func.dispatch"))
    if n_fsh == 0:
        raise T1Unrecognised(fsh_file, fsh[0].lineno, "find_structure_handler: no hook lookup found")
    td = translate_td(repo)
    catch = un_fsh == 0 and bool(td["lookups_catch_cycles"])
    return {"thread_local": tl, "guarded_generators": sites, "all_generators_guarded": not unguarded, "unguarded_generators": unguarded,
            "lookups_catch_cycles": catch, "find_structure_handler_catches": un_fsh == 0}


GENERATORS = [("src/cattrs/gen/__init__.py", "make_dict_unstructure_fn"), ("src/cattrs/gen/__init__.py", "make_dict_structure_fn"),
              ("src/cattrs/gen/typeddicts.py", "make_dict_unstructure_fn"), ("src/cattrs/gen/typeddicts.py", "make_dict_structure_fn"),
              ("src/cattrs/cols.py", "namedtuple_dict_structure_factory"), ("src/cattrs/cols.py", "namedtuple_dict_unstructure_factory")]


def emit_threads(t) -> str:
    return ("(* GENERATED by harness/t1_translate.py from src/cattrs/gen/_consts.py, gen/__init__.py, gen/typeddicts.py, cols.py -- do not edit *)\n"
            f"Definition src_thread_local : bool := {_coq_bool(t['thread_local'])}.\n"
            "(* every hook generator adds the class to the working set, refuses re-entry and removes it in a finally *)\n"
            f"Definition src_all_generators_guarded : bool := {_coq_bool(t['all_generators_guarded'])}.\n"
            "(* every attribute hook lookup of the structure generators catches the RecursionError that signals a reference cycle *)\n"
            f"Definition src_lookups_catch_cycles : bool := {_coq_bool(t['lookups_catch_cycles'])}.\n")


def emit_unions(u) -> str:
    return ("(* GENERATED by harness/t1_translate.py from src/cattrs/strategies/_unions.py -- do not edit *)\n"
            f"Definition src_lit_pairs : bool := {_coq_bool(u['literal_pairs'])}.\n")


def emit_disambig(d) -> str:
    return ("(* GENERATED by harness/t1_translate.py from src/cattrs/disambiguators.py -- do not edit *)\n"
            f"Definition src_dis_skip_noninit : bool := {_coq_bool(d['skip_noninit'])}.\n"
            "(* does an attribute whose default is a FACTORY (dataclasses: default_factory) count as having a default? *)\n"
            f"Definition src_dis_factory_is_default : bool := {_coq_bool(d['factory_is_default'])}.\n")


# ------------------------------------------------------- hook tables (CONV model)

HOOK_PRED = {
    "is_protocol": "PProtocol", "lambda t: get_final_base(t) is not None": "PFinal", "is_type_alias": "PTypeAlias",
    "is_literal_containing_enums": "PLiteralEnums", "is_mapping": "PMapping", "is_sequence": "PSequence", "is_mutable_set": "PMutableSet",
    "is_frozenset": "PFrozenSet", "lambda t: issubclass(t, Enum)": "PEnumSub", "has": "PHas", "is_union_type": "PUnion",
    "lambda t: t in ANIES": "PAnies", "lambda cl: cl in ANIES or cl is Optional or cl is None": "PAniesOpt", "is_generic_attrs": "PGenericAttrs",
    "lambda t: get_newtype_base(t) is not None": "PNewType", "is_literal": "PLiteral", "is_deque": "PDeque", "is_tuple": "PTuple",
    "is_namedtuple": "PNamedTuple", "is_supported_union": "PSupportedUnion", "is_optional": "POptional",
    "lambda t: is_union_type(t) and t in self._union_struct_registry": "PUnionRegistry", "has_with_generic": "PHasWithGeneric",
    "is_annotated": "PAnnotated", "is_hetero_tuple": "PHeteroTuple", "is_counter": "PCounter", "is_defaultdict": "PDefaultDict", "is_typeddict": "PTypedDict",
}
HOOK_HANDLER_ST = {
    "lambda v, _: v": "HPassValue", "self._gen_structure_generic": "HGenStructGeneric", "self._structure_newtype": "HStructNewType",
    "type_alias_structure_factory": "HTypeAliasStructFactory", "self._structure_final_factory": "HFinalStructFactory",
    "self._structure_simple_literal": "HSimpleLiteral", "self._structure_enum_literal": "HEnumLiteral", "list_structure_factory": "HListFactory",
    "self._structure_deque": "HStructDeque", "self._structure_set": "HStructSet", "self._structure_frozenset": "HStructFrozenSet",
    "self._structure_tuple": "HStructTuple", "namedtuple_structure_factory": "HNamedTupleStructFactory", "self._structure_dict": "HStructDict",
    "self._gen_attrs_union_structure": "HAttrsUnion", "self._structure_optional": "HStructOptional",
    "self._union_struct_registry.__getitem__": "HUnionRegistryGet", "self._structure_attrs": "HStructAttrs", "self._structure_call": "HStructCall",
    "self.gen_structure_attrs_fromdict": "HGenStructAttrsFromDict", "self.gen_structure_annotated": "HGenStructAnnotated",
    "self.gen_structure_mapping": "HGenStructMapping", "self.gen_structure_counter": "HGenStructCounter",
    "defaultdict_structure_factory": "HDefaultDictFactory", "self.gen_structure_typeddict": "HGenStructTypedDict", "self.get_structure_newtype": "HGetStructNewType",
}
HOOK_HANDLER_UN = {
    "identity": "HIdentity", "str": "HPathStr", "lambda o: self.unstructure(o, unstructure_as=o.__class__)": "HUnstructProtocol",
    "lambda t: self.get_unstructure_hook(get_final_base(t))": "HFinalUnstructFactory",
    "lambda t: self.get_unstructure_hook(get_type_alias_base(t))": "HTypeAliasUnstructFactory", "self.unstructure": "HUnstructure",
    "self._unstructure_mapping": "HUnstructMapping", "self._unstructure_seq": "HUnstructSeq", "self._unstructure_enum": "HUnstructEnum",
    "self._unstructure_attrs": "HUnstructAttrs", "self._unstructure_union": "HUnstructUnion",
    "self.gen_unstructure_attrs_fromdict": "HGenUnstructAttrsFromDict", "self.gen_unstructure_annotated": "HGenUnstructAnnotated",
    "self.gen_unstructure_hetero_tuple": "HGenUnstructHeteroTuple", "namedtuple_unstructure_factory": "HNamedTupleUnstructFactory",
    "self.gen_unstructure_iterable": "HGenUnstructIterable", "self.gen_unstructure_mapping": "HGenUnstructMapping",
    "lambda cl: self.gen_unstructure_iterable(cl, unstructure_to=set)": "HGenUnstructIterableSet",
    "lambda cl: self.gen_unstructure_iterable(cl, unstructure_to=frozenset)": "HGenUnstructIterableFrozenSet",
    "self.gen_unstructure_optional": "HGenUnstructOptional", "self.gen_unstructure_typeddict": "HGenUnstructTypedDict",
    "lambda t: self.get_unstructure_hook(get_newtype_base(t))": "HUnstructNewType",
}
HOOK_CLS = {"str": "CStr", "bytes": "CBytes", "int": "CInt", "float": "CFloat", "Enum": "CEnum", "Path": "CPath"}


def emit_hooks(cv) -> str:
    file = "src/cattrs/converters.py"

    def look(d, k, line, what):
        if k not in d:
            raise T1Unrecognised(file, line, f"{what} `{k}` is not one the nested model knows")
        return d[k]
    out = ["(* GENERATED by harness/t1_translate.py from src/cattrs/converters.py -- do not edit *)", "From V.Model Require Import Base HookTable."]
    for d, hd, tag in (("structure", HOOK_HANDLER_ST, "st"), ("unstructure", HOOK_HANDLER_UN, "un")):
        cls = "; ".join(f"({look(HOOK_CLS, e['cls'], e['line'], 'class')}, {look(hd, e['handler'], e['line'], 'handler')})" for e in cv["base_tables"][d]["cls"])
        base = "; ".join(f"({look(HOOK_PRED, e['pred'], e['line'], 'predicate')}, {look(hd, e['handler'], e['line'], 'handler')})" for e in cv["base_tables"][d]["func"])
        conv = "; ".join(f"({'true' if e['cond'] == 'AS_DICT' else 'false'}, {look(HOOK_PRED, e['pred'], e['line'], 'predicate')}, {look(hd, e['handler'], e['line'], 'handler')})"
                         for e in cv["conv_regs"][d])
        out.append(f"Definition src_{tag}_cls : list (hcls * hhandler) := [{cls}].")
        out.append(f"Definition src_{tag}_base : list (hpred * hhandler) := [{base}].")
        out.append(f"Definition src_{tag}_conv : list (bool * hpred * hhandler) := [{conv}].")
    return "\n".join(out) + "\n"


# ------------------------------------------------------- in-place edits (C11)

def _strings_of(fn):
    out = []
    for n in ast.walk(fn):
        if isinstance(n, ast.Constant) and isinstance(n.value, str):
            out.append(n.value)
    return out


def _edits_only_after_copy(fn, var, file):
    """Inside fn, is every in-place edit of `var` (var.pop(..), del var[..], var[..] = .., var.update/clear/setdefault/popitem)
    preceded, on its path, by `var = var.copy()`?  Returns (edits_found, all_guarded)."""
    import re
    edits = [0]
    ok = [True]

    def is_copy_assign(st):
        return (isinstance(st, ast.Assign) and len(st.targets) == 1 and isinstance(st.targets[0], ast.Name) and st.targets[0].id == var
                and _src(st.value) == f"{var}.copy()")

    def mutates(node):
        for n in ast.walk(node):
            if isinstance(n, ast.Call) and isinstance(n.func, ast.Attribute) and isinstance(n.func.value, ast.Name) and n.func.value.id == var \
                    and n.func.attr in ("pop", "update", "clear", "setdefault", "popitem", "__delitem__", "__setitem__"):
                return True
            if isinstance(n, ast.Delete) and any(isinstance(t, ast.Subscript) and isinstance(t.value, ast.Name) and t.value.id == var for t in n.targets):
                return True
            if isinstance(n, (ast.Assign, ast.AugAssign)):
                tg = n.targets if isinstance(n, ast.Assign) else [n.target]
                if any(isinstance(t, ast.Subscript) and isinstance(t.value, ast.Name) and t.value.id == var for t in tg):
                    return True
        return False

    def walk(stmts, copied):
        for st in stmts:
            if is_copy_assign(st):
                copied = True
                continue
            if isinstance(st, ast.If):
                if mutates(st.test):
                    edits[0] += 1
                    ok[0] = ok[0] and copied
                walk(st.body, copied)
                walk(st.orelse, copied)
                continue
            if isinstance(st, (ast.FunctionDef, ast.For, ast.While, ast.With, ast.Try)):
                raise T1Unrecognised(file, st.lineno, "unexpected compound statement in a tagged-union structure hook")
            if mutates(st):
                edits[0] += 1
                ok[0] = ok[0] and copied
        return copied
    walk(_strip_doc(fn.body), False)
    return edits[0], ok[0]


def translate_alias(repo: Path):
    import re
    # strategies/_unions.py: the structure hooks of configure_tagged_union edit `val` only after copying it
    file = "src/cattrs/strategies/_unions.py"
    mod = ast.parse((repo / file).read_text())
    ctu = [n for n in mod.body if isinstance(n, ast.FunctionDef) and n.name == "configure_tagged_union"]
    if len(ctu) != 1:
        raise T1Unrecognised(file, 0, "configure_tagged_union not found")
    hooks = [n for n in ast.walk(ctu[0]) if isinstance(n, ast.FunctionDef) and n.name == "structure_tagged_union"]
    if len(hooks) != 4:
        raise T1Unrecognised(file, ctu[0].lineno, f"expected 4 structure_tagged_union variants, found {len(hooks)}")
    tagged_ok, total_edits = True, 0
    for h in hooks:
        first = h.args.args[0].arg
        if first != "val":
            raise T1Unrecognised(file, h.lineno, "first parameter of structure_tagged_union is not `val`")
        n_edits, guarded = _edits_only_after_copy(h, "val", file)
        total_edits += n_edits
        tagged_ok = tagged_ok and guarded
    # the unstructure wrapper writes the tag into the dict the member hook returned (fresh), never into its argument
    un = [n for n in ast.walk(ctu[0]) if isinstance(n, ast.FunctionDef) and n.name == "unstructure_tagged_union"]
    if len(un) != 1:
        raise T1Unrecognised(file, ctu[0].lineno, "unstructure_tagged_union not found")
    n_un, _ = _edits_only_after_copy(un[0], un[0].args.args[0].arg, file)
    tagged_un_ok = n_un == 0
    # gen/typeddicts.py: the generated hooks edit `res`, which starts as a copy of the argument
    file2 = "src/cattrs/gen/typeddicts.py"
    mod2 = ast.parse((repo / file2).read_text())

    def fn(name):
        f = ([n for n in mod2.body if isinstance(n, ast.FunctionDef) and n.name == "_" + name]
             or [n for n in mod2.body if isinstance(n, ast.FunctionDef) and n.name == name])
        if len(f) != 1:
            raise T1Unrecognised(file2, 0, f"{name} not found")
        return f[0]

    def copies(fnode, argname):
        strs = _strings_of(fnode)
        has_copy = any(re.search(r"\bres = %s\.copy\(\)" % argname, x) for x in strs)
        edits_arg = any(re.search(r"(\bdel %s\[|\b%s\[[^\]]*\]\s*=[^=]|\b%s\.(pop|update|clear|setdefault|popitem)\()" % (argname, argname, argname), x) for x in strs)
        starts_from_arg = any(re.search(r"\bres = %s\s*$" % argname, x) for x in strs)
        if not has_copy and not starts_from_arg:
            raise T1Unrecognised(file2, fnode.lineno, f"cannot find how `res` is initialised from `{argname}`")
        return has_copy and not edits_arg and not starts_from_arg
    return {"tagged_structure_copies_before_edit": tagged_ok, "tagged_structure_edit_sites": total_edits, "tagged_unstructure_leaves_argument": tagged_un_ok,
            "td_structure_copies": copies(fn("make_dict_structure_fn"), "o"), "td_unstructure_copies": copies(fn("make_dict_unstructure_fn"), "instance")}


def emit_alias(a) -> str:
    return ("(* GENERATED by harness/t1_translate.py from src/cattrs/strategies/_unions.py and src/cattrs/gen/typeddicts.py -- do not edit *)\n"
            f"Definition src_tagged_copy_first : bool := {_coq_bool(a['tagged_structure_copies_before_edit'])}.\n"
            f"Definition src_tagged_un_leaves_arg : bool := {_coq_bool(a['tagged_unstructure_leaves_argument'])}.\n"
            f"Definition src_td_struct_copy_first : bool := {_coq_bool(a['td_structure_copies'])}.\n"
            f"Definition src_td_unstruct_copy_first : bool := {_coq_bool(a['td_unstructure_copies'])}.\n")


# ------------------------------------------------------- strategies/_subclasses.py (union-strategy variant)

def translate_subclasses(repo: Path):
    file = "src/cattrs/strategies/_subclasses.py"
    mod = ast.parse((repo / file).read_text())
    fns = {n.name: n for n in mod.body if isinstance(n, ast.FunctionDef)}
    hs = fns.get("_has_subclasses")
    if hs is None:
        raise T1Unrecognised(file, 0, "_has_subclasses not found")
    body = [_src(x) for x in _strip_doc(hs.body)]
    norm = lambda t: _src(ast.parse(t).body[0])
    if body == [norm("return any(c is not cl and issubclass(c, cl) for c in given_subclasses)")]:
        transitive = True
    elif body == [norm("actual = set(cl.__subclasses__())"), norm("given = set(given_subclasses)"), norm("return bool(actual & given)")]:
        transitive = False
    else:
        raise T1Unrecognised(file, hs.lineno, f"_has_subclasses body {body}")
    us = fns.get("_include_subclasses_with_union_strategy")
    if us is None:
        raise T1Unrecognised(file, 0, "_include_subclasses_with_union_strategy not found")
    src = _src(us)
    for needle in ("parent_classes = [cl for cl in union_classes if _has_subclasses(cl, union_classes)]", "if not parent_classes:\n        return"):
        if norm_ws(needle) not in norm_ws(src):
            raise T1Unrecognised(file, us.lineno, f"missing `{needle}`")
    loops = [n for n in ast.walk(us) if isinstance(n, ast.For) and any(isinstance(x, ast.Assign) and _src(x.targets[0]) == "subclasses" for x in n.body)]
    if len(loops) != 1:
        raise T1Unrecognised(file, us.lineno, "expected one second-pass loop assigning `subclasses`")
    it = _src(loops[0].iter)
    if it == norm("sorted(union_classes, key=lambda c: len(c.__mro__))").strip():
        anc_first = True
    elif it == "union_classes":
        anc_first = False
    else:
        raise T1Unrecognised(file, loops[0].lineno, f"second pass iterates over `{it}`")
    b = [_src(x) for x in loops[0].body]
    if not any(x == norm("subclasses = tuple([c for c in union_classes if issubclass(c, cl)])") for x in b):
        raise T1Unrecognised(file, loops[0].lineno, "second pass: the per-class union is not [c for c in union_classes if issubclass(c, cl)]")
    if not any(x.startswith("if len(subclasses) > 1:") for x in b):
        raise T1Unrecognised(file, loops[0].lineno, "second pass: condition `len(subclasses) > 1`")
    return {"transitive": transitive, "anc_first": anc_first}


def norm_ws(t):
    return re.sub(r"\s+", " ", t)


def emit_subclasses(u) -> str:
    return ("(* GENERATED by harness/t1_translate.py from src/cattrs/strategies/_subclasses.py -- do not edit *)\n"
            f"Definition src_sub_transitive : bool := {_coq_bool(u['transitive'])}.\n"
            f"Definition src_sub_anc_first : bool := {_coq_bool(u['anc_first'])}.\n")


def main():
    repo, outdir = Path(sys.argv[1]), Path(sys.argv[2])
    outdir.mkdir(parents=True, exist_ok=True)
    summary = {"ok": True, "errors": [], "sections": {}}

    def write(name, text):
        p = outdir / name
        if not p.exists() or p.read_text() != text:
            p.write_text(text)

    dcfg = None
    try:
        dcfg = translate_dispatch(repo)
        write("DispatchSrc.v", emit_dispatch(dcfg))
        summary["dispatch"] = dcfg
        summary["sections"]["dispatch"] = True
    except T1Unrecognised as e:
        summary["ok"] = False
        summary["errors"].append(str(e))
        summary["sections"]["dispatch"] = False
    try:
        if dcfg is None:
            raise T1Unrecognised("src/cattrs/dispatch.py", 0, "converters.py tables need the dispatch configuration")
        cv = translate_converters(repo)
        write("ConvSrc.v", emit_converters(cv, dcfg))
        summary["converters"] = cv
        summary["sections"]["converters"] = True
    except T1Unrecognised as e:
        summary["ok"] = False
        summary["errors"].append(str(e))
        summary["sections"]["converters"] = False
    try:
        g = translate_gen(repo)
        g["td"] = translate_td(repo)
        write("GenSrc.v", emit_gen(g))
        summary["gen"] = g
        summary["sections"]["gen"] = True
    except T1Unrecognised as e:
        summary["ok"] = False
        summary["errors"].append(str(e))
        summary["sections"]["gen"] = False
    try:
        u = translate_unions(repo)
        write("UnionsSrc.v", emit_unions(u))
        summary["unions"] = u
        summary["sections"]["unions"] = True
    except T1Unrecognised as e:
        summary["ok"] = False
        summary["errors"].append(str(e))
        summary["sections"]["unions"] = False
    try:
        th = translate_threads(repo)
        write("ThreadSrc.v", emit_threads(th))
        summary["threads"] = th
        summary["sections"]["threads"] = True
    except T1Unrecognised as e:
        summary["ok"] = False
        summary["errors"].append(str(e))
        summary["sections"]["threads"] = False
    try:
        dis = translate_disambig(repo)
        write("DisSrc.v", emit_disambig(dis))
        summary["disambig"] = dis
        summary["sections"]["disambig"] = True
    except T1Unrecognised as e:
        summary["ok"] = False
        summary["errors"].append(str(e))
        summary["sections"]["disambig"] = False
    try:
        if not summary["sections"].get("converters"):
            raise T1Unrecognised("src/cattrs/converters.py", 0, "hook tables need the converters section")
        write("HooksSrc.v", emit_hooks(summary["converters"]))
        summary["sections"]["hooks"] = True
    except T1Unrecognised as e:
        summary["ok"] = False
        summary["errors"].append(str(e))
        summary["sections"]["hooks"] = False
    try:
        al = translate_alias(repo)
        write("AliasSrc.v", emit_alias(al))
        summary["alias"] = al
        summary["sections"]["alias"] = True
    except T1Unrecognised as e:
        summary["ok"] = False
        summary["errors"].append(str(e))
        summary["sections"]["alias"] = False
    try:
        sb = translate_subclasses(repo)
        write("SubSrc.v", emit_subclasses(sb))
        summary["subclasses"] = sb
        summary["sections"]["subclasses"] = True
    except T1Unrecognised as e:
        summary["ok"] = False
        summary["errors"].append(str(e))
        summary["sections"]["subclasses"] = False
    try:
        lb = translate_latebinding(repo)
        write("LateSrc.v", emit_latebinding(lb))
        summary["latebinding"] = lb
        summary["sections"]["latebinding"] = True
    except T1Unrecognised as e:
        summary["ok"] = False
        summary["errors"].append(str(e))
        summary["sections"]["latebinding"] = False
    try:
        us = translate_unionstruct(repo)
        write("UStructSrc.v", emit_unionstruct(us))
        summary["unionstruct"] = us
        summary["sections"]["unionstruct"] = True
    except T1Unrecognised as e:
        summary["ok"] = False
        summary["errors"].append(str(e))
        summary["sections"]["unionstruct"] = False
    print(json.dumps(summary))
    return 0 if summary["ok"] else 3


if __name__ == "__main__":
    sys.exit(main())
