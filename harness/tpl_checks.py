"""Drivers for the TPL lane: C04 (detailed vs fast), C09 (customised hooks), C10 (forbid_extra_keys),
class-level part of C06 (generated vs interpretive)."""
from __future__ import annotations

import copy
import itertools
import random
import re

from cattrs import BaseConverter, Converter
from cattrs.gen import make_dict_structure_fn, make_dict_unstructure_fn

import lane_tpl as T
from common import Verdict, parse_coq_value, run_cases_file


class Scenario:
    """One class + generator options + overrides, with the real hooks of every mode."""

    def __init__(self, rng, idx, intern, *, forbid=None, allow_unsafe=False, allow_init_false=True, kinds=("attrs", "attrs", "dataclass"),
                 with_overrides=True):
        self.intern = intern
        self.spec = T.gen_class_spec(rng, idx, allow_init_false=allow_init_false, kinds=kinds)
        self.cl = T.build_class(self.spec, intern)
        self.kw_seen = T.seen_kw_only(self.cl)
        self.forbid = (rng.random() < 0.4) if forbid is None else forbid
        self.use_alias = rng.random() < 0.4
        # attributes with init=False only matter when the hook handles them: correlate the option with their presence
        self.incl = rng.random() < (0.65 if any(not f.init for f in self.spec.fields) else 0.2)
        self.oid = rng.random() < 0.3
        self.ovs = T.gen_overrides(rng, self.spec, allow_unsafe=allow_unsafe) if with_overrides and rng.random() < 0.6 else {}
        self.hooks = {}
        self.gen_error = {}

    def typed_ids(self):
        return [self.intern(f.name) for f in self.spec.fields if f.typed]

    def coq_fields(self):
        return T.c_list(T.c_field(f, self.intern, self.kw_seen) for f in self.spec.fields)

    def coq_opts(self, forbid=None):
        return T.c_topts(self.spec.cid, self.forbid if forbid is None else forbid, self.use_alias, self.incl, self.oid)

    def struct_hook(self, mode, forbid=None):
        forbid = self.forbid if forbid is None else forbid
        key = (mode, forbid)
        if key in self.hooks or key in self.gen_error:
            return self.hooks.get(key)
        try:
            if mode in ("MDetailed", "MFast"):
                conv = Converter(detailed_validation=(mode == "MDetailed"))
                T.register_handlers(conv, self.spec, self.intern)
                fn = make_dict_structure_fn(self.cl, conv, _cattrs_forbid_extra_keys=forbid, _cattrs_use_alias=self.use_alias,
                                            _cattrs_include_init_false=self.incl, _cattrs_detailed_validation=(mode == "MDetailed"),
                                            **T.real_overrides(self.ovs))
                self.hooks[key] = lambda o, fn=fn: fn(o, self.cl)
            else:
                conv = BaseConverter()
                T.register_handlers(conv, self.spec, self.intern)
                m = conv.structure_attrs_fromdict if mode == "MInterpDict" else conv.structure_attrs_fromtuple
                self.hooks[key] = lambda o, m=m: m(o, self.cl)
        except Exception as e:
            self.gen_error[key] = T.outcome_of_exception(e, self.intern)
        return self.hooks.get(key)

    def run_struct(self, mode, payload, forbid=None):
        forbid = self.forbid if forbid is None else forbid
        h = self.struct_hook(mode, forbid)
        if h is None:
            return self.gen_error[(mode, forbid)]
        try:
            inst = h(payload)
        except Exception as e:
            return T.outcome_of_exception(e, self.intern)
        return ("ok", T.read_instance(inst, self.spec, self.intern))

    def coq_payload(self, payload):
        if type(payload) is dict:
            return T.c_payload(("dict", [(self.intern(k), v) for k, v in payload.items()]))
        keys = sorted({T.key_of(f, self.ovs, self.use_alias) for f in self.spec.fields} | {f.name for f in self.spec.fields})
        return T.c_payload(T.probe_obj(payload, keys, self.intern))

    def coq_struct_case(self, mode, payload, outcome, forbid=None):
        # interpretive hooks know neither overrides nor generator options
        ovs = self.ovs if mode in ("MDetailed", "MFast") else {}
        return "TStruct %s %s %s %s %s %s %s" % (mode, self.coq_opts(forbid), T.coq_ovs(ovs, self.intern),
                                                  T.c_list(T.cN(i) for i in self.typed_ids()), self.coq_fields(),
                                                  self.coq_payload(payload), T.c_outcome(outcome))

    def describe(self):
        fs = ", ".join(f"{f.name}(alias={f.alias}, default={f.default}{'(factory)' if f.factory else ''}, init={f.init}, kw_only={f.kw_only}"
                       f"{', converter' if f.conv else ''}{', untyped' if not f.typed else ''})" for f in self.spec.fields)
        return (f"{self.spec.kind} class K{self.spec.cid}[{fs}] forbid={self.forbid} use_alias={self.use_alias} "
                f"include_init_false={self.incl} omit_if_default={self.oid} overrides={self.ovs}")


def model_flags(t1_summary):
    g = (t1_summary or {}).get("gen", {})
    return bool(g.get("detailed_rechecks_errors", False)), bool(g.get("fast_kw_last", False)), bool(g.get("tuple_by_kw", False))


def unsafe_ids(intern):
    return T.c_list(T.cN(intern(k)) for k in T.UNSAFE_KEYS)


def run_tpl_model(v: Verdict, name, cases_text, flags, label, intern=None):
    """cases_text: list of Coq tcase terms.  Returns indices of disagreeing cases (None if coqc failed)."""
    bad = []
    shard = 400
    for k in range(0, len(cases_text), shard):
        chunk = cases_text[k:k + shard]
        src = ("From V.Model Require Import Base Templates TdTemplates TplLane.\n"
               "Definition the_cases : list tcase := [\n" + ";\n".join(chunk) + "\n].\n"
               f"Eval vm_compute in (bad_tcases {unsafe_ids(intern)} {T.c_bool(flags[0])} {T.c_bool(flags[1])} {T.c_bool(flags[2])} 0 the_cases).\n")
        rc, out = run_cases_file(f"{name}_{k}", src)
        vals = parse_coq_value(out)
        if rc != 0 or not vals:
            v.obligation(f"correspondence:{label}:coqc", False, out[-800:])
            return None
        if vals[-1] != "[]":
            bad += [k + int(x) for x in re.findall(r"\d+", vals[-1])]
    return bad


def model_outcome(case_text, flags, intern):
    src = ("From V.Model Require Import Base Templates TdTemplates TplLane.\n"
           f"Eval vm_compute in (tcase_model {unsafe_ids(intern)} {T.c_bool(flags[0])} {T.c_bool(flags[1])} {T.c_bool(flags[2])} ({case_text})).\n")
    rc, out = run_cases_file("tpl_one", src)
    vals = parse_coq_value(out)
    return vals[-1] if vals else out[-300:]


def f1_shape(sc: Scenario):
    """A required kw_only init attribute precedes a required positional init attribute (as the generator sees them)."""
    seen_kw = False
    for f in sc.spec.fields:
        if not T.is_included(f, sc.ovs, sc.incl) or not f.init or f.default is not None:
            continue
        if sc.kw_seen[f.name]:
            seen_kw = True
        elif seen_kw:
            return True
    return False


def f17_shape(sc: Scenario):
    return any(f.kw_only and not sc.kw_seen[f.name] and f.init for f in sc.spec.fields)


def unsafe_key(sc: Scenario):
    return any(o.get("rename") in T.UNSAFE_KEYS for o in sc.ovs.values())


def check_c04(v: Verdict, t1_summary, n_scen, n_payloads):
    rng = random.Random(v.seed * 7919 + 4)
    intern = T.Interner()
    flags = model_flags(t1_summary)
    cases, meta = [], []
    hist = {"scenarios": 0, "payloads": 0, "dict": 0, "junk": 0, "both_accept": 0, "both_reject": 0, "gen_fail_both": 0,
            "attrs": 0, "dataclass": 0, "with_init_false": 0, "with_kw_only": 0, "with_overrides": 0, "forbid": 0}
    for si in range(n_scen):
        sc = Scenario(rng, si, intern, allow_unsafe=True)
        hist["scenarios"] += 1
        hist[sc.spec.kind] += 1
        hist["with_init_false"] += any(not f.init for f in sc.spec.fields)
        hist["with_kw_only"] += any(f.kw_only for f in sc.spec.fields)
        hist["with_overrides"] += bool(sc.ovs)
        hist["forbid"] += sc.forbid
        for pi in range(n_payloads):
            p = T.gen_payload(rng, sc.spec, sc.ovs, sc.use_alias, sc.incl)
            hist["payloads"] += 1
            hist["dict" if type(p) is dict else "junk"] += 1
            rd = sc.run_struct("MDetailed", p)
            rf = sc.run_struct("MFast", p)
            cases.append(sc.coq_struct_case("MDetailed", p, rd))
            meta.append((sc, "MDetailed", p, rd))
            cases.append(sc.coq_struct_case("MFast", p, rf))
            meta.append((sc, "MFast", p, rf))
            v.count(sc.describe() + repr(p), len(sc.spec.fields) >= 2)
            # --- oracle: same acceptance, equal results, generation succeeds in one mode iff in the other
            agree = (rd[0] == "ok") == (rf[0] == "ok") and (rd[0] != "ok" or sorted(rd[1]) == sorted(rf[1]))
            gen_agree = (("MDetailed", sc.forbid) in sc.gen_error) == (("MFast", sc.forbid) in sc.gen_error)
            if agree and gen_agree:
                if rd[0] == "ok":
                    hist["both_accept"] += 1
                elif ("MDetailed", sc.forbid) in sc.gen_error:
                    hist["gen_fail_both"] += 1
                else:
                    hist["both_reject"] += 1
                continue
            rp = {"lane": "TPL/C04", "class": sc.describe(), "payload": repr(p), "detailed": rd, "fast": rf,
                  "python_repro": "make_dict_structure_fn(cl, Converter(), _cattrs_detailed_validation=True/False, ...)(payload, cl)"}
            if rf == ("syntax",) and rd[0] != "syntax" and f1_shape(sc) and not unsafe_key(sc):
                v.finding("F1", "fast mode: required kw_only attribute before a required positional one -> SyntaxError at hook creation", rp)
            elif rd[0] == "ok" and rf[0] != "ok" and sc.incl and any(not f.init for f in sc.spec.fields):
                v.finding("F2", "detailed mode drops the error of an init=False attribute (include_init_false)", rp)
            elif rd[0] == "ok" and rf[0] != "ok" and f17_shape(sc):
                v.finding("F17", "fast mode passes a kw_only dataclass field positionally", rp)
            else:
                v.violation("detailed_validation changes acceptance or result", rp)
        if si < 3:
            v.samples.append({"class": sc.describe(), "payload": repr(p), "detailed": rd, "fast": rf})
    hist["_intern"] = intern
    td_lane(v, t1_summary, "C04", max(10, n_scen // 2), 4, cases, meta, hist)
    del hist["_intern"]
    bad = run_tpl_model(v, f"c04_{v.seed}", cases, flags, "TPL/C04", intern)
    report_bad(v, bad, cases, meta, flags, "TPL/C04 (templates: model outcome = implementation outcome, detailed and fast)", intern)
    key_modes_pairwise(v, "C04", hist)
    v.coverage["input_distribution"] = hist


def report_bad(v, bad, cases, meta, flags, label, intern):
    if bad is None:
        return
    detail = ""
    if bad:
        sc, mode, p, r = meta[bad[0]]
        detail = (f"{len(bad)} of {len(cases)} cases disagree; first: {mode} on {sc.describe()} payload={p!r} implementation={r} "
                  f"model={model_outcome(cases[bad[0]], flags, intern)}")
    v.obligation(f"correspondence:{label}", not bad, detail)


# ------------------------------------------------------------------------ C10

def _forbidden_in(exc):
    """All ForbiddenExtraKeysError leaves of an exception (group), with the class they name."""
    from cattrs.errors import ForbiddenExtraKeysError
    out = []
    if isinstance(exc, ForbiddenExtraKeysError):
        out.append(exc)
    for sub in getattr(exc, "exceptions", ()):
        out += _forbidden_in(sub)
    return out


def check_c10(v: Verdict, t1_summary, n_scen, n_payloads):
    import attrs
    from typing import TypedDict, NamedTuple, Union
    from cattrs.cols import namedtuple_dict_structure_factory
    from cattrs.strategies import configure_tagged_union
    from nested_types import Inner, Mid, Outer, TD, NT, TA, TB
    rng = random.Random(v.seed * 7919 + 10)
    intern = T.Interner()
    flags = model_flags(t1_summary)
    cases, meta = [], []
    hist = {"scenarios": 0, "payloads": 0, "with_extras": 0, "extra_is_original_name_of_renamed": 0, "forbid_rejections": 0,
            "inert_checks": 0, "nested_checks": 0, "typeddict_checks": 0, "namedtuple_checks": 0, "tagged_union_checks": 0, "f4_hits": 0}
    for si in range(n_scen):
        sc = Scenario(rng, si, intern, forbid=True)
        hist["scenarios"] += 1
        allowed = {T.key_of(f, sc.ovs, sc.use_alias) for f in sc.spec.fields if T.is_included(f, sc.ovs, sc.incl)}
        for pi in range(n_payloads):
            base = T.gen_payload(rng, sc.spec, sc.ovs, sc.use_alias, sc.incl, junk_rate=0.0, extras_rate=0.0, bad_rate=0.05, missing_rate=0.05)
            extras = {}
            if rng.random() < 0.7:
                pool = [f"extra{j}" for j in range(3)] + [f.name for f in sc.spec.fields] + [f.alias for f in sc.spec.fields]
                for k in rng.sample(pool, rng.randint(1, min(3, len(pool)))):
                    if k not in allowed and k not in base:
                        extras[k] = rng.randrange(0, 45)
                        hist["extra_is_original_name_of_renamed"] += k in [f.name for f in sc.spec.fields]
            p = dict(base)
            p.update(extras)
            items = list(p.items())
            rng.shuffle(items)
            p = dict(items)
            hist["payloads"] += 1
            hist["with_extras"] += bool(extras)
            unknown = sorted(k for k in p if k not in allowed)
            for mode in ("MDetailed", "MFast"):
                r_forbid = sc.run_struct(mode, p, forbid=True)
                r_free = sc.run_struct(mode, p, forbid=False)
                r_base = sc.run_struct(mode, base, forbid=False)
                cases.append(sc.coq_struct_case(mode, p, r_forbid, forbid=True))
                meta.append((sc, mode, p, r_forbid))
                cases.append(sc.coq_struct_case(mode, p, r_free, forbid=False))
                meta.append((sc, mode, p, r_free))
                rp = {"lane": "TPL/C10", "class": sc.describe(), "mode": mode, "payload": repr(p), "allowed": sorted(allowed),
                      "forbid": r_forbid, "no_forbid": r_free, "without_extras": r_base}
                if (mode, True) in sc.gen_error or (mode, False) in sc.gen_error:
                    continue
                # inert without the flag
                hist["inert_checks"] += 1
                if r_free != r_base and not (r_free[0] == "ok" and r_base[0] == "ok" and sorted(r_free[1]) == sorted(r_base[1])):
                    if not (r_free[0] != "ok" and r_base[0] != "ok"):
                        v.violation("unknown keys changed the outcome although forbid_extra_keys is off", rp)
                # exact rejection with the flag
                if unknown:
                    hist["forbid_rejections"] += 1
                    if r_forbid[0] == "ok":
                        v.violation("forbid_extra_keys accepted a payload with unknown keys", rp)
                    elif r_base[0] == "ok":
                        # the only thing wrong with the payload are the extras: the error must name exactly them
                        h = sc.struct_hook(mode, True)
                        try:
                            h(p)
                            leaves = []
                        except Exception as e:
                            leaves = _forbidden_in(e)
                        names = [sorted(x.extra_fields) for x in leaves]
                        if names != [unknown] or leaves[0].cl is not sc.cl:
                            rp["forbidden_errors"] = names
                            v.violation("ForbiddenExtraKeysError does not name exactly the unknown keys", rp)
                else:
                    same = (r_forbid == r_free) or (r_forbid[0] == "ok" and r_free[0] == "ok" and sorted(r_forbid[1]) == sorted(r_free[1])) \
                        or (r_forbid[0] != "ok" and r_free[0] != "ok")
                    if not same:
                        v.violation("forbid_extra_keys changed the outcome of a payload without unknown keys", rp)
            v.count(sc.describe() + repr(p), len(sc.spec.fields) >= 2)
        if si < 3:
            v.samples.append({"class": sc.describe(), "payload": repr(p), "unknown": unknown})

    # ---- direct oracles for the parts of the statement the template model does not cover yet:
    #      nesting depth, TypedDict, NamedTuple-from-dict, the tag key of a tagged union
    for dv in (True, False):
        c = Converter(forbid_extra_keys=True, detailed_validation=dv)
        free = Converter(forbid_extra_keys=False, detailed_validation=dv)
        good = {"mid": {"inner": {"a": 1}, "items": [{"a": 2}, {"a": 3}]}, "m": {"k": {"a": 4}}}
        assert c.structure(good, Outer) == free.structure(good, Outer)
        spots = [("mid.inner", lambda p: p["mid"]["inner"], Inner), ("mid.items[1]", lambda p: p["mid"]["items"][1], Inner),
                 ("m['k']", lambda p: p["m"]["k"], Inner), ("mid", lambda p: p["mid"], Mid), ("$", lambda p: p, Outer)]
        import copy as _copy
        for name, get, cl in spots:
            for extra in (["zz"], ["zz", "yy"]):
                hist["nested_checks"] += 1
                p = _copy.deepcopy(good)
                for k in extra:
                    get(p)[k] = 0
                rp = {"lane": "C10/nested", "detailed_validation": dv, "position": name, "extras": extra}
                if free.structure(p, Outer) != free.structure(good, Outer):
                    v.violation("nested unknown keys changed the outcome although forbid_extra_keys is off", rp)
                try:
                    c.structure(p, Outer)
                    v.violation("forbid_extra_keys accepted nested unknown keys", rp)
                except Exception as e:
                    leaves = _forbidden_in(e)
                    if [sorted(x.extra_fields) for x in leaves] != [sorted(extra)] or leaves[0].cl is not cl:
                        rp["got"] = [(sorted(x.extra_fields), getattr(x.cl, "__name__", x.cl)) for x in leaves]
                        v.violation("nested ForbiddenExtraKeysError does not name exactly the unknown keys / the class", rp)
        # NamedTuple from dict
        hist["namedtuple_checks"] += 1
        hook = namedtuple_dict_structure_factory(NT, c, "from_converter", True)
        try:
            hook({"a": 1, "q": 2}, NT)
            v.violation("namedtuple dict hook with forbid_extra_keys accepted an unknown key", {"lane": "C10/namedtuple", "dv": dv})
        except Exception as e:
            if [sorted(x.extra_fields) for x in _forbidden_in(e)] != [["q"]]:
                v.violation("namedtuple dict hook: wrong ForbiddenExtraKeysError", {"lane": "C10/namedtuple", "dv": dv, "error": repr(e)})
        hook2 = namedtuple_dict_structure_factory(NT, free, "from_converter", False)
        if hook2({"a": 1, "q": 2}, NT) != hook2({"a": 1}, NT):
            v.violation("namedtuple dict hook: unknown key changed the outcome", {"lane": "C10/namedtuple", "dv": dv})
        # TypedDict
        hist["typeddict_checks"] += 1
        try:
            c.structure({"a": 1, "q": 2}, TD)
            v.violation("TypedDict with forbid_extra_keys accepted an unknown key", {"lane": "C10/typeddict", "dv": dv})
        except Exception as e:
            if [sorted(x.extra_fields) for x in _forbidden_in(e)] != [["q"]]:
                v.violation("TypedDict: wrong ForbiddenExtraKeysError", {"lane": "C10/typeddict", "dv": dv, "error": repr(e)})
        if free.structure({"a": 1, "q": 2}, TD) != free.structure({"a": 1}, TD):
            hist["f4_hits"] += 1
            v.finding("F4", "TypedDict structure keeps unknown keys in its result",
                      {"lane": "C10/typeddict", "dv": dv, "python_repro": "Converter().structure({'a': 1, 'q': 2}, TD) == {'a': 1, 'q': 2}"})
        # the tag key of a tagged union is not an extra
        hist["tagged_union_checks"] += 1

        ct = Converter(forbid_extra_keys=True, detailed_validation=dv)
        configure_tagged_union(Union[TA, TB], ct)
        try:
            if ct.structure({"_type": "TA", "x": 1}, Union[TA, TB]) != TA(1):
                raise AssertionError("wrong value")
        except Exception as e:
            v.violation("the tag key of a tagged union was treated as an extra key", {"lane": "C10/tagged", "dv": dv, "error": repr(e)})
        try:
            ct.structure({"_type": "TA", "x": 1, "q": 1}, Union[TA, TB])
            v.violation("tagged union member accepted an unknown key under forbid_extra_keys", {"lane": "C10/tagged", "dv": dv})
        except Exception as e:
            if [sorted(x.extra_fields) for x in _forbidden_in(e)] != [["q"]]:
                v.violation("tagged union: wrong ForbiddenExtraKeysError", {"lane": "C10/tagged", "dv": dv, "error": repr(e)})

    hist["_intern"] = intern
    td_lane(v, t1_summary, "C10", max(10, n_scen // 2), 4, cases, meta, hist)
    del hist["_intern"]
    bad = run_tpl_model(v, f"c10_{v.seed}", cases, flags, "TPL/C10", intern)
    report_bad(v, bad, cases, meta, flags, "TPL/C10 (templates with and without forbid: model outcome = implementation outcome)", intern)
    key_modes_pairwise(v, "C10", hist)
    v.coverage["input_distribution"] = hist


# ------------------------------------------------------------------------ C09

def make_instance(rng, sc: Scenario):
    """A real instance of the scenario's class; attribute values are sometimes the defaults (omit_if_default)."""
    kw = {}
    for f in sc.spec.fields:
        if not f.init:
            continue
        if f.default is not None and rng.random() < 0.45:
            if rng.random() < 0.5:
                continue                      # leave the default
            kw[f.alias] = f.default           # pass the default explicitly
        else:
            kw[f.alias] = rng.randrange(0, 40)
    inst = sc.cl(**kw)
    # attributes that are not __init__ arguments are assigned afterwards, as user code does: a value of their own more often than not
    for f in sc.spec.fields:
        if not f.init and rng.random() < 0.6:
            val = rng.randrange(0, 40)
            if f.conv:
                val = T.K(val)
            object.__setattr__(inst, f.name, val)
    return inst


def consistent_overrides(sc: Scenario):
    """distinct final keys; omitted attributes have defaults (or are not __init__ arguments)"""
    keys = [T.key_of(f, sc.ovs, sc.use_alias) for f in sc.spec.fields if T.is_included(f, sc.ovs, sc.incl)]
    if len(set(keys)) != len(keys):
        return False
    for f in sc.spec.fields:
        if not T.is_included(f, sc.ovs, sc.incl) and f.init and f.default is None:
            return False
    return True


def check_c09(v: Verdict, t1_summary, n_scen, n_inst):
    from typing import NamedTuple, TypedDict
    from cattrs.cols import namedtuple_dict_structure_factory, namedtuple_dict_unstructure_factory
    from cattrs.gen import override
    from cattrs.gen.typeddicts import make_dict_structure_fn as td_struct, make_dict_unstructure_fn as td_unstruct
    from nested_types import NT, TD
    rng = random.Random(v.seed * 7919 + 9)
    intern = T.Interner()
    flags = model_flags(t1_summary)
    cases, meta = [], []
    hist = {"scenarios": 0, "instances": 0, "with_overrides": 0, "omit_if_default_global": 0, "renames": 0, "omits": 0, "per_field_oid": 0,
            "use_alias": 0, "include_init_false": 0, "roundtrips_checked": 0, "keysets_checked": 0, "unsafe_key_scenarios": 0,
            "generation_failures": 0, "typeddict_checks": 0, "namedtuple_checks": 0, "f3_hits": 0, "f12_hits": 0}
    for si in range(n_scen):
        sc = Scenario(rng, si, intern, forbid=False, allow_unsafe=True)
        sc.ovs = T.gen_overrides(rng, sc.spec, for_unstructure=True, allow_unsafe=(si % 10 == 0)) if rng.random() < 0.75 or si % 10 == 0 else {}
        # init=False attributes without a default are unset on a fresh instance: only sensible when they are not handled
        hist["scenarios"] += 1
        hist["with_overrides"] += bool(sc.ovs)
        hist["omit_if_default_global"] += sc.oid
        hist["renames"] += sum(1 for o in sc.ovs.values() if "rename" in o)
        hist["omits"] += sum(1 for o in sc.ovs.values() if o.get("omit"))
        hist["per_field_oid"] += sum(1 for o in sc.ovs.values() if "oid" in o)
        hist["use_alias"] += sc.use_alias
        hist["include_init_false"] += sc.incl
        unsafe = unsafe_key(sc)
        hist["unsafe_key_scenarios"] += unsafe
        consistent = consistent_overrides(sc)
        conv = Converter(detailed_validation=rng.random() < 0.5)
        T.register_handlers(conv, sc.spec, intern)
        un = st = None
        gen_err = None
        try:
            un = make_dict_unstructure_fn(sc.cl, conv, _cattrs_omit_if_default=sc.oid, _cattrs_use_alias=sc.use_alias,
                                          _cattrs_include_init_false=sc.incl, **T.real_overrides(sc.ovs))
            st = [make_dict_structure_fn(sc.cl, conv, _cattrs_use_alias=sc.use_alias, _cattrs_include_init_false=sc.incl,
                                         _cattrs_forbid_extra_keys=False, _cattrs_detailed_validation=dvx, **T.real_overrides(sc.ovs))
                  for dvx in (True, False)]        # the structure hook with the same customisation, in both validation modes
        except Exception as e:
            gen_err = e
            hist["generation_failures"] += 1
            rp = {"lane": "TPL/C09", "class": sc.describe(), "error": repr(e)}
            if unsafe and isinstance(e, SyntaxError):
                hist["f3_hits"] += 1
                v.finding("F3", "a key containing a quote or a trailing backslash is spliced into the generated source", rp)
            else:
                v.violation("hook generation failed for a consistent customisation", rp)
        for ii in range(n_inst):
            try:
                inst = make_instance(rng, sc)
            except Exception:
                continue
            hist["instances"] += 1
            iv = T.read_instance(inst, sc.spec, intern)
            if gen_err is not None:
                out = T.outcome_of_exception(gen_err, intern)
            else:
                try:
                    d = un(inst)
                    out = ("ok", [(intern(k), val) for k, val in d.items()])
                except Exception as e:
                    out = T.outcome_of_exception(e, intern)
            cases.append("TUnstruct UGen %s %s %s %s %s %s" % (sc.coq_opts(False), T.coq_ovs(sc.ovs, intern),
                                                                T.c_list(T.cN(i) for i in sc.typed_ids()), sc.coq_fields(),
                                                                T.c_pairs(iv), T.c_outcome(out)))
            meta.append((sc, "UGen", iv, out))
            v.count(sc.describe() + repr(iv), len(sc.spec.fields) >= 2)
            if gen_err is not None or out[0] != "ok" or not consistent:
                continue
            # --- oracle 1: exactly the configured key set
            exp_keys = set()
            for f in sc.spec.fields:
                if not T.is_included(f, sc.ovs, sc.incl) or not hasattr(inst, f.name):
                    continue
                o = sc.ovs.get(f.name, {})
                oid = o["oid"] if "oid" in o else sc.oid
                if f.default is not None and oid and getattr(inst, f.name) == (K_of(f)):
                    continue
                exp_keys.add(T.key_of(f, sc.ovs, sc.use_alias))
            hist["keysets_checked"] += 1
            # what the code does for attributes with a field converter: compare with the raw default (finding F22)
            exp_raw = set()
            for f in sc.spec.fields:
                if not T.is_included(f, sc.ovs, sc.incl) or not hasattr(inst, f.name):
                    continue
                o = sc.ovs.get(f.name, {})
                oid = o["oid"] if "oid" in o else sc.oid
                if f.default is not None and oid and getattr(inst, f.name) == f.default:
                    continue
                exp_raw.add(T.key_of(f, sc.ovs, sc.use_alias))
            if set(d.keys()) != exp_keys and set(d.keys()) == exp_raw and any(f.conv and f.default is not None for f in sc.spec.fields):
                hist["f22_hits"] = hist.get("f22_hits", 0) + 1
                v.finding("F22", "omit_if_default ignores the field converter",
                          {"lane": "TPL/C09", "class": sc.describe(), "instance": repr(inst), "emitted": sorted(d.keys()), "expected": sorted(exp_keys)})
            elif set(d.keys()) != exp_keys:
                v.violation("generated unstructure hook does not emit exactly the configured key set",
                            {"lane": "TPL/C09", "class": sc.describe(), "instance": repr(inst), "emitted": sorted(d.keys()), "expected": sorted(exp_keys)})
            # --- oracle 2: the structure hook with the same customisation restores the included attributes
            if any(f.conv for f in sc.spec.fields):
                continue    # a field converter is applied again on the way in: not an identity by design
            if any(T.is_included(f, sc.ovs, sc.incl) and not hasattr(inst, f.name) for f in sc.spec.fields):
                continue
            hist["roundtrips_checked"] += 1
            for st_dv, st_fn in zip((True, False), st):
              try:
                # the tagging handlers are not inverse to each other (u: +7, s: 1000*(n+1)+v): compare through them
                back = st_fn(dict(d), sc.cl)
                for f in sc.spec.fields:
                    if not T.is_included(f, sc.ovs, sc.incl):
                        continue
                    orig = getattr(inst, f.name)
                    got = getattr(back, f.name)
                    if f.typed:
                        want = 1000 * (intern(f.name) + 1) + (orig + 7)
                    else:
                        want = orig
                    o = sc.ovs.get(f.name, {})
                    oid = o["oid"] if "oid" in o else sc.oid
                    if f.default is not None and oid and orig == f.default:
                        want = f.default      # omitted on the way out, defaulted on the way in
                    if got != want:
                        raise AssertionError(f"attribute {f.name}: {got} != {want}")
              except Exception as e:
                v.violation("structure hook with the same customisation does not restore the included attributes",
                            {"lane": "TPL/C09", "class": sc.describe(), "instance": repr(inst), "unstructured": d, "structure_detailed_validation": st_dv, "error": repr(e)})
        if si < 3:
            v.samples.append({"class": sc.describe()})

    # ---- TypedDict and NamedTuple customisation: direct oracles
    for dv in (True, False):
        conv = Converter(detailed_validation=dv)
        hist["typeddict_checks"] += 1
        for ren in ("x", "a"):
            u = td_unstruct(TD, conv, a=override(rename=ren))
            s_ = td_struct(TD, conv, _cattrs_detailed_validation=dv, a=override(rename=ren))
            out = u({"a": 5})
            try:
                back = s_(out, TD)
            except Exception as e:
                back = repr(e)
            if out != {ren: 5} or back != {"a": 5}:
                rp = {"lane": "C09/typeddict", "dv": dv, "rename": ren, "unstructured": out, "structured_back": back}
                if ren == "a":
                    hist["f12_hits"] += 1
                    v.finding("F12", "TypedDict structure hook with override(rename=<own name>) deletes the value it just structured", rp)
                else:
                    v.violation("TypedDict rename does not round-trip", rp)
        hist["namedtuple_checks"] += 1
        nu = namedtuple_dict_unstructure_factory(NT, conv, True, True, a=override(rename="aa"))
        ns = namedtuple_dict_structure_factory(NT, conv, "from_converter", False, True, a=override(rename="aa"))
        for inst in (NT(1), NT(1, 5)):
            out = nu(inst)
            exp = {"aa": 1} if inst.b == 2 else {"aa": 1, "b": 5}
            if out != exp or ns(out, NT) != inst:
                v.violation("NamedTuple dict hooks: rename / omit_if_default do not round-trip",
                            {"lane": "C09/namedtuple", "dv": dv, "instance": repr(inst), "unstructured": out})

    c09_key_modes_battery(v, hist)
    omit_default_battery(v, hist)
    c09_namedtuple_battery(v, hist, rng, max(40, n_scen))
    hist["_intern"] = intern
    td_lane(v, t1_summary, "C09", max(10, n_scen // 2), 4, cases, meta, hist)
    del hist["_intern"]
    bad = run_tpl_model(v, f"c09_{v.seed}", cases, flags, "TPL/C09", intern)
    report_bad(v, bad, cases, meta, flags, "TPL/C09 (generated unstructure template: model dict = implementation dict)", intern)
    v.coverage["input_distribution"] = hist


def c09_namedtuple_battery(v, hist, rng, n):
    """generated NamedTuples (1-4 fields; trailing defaults drawn from falsy AND truthy values: 0, None, "", False, 0.0, (), 5, "d",
    True) x customisation (converter-wide omit_if_default, per-field override(omit_if_default / rename / omit)) x both validation
    modes: the dict hooks of cattrs.cols emit exactly the configured key set and the structure hook built with the same
    customisation restores the instance on every included field"""
    import collections
    from typing import List, Optional
    from cattrs.cols import namedtuple_dict_structure_factory, namedtuple_dict_unstructure_factory
    from cattrs.gen import override
    LEAF = [(int, [0, 5, -1]), (str, ["", "d", "xy"]), (float, [0.0, 1.5]), (bool, [False, True]), (Optional[int], [None, 0, 3]),
            (List[int], [[], [1, 2]]), (tuple, [(), (1,)])]
    NO = object()
    hist["namedtuple_generated"] = 0
    hist["namedtuple_falsy_defaults"] = 0
    for i in range(n):
        k = rng.randint(1, 4)
        n_def = rng.randint(0, k)
        fields = []
        for j in range(k):
            ty, vals = rng.choice(LEAF)
            d = NO
            if j >= k - n_def:
                while ty is List[int]:              # defaults are shared objects: no mutable ones
                    ty, vals = rng.choice(LEAF)
                d = rng.choice(vals)
                hist["namedtuple_falsy_defaults"] += not d
            fields.append((f"f{j}", ty, vals, d))
        NTc = collections.namedtuple(f"GNT{i}", [f[0] for f in fields], defaults=[f[3] for f in fields if f[3] is not NO])
        NTc.__annotations__ = {f[0]: f[1] for f in fields}
        flag = rng.random() < 0.5
        ov, plan = {}, {}
        for name, ty, vals, d in fields:
            r = rng.random()
            o = {}
            if r < 0.2:
                o["rename"] = name + "_r"
            if d is not NO and rng.random() < 0.35:
                o["omit_if_default"] = rng.random() < 0.6
            if d is not NO and rng.random() < 0.12:
                o = {"omit": True}
            if o:
                ov[name] = override(**o)
            plan[name] = o
        hist["namedtuple_generated"] += 1
        for dv in (True, False):
            conv = Converter(detailed_validation=dv)
            desc = {"lane": "C09/namedtuple-generated", "dv": dv, "fields": [(f[0], str(f[1]), "no default" if f[3] is NO else repr(f[3])) for f in fields],
                    "omit_if_default": flag, "overrides": {k2: o for k2, o in plan.items() if o}}
            try:
                nu = namedtuple_dict_unstructure_factory(NTc, conv, flag, True, **ov)
                ns = namedtuple_dict_structure_factory(NTc, conv, "from_converter", False, True, **ov)
            except Exception as e:
                v.violation("NamedTuple dict hooks: generation failed for a consistent customisation", {**desc, "error": repr(e)})
                continue
            for _ in range(4):
                kw = {}
                for name, ty, vals, d in fields:
                    if d is NO or rng.random() < 0.5:
                        kw[name] = copy.deepcopy(rng.choice(vals))
                inst = NTc(**kw)
                v.count(repr((desc, repr(inst))), True)
                exp = {}
                for name, ty, vals, d in fields:
                    o = plan[name]
                    if o.get("omit"):
                        continue
                    oid = o.get("omit_if_default", flag)
                    val = getattr(inst, name)
                    if oid and d is not NO and val == d:
                        continue
                    exp[o.get("rename", name)] = list(val) if type(val) is tuple else val
                try:
                    out = nu(inst)
                except Exception as e:
                    v.violation("NamedTuple dict unstructure hook raised", {**desc, "instance": repr(inst), "error": repr(e)})
                    continue
                norm = {k2: (list(x) if type(x) is tuple else x) for k2, x in out.items()}
                if norm != exp:
                    v.violation("NamedTuple dict unstructure hook does not emit exactly the configured key set",
                                {**desc, "instance": repr(inst), "unstructured": repr(out), "expected": repr(exp)})
                    continue
                try:
                    back = ns(copy.deepcopy(out), NTc)
                except Exception as e:
                    v.violation("NamedTuple dict structure hook rejects what the unstructure hook emitted", {**desc, "instance": repr(inst), "unstructured": repr(out), "error": repr(e)})
                    continue
                want = inst._replace(**{name: d for name, ty, vals, d in fields if plan[name].get("omit")})
                if type(back) is not NTc or tuple(back) != tuple(want):
                    v.violation("NamedTuple dict hooks with the same customisation do not restore the instance",
                                {**desc, "instance": repr(inst), "unstructured": repr(out), "structured_back": repr(back)})


def c09_key_modes_battery(v, hist):
    """systematic (no randomness): one attribute x {__init__ argument with default, init=False with default, init=False without default}
    x {own name, override(rename), use_alias with a private name, use_alias with an explicit alias} x {included by
    _cattrs_include_init_false, by override(omit=False)} x both validation modes x {value = default, another value}: the structure
    hook generated with the same customisation restores the attribute from what the unstructure hook emitted, under the configured key"""
    import attrs
    from cattrs.gen import override
    n = 0
    for kind in ("init_default", "noinit_default", "noinit_nodefault"):
        for keymode in ("name", "rename", "alias_private", "alias_explicit"):
            for how in ("flag", "override"):
                for dv in (True, False):
                    for value in (5, 9):
                        fname = "_tok" if keymode == "alias_private" else "tok"
                        fkw = {"type": int}
                        if kind != "noinit_nodefault":
                            fkw["default"] = 5
                        if kind != "init_default":
                            fkw["init"] = False
                        if keymode == "alias_explicit":
                            fkw["alias"] = "token"
                        cl = attrs.make_class("KM", {"lead": attrs.field(type=int), fname: attrs.field(**fkw)})
                        opts = {"_cattrs_use_alias": keymode in ("alias_private", "alias_explicit")}
                        ov = {}
                        if keymode == "rename":
                            ov["rename"] = "renamed"
                        if kind != "init_default":
                            if how == "flag":
                                opts["_cattrs_include_init_false"] = True
                            else:
                                ov["omit"] = False
                        elif how == "override":
                            continue
                        kw = dict(opts)
                        if ov:
                            kw[fname] = override(**ov)
                        key = {"name": fname, "rename": "renamed", "alias_private": "tok", "alias_explicit": "token"}[keymode]
                        desc = {"lane": "TPL/C09 key-modes", "attribute": kind, "key_mode": keymode, "included_by": how, "detailed_validation": dv,
                                "value": value, "expected_key": key}
                        n += 1
                        try:
                            conv = Converter(detailed_validation=dv)
                            un = make_dict_unstructure_fn(cl, conv, **kw)
                            st = make_dict_structure_fn(cl, conv, _cattrs_detailed_validation=dv, **kw)
                            inst = cl(1) if kind != "init_default" else cl(1, value)
                            if kind != "init_default":
                                object.__setattr__(inst, fname, value)
                            d = un(inst)
                            back = st(dict(d), cl)
                            if d != {"lead": 1, key: value} or getattr(back, fname) != value or back.lead != 1:
                                v.violation("customised hooks: the attribute is not emitted under its configured key, or not restored from it",
                                            {**desc, "unstructured": d, "restored": repr(back)})
                        except Exception as e:
                            v.violation("customised hooks failed on a consistent customisation", {**desc, "error": repr(e)})
                        v.count(repr(desc), True)
    hist["key_mode_cases"] = n


def key_modes_pairwise(v, prop, hist):
    """systematic (no randomness), for C04 and C10: one attribute x {required, __init__ argument with default, init=False with default}
    x {own name, override(rename), use_alias with a private name, use_alias with an explicit alias} x forbid_extra_keys on/off:
    payloads = the configured key / the attribute's own name / the alias / no key at all / a bad value / an extra key.
    C04: the hook generated with detailed validation and the one without accept the same payloads with the same instance.
    C10: with forbid_extra_keys a payload is rejected exactly when it has a key other than `lead` and the configured key, and the
    error names exactly those keys; without it, adding such keys never changes the outcome."""
    import attrs
    from cattrs.errors import ForbiddenExtraKeysError
    from cattrs.gen import override
    n = 0

    def forbidden(e):
        out = []

        def walk(x):
            if isinstance(x, ForbiddenExtraKeysError):
                out.append(frozenset(x.extra_fields))
            for y in getattr(x, "exceptions", ()) or ():
                walk(y)
        walk(e)
        return out
    for kind, keymode, forbid, handler in itertools.product(("required", "init_default", "noinit_default"), ("name", "rename", "alias_private", "alias_explicit"),
                                                            (False, True), ("typed", "field_converter_preferred", "untyped")):
        if True:
            if True:
                fname = "_tok" if keymode == "alias_private" else "tok"
                # how the attribute's value is produced: the hook of its type / its attrs field converter (no structure hook is
                # involved: prefer_attrib_converters) / nothing at all (no type: the raw value)
                fkw = {"type": int} if handler != "untyped" else {}
                if handler == "field_converter_preferred":
                    fkw["converter"] = int
                if kind != "required":
                    fkw["default"] = 5
                if kind == "noinit_default":
                    fkw["init"] = False
                if keymode == "alias_explicit":
                    fkw["alias"] = "token"
                cl = attrs.make_class("KP", {"lead": attrs.field(type=int), fname: attrs.field(**fkw)})
                kw = {"_cattrs_use_alias": keymode in ("alias_private", "alias_explicit"), "_cattrs_forbid_extra_keys": forbid}
                if handler == "field_converter_preferred":
                    kw["_cattrs_prefer_attrib_converters"] = True
                if kind == "noinit_default":
                    kw["_cattrs_include_init_false"] = True
                if keymode == "rename":
                    kw[fname] = override(rename="renamed")
                key = {"name": fname, "rename": "renamed", "alias_private": "tok", "alias_explicit": "token"}[keymode]
                hooks = {}
                for dv in (True, False):
                    conv = Converter(detailed_validation=dv)
                    hooks[dv] = make_dict_structure_fn(cl, conv, _cattrs_detailed_validation=dv, **kw)
                others = sorted({fname, "tok", "token", "renamed", "zz"} - {key})
                payloads = [{"lead": 1, key: 9}, {"lead": 1}, {"lead": 1, key: "bad"}, {key: 9}] + \
                           [{"lead": 1, key: 9, o: 3} for o in others] + [{"lead": 1, o: 3} for o in others]
                for p in payloads:
                    n += 1
                    desc = {"lane": "TPL key-modes", "attribute": kind, "key_mode": keymode, "value_from": handler, "forbid_extra_keys": forbid, "configured_key": key, "payload": repr(p)}
                    v.count(repr((prop, desc)), True)
                    res = {}
                    for dv in (True, False):
                        try:
                            r = hooks[dv](dict(p), cl)
                            res[dv] = ("ok", (r.lead, getattr(r, fname)))
                        except Exception as e:
                            res[dv] = ("err", e)
                    if prop == "C04":
                        same = res[True][0] == res[False][0] and (res[True][0] == "err" or res[True][1] == res[False][1])
                        if not same:
                            v.violation("detailed_validation changes acceptance or result",
                                        {**desc, "detailed": repr(res[True])[:200], "fast": repr(res[False])[:200]})
                    if prop == "C10":
                        extras = frozenset(p) - {"lead", key}
                        for dv in (True, False):
                            if forbid and extras:
                                named = forbidden(res[dv][1]) if res[dv][0] == "err" else None
                                if named != [extras]:
                                    v.violation("forbid_extra_keys: the payload is not rejected with exactly its unknown keys named",
                                                {**desc, "detailed_validation": dv, "unknown_keys": sorted(extras), "outcome": repr(res[dv])[:200]})
                            elif res[dv][0] == "err" and forbidden(res[dv][1]):
                                v.violation("ForbiddenExtraKeysError although every key of the payload is accepted",
                                            {**desc, "detailed_validation": dv, "outcome": repr(res[dv])[:200]})
                        if not forbid and extras:
                            base = {k2: p[k2] for k2 in p if k2 in ("lead", key)}
                            for dv in (True, False):
                                try:
                                    r0 = hooks[dv](dict(base), cl)
                                    b0 = ("ok", (r0.lead, getattr(r0, fname)))
                                except Exception as e:
                                    b0 = ("err", type(e).__name__)
                                cur = res[dv] if res[dv][0] == "ok" else ("err", type(res[dv][1]).__name__)
                                if cur != b0:
                                    v.violation("without forbid_extra_keys an unknown key changed the outcome",
                                                {**desc, "detailed_validation": dv, "with_extras": repr(cur)[:200], "without": repr(b0)[:200]})
    hist["key_mode_pairwise_cases"] = n


def _parse_port(v):
    return int(str(v).split("/")[0])


def key_modes_classes(v, hist):
    """systematic, for C06: one attribute x {required, __init__ argument with default} x {own name, private name, explicit alias}
    x {value from the hook of its type, from its attrs field converter with prefer_attrib_converters, untyped} x both modes:
    Converter and BaseConverter with the same options accept the same payloads with the same instance."""
    import attrs
    from cattrs import BaseConverter
    n = 0
    for kind, keymode, handler, dv in itertools.product(("required", "init_default"), ("name", "private", "alias_explicit"),
                                                        ("typed", "field_converter_preferred", "field_converter", "untyped"), (True, False)):
        fname = "_tok" if keymode == "private" else "tok"
        fkw = {"type": int} if handler != "untyped" else {}
        if handler.startswith("field_converter"):
            fkw["converter"] = _parse_port        # accepts "7/tcp", which int() -- the hook of the declared type -- rejects
        if kind != "required":
            fkw["default"] = 5
        if keymode == "alias_explicit":
            fkw["alias"] = "token"
        cl = attrs.make_class("KC", {"lead": attrs.field(type=int), fname: attrs.field(**fkw), "tail": attrs.field(type=str, default="t")})
        kw = {"detailed_validation": dv, "prefer_attrib_converters": handler == "field_converter_preferred"}
        a, b = Converter(**kw), BaseConverter(**kw)
        others = sorted({"tok", "_tok", "token", "zz"} - {fname})
        payloads = [{"lead": 1, fname: 9}, {"lead": 1, fname: 9, "tail": "u"}, {"lead": 1}, {"lead": 1, fname: "7"}, {"lead": 1, fname: "7/tcp"}, {"lead": "3", fname: "7/tcp"},
                    {"lead": 1, fname: "bad"}, {fname: 9}] + \
                   [{"lead": 1, fname: 9, o: 3} for o in others] + [{"lead": 1, o: 3} for o in others]
        for p in payloads:
            n += 1
            desc = {"lane": "TPL key-modes (classes)", "attribute": kind, "key_mode": keymode, "value_from": handler, "options": kw, "payload": repr(p)}
            v.count(repr(("C06", desc)), True)
            res = []
            for c in (a, b):
                try:
                    r = c.structure(dict(p), cl)
                    res.append(("ok", (r.lead, getattr(r, fname), r.tail)))
                except Exception as e:
                    res.append(("err", type(e).__name__))
            if res[0][0] != res[1][0] or (res[0][0] == "ok" and res[0][1] != res[1][1]):
                v.violation("Converter and BaseConverter disagree on acceptance or on the instance", {**desc, "converter": repr(res[0]), "base_converter": repr(res[1])})
    hist["key_mode_class_cases"] = n


def K_of(f):
    """the attribute value a default leads to (field converters are applied to defaults too)"""
    return T.K(f.default) if f.conv else f.default


# ---------------------------------------------------------------- TypedDict templates

class TdScenario:
    """A generated TypedDict + overrides, with the real hooks of both validation modes."""

    def __init__(self, rng, idx, intern, allow_unsafe=False):
        from typing import NotRequired, Required, TypedDict
        self.intern = intern
        self.idx = idx
        n = rng.randint(0, 5)
        self.total = rng.random() < 0.6
        self.fields = []
        ann = {}
        for i in range(n):
            name = f"k{i}"
            typed = rng.random() < 0.7
            t = T.marker(intern(name)) if typed else int
            req = self.total
            if rng.random() < 0.3:
                req = not self.total
                t = (Required[t] if req else NotRequired[t])
            ann[name] = t
            self.fields.append((name, req, typed))
        self.cl = TypedDict(f"TD{idx}", ann, total=self.total)
        self.ovs = {}
        used = set()
        if rng.random() < 0.65:
            for (name, req, typed) in self.fields:
                if rng.random() < 0.4:
                    o = {}
                    if rng.random() < 0.2:
                        o["omit"] = True
                    else:
                        key = rng.choice([f"r{name}", name, f"ren{len(used)}"] + (T.UNSAFE_KEYS if allow_unsafe else []))
                        if key not in used and key not in [f[0] for f in self.fields if f[0] != name]:
                            o["rename"] = key
                            used.add(key)
                    if o:
                        self.ovs[name] = o
        self.hooks = {}
        self.gen_error = {}

    def typed_ids(self):
        return [self.intern(n) for n, _, typed in self.fields if typed]

    def coq_fields(self):
        return T.c_list("{| d_name := %s; d_required := %s |}" % (T.cN(self.intern(n)), T.c_bool(req)) for n, req, _ in self.fields)

    def coq_opts(self, forbid, flags):
        return "{| td_cl := %s; td_forbid := %s; td_skip_self_rename := %s |}" % (T.cN(1000 + self.idx), T.c_bool(forbid), T.c_bool(flags))

    def key_of(self, name):
        return self.ovs.get(name, {}).get("rename", name)

    def included(self, name):
        return not self.ovs.get(name, {}).get("omit")

    def conv(self, dv):
        conv = Converter(detailed_validation=dv)
        for n, _, typed in self.fields:
            if typed:
                nid = self.intern(n)

                def sh(v, _t, nid=nid):
                    if not isinstance(v, int) or isinstance(v, bool):
                        raise TypeError("not an int")
                    if v >= 50:
                        raise ValueError("too large")
                    return 1000 * (nid + 1) + v
                conv.register_structure_hook(T.marker(nid), sh)
                conv.register_unstructure_hook(T.marker(nid), lambda v: v + 7)
        return conv

    def struct_hook(self, dv, forbid):
        from cattrs.gen.typeddicts import make_dict_structure_fn as td_struct
        key = (dv, forbid)
        if key not in self.hooks and key not in self.gen_error:
            try:
                fn = td_struct(self.cl, self.conv(dv), _cattrs_forbid_extra_keys=forbid, _cattrs_detailed_validation=dv, **T.real_overrides(self.ovs))
                self.hooks[key] = fn
            except Exception as e:
                self.gen_error[key] = T.outcome_of_exception(e, self.intern)
        return self.hooks.get(key)

    def run_struct(self, dv, forbid, payload):
        h = self.struct_hook(dv, forbid)
        if h is None:
            return self.gen_error[(dv, forbid)]
        try:
            r = h(payload, self.cl)
        except Exception as e:
            return T.outcome_of_exception(e, self.intern)
        if isinstance(r, dict):
            if not all(isinstance(x, int) and not isinstance(x, bool) for x in r.values()):
                return ("other",)
            return ("ok", [(self.intern(k), val) for k, val in r.items()])
        return ("junk",)

    def coq_payload(self, payload):
        if type(payload) is dict:
            return T.c_payload(("dict", [(self.intern(k), val) for k, val in payload.items()]))
        keys = sorted({self.key_of(n) for n, _, _ in self.fields} | {n for n, _, _ in self.fields})
        return T.c_payload(T.probe_obj(payload, keys, self.intern))

    def coq_case(self, dv, forbid, payload, outcome, flag):
        return "TTd %s %s %s %s %s %s %s" % (T.c_bool(dv), self.coq_opts(forbid, flag), T.coq_ovs(self.ovs, self.intern),
                                              T.c_list(T.cN(i) for i in self.typed_ids()), self.coq_fields(), self.coq_payload(payload),
                                              c_outcome2(outcome))

    def gen_payload(self, rng, junk_rate=0.2, extras_rate=0.35):
        if rng.random() < junk_rate:
            k = rng.random()
            keys = [self.key_of(n) for n, _, _ in self.fields] + [n for n, _, _ in self.fields]
            if k < 0.3:
                return rng.choice([[1, 2], [], [3, 4, 5]])
            if k < 0.45:
                return rng.choice(["k0", "", "abc"])
            if k < 0.55:
                return rng.choice([5, None])
            if k < 0.8:
                return T.FrozenMap({kk: rng.randrange(0, 45) for kk in keys if rng.random() < 0.8})
            return {1, 2}
        d = {}
        for n, req, _ in self.fields:
            if rng.random() < (0.1 if req else 0.4):
                continue
            d[self.key_of(n)] = rng.randrange(50, 60) if rng.random() < 0.12 else rng.randrange(0, 45)
        if rng.random() < extras_rate:
            for j in range(rng.randint(1, 2)):
                k = rng.choice([f"extra{j}"] + [n for n, _, _ in self.fields])
                if k not in d:
                    d[k] = rng.randrange(0, 45)
        items = list(d.items())
        rng.shuffle(items)
        return dict(items)

    def describe(self):
        return (f"TypedDict TD{self.idx}[" + ", ".join(f"{n}{'' if req else '?'}{'' if typed else ':int'}" for n, req, typed in self.fields) +
                f"] overrides={self.ovs}")


def c_outcome2(x):
    if x[0] == "junk":
        return "XJunk"
    if x[0] == "same":
        return "XSame"
    return T.c_outcome(x)


def td_flag(t1_summary):
    return bool(((t1_summary or {}).get("gen") or {}).get("td", {}).get("skip_self_rename", True))


def td_lane(v: Verdict, t1_summary, prop, n_scen, n_payloads, cases, meta, hist):
    """TypedDict part of C04 / C09 / C10: generates cases (appended to `cases`) and runs the property's oracle."""
    from cattrs.gen.typeddicts import make_dict_unstructure_fn as td_unstruct
    rng = random.Random(v.seed * 7919 + 100 + int(prop[1:]))
    intern = hist["_intern"]
    flag = td_flag(t1_summary)
    for si in range(n_scen):
        sc = TdScenario(rng, si, intern, allow_unsafe=(prop == "C09" and si % 12 == 0))
        hist["td_scenarios"] = hist.get("td_scenarios", 0) + 1
        allowed = {sc.key_of(n) for n, _, _ in sc.fields if sc.included(n)}
        for pi in range(n_payloads):
            p = sc.gen_payload(rng)
            hist["td_payloads"] = hist.get("td_payloads", 0) + 1
            outs = {}
            forbids = (True, False) if prop == "C10" else (rng.random() < 0.4,)
            for dv in (True, False):
                for forbid in forbids:
                    r = sc.run_struct(dv, forbid, p)
                    outs[(dv, forbid)] = r
                    cases.append(sc.coq_case(dv, forbid, p, r, flag))
                    meta.append((sc, f"TD dv={dv} forbid={forbid}", p, r))
            v.count(sc.describe() + repr(p), len(sc.fields) >= 2)
            rp = {"lane": f"TPL/{prop}/typeddict", "typeddict": sc.describe(), "payload": repr(p), "outcomes": {str(k): val for k, val in outs.items()}}
            if prop == "C04":
                for forbid in {k[1] for k in outs}:
                    a, b = outs[(True, forbid)], outs[(False, forbid)]
                    same = (a[0] == "ok") == (b[0] in ("ok", "junk")) and (a[0] != "ok" or sorted(a[1]) == sorted(b[1]))
                    if not same:
                        if b[0] == "junk" and a[0] != "ok" and type(p) is not dict:
                            hist["f11_hits"] = hist.get("f11_hits", 0) + 1
                            v.finding("F11", "fast mode returns a copy of a non-mapping payload for a TypedDict without required keys", rp)
                        else:
                            v.violation("detailed_validation changes acceptance or result of a TypedDict hook", rp)
            if prop == "C10" and type(p) is dict:
                unknown = sorted(k for k in p if k not in allowed)
                base = {k: val for k, val in p.items() if k in allowed}
                for dv in (True, False):
                    rf, rn = outs[(dv, True)], outs[(dv, False)]
                    rb = sc.run_struct(dv, False, base)
                    if (dv, True) in sc.gen_error:
                        continue
                    if unknown:
                        if rf[0] in ("ok", "junk"):
                            v.violation("TypedDict hook with forbid_extra_keys accepted unknown keys", {**rp, "unknown": unknown})
                        elif rb[0] == "ok":
                            h = sc.struct_hook(dv, True)
                            try:
                                h(p, sc.cl)
                                leaves = []
                            except Exception as e:
                                leaves = _forbidden_in(e)
                            if [sorted(x.extra_fields) for x in leaves] != [unknown]:
                                v.violation("TypedDict ForbiddenExtraKeysError does not name exactly the unknown keys",
                                            {**rp, "unknown": unknown, "named": [sorted(x.extra_fields) for x in leaves]})
                        # flag off: the unknown keys must not change the outcome
                        if rn[0] == "ok" and rb[0] == "ok" and sorted(rn[1]) != sorted(rb[1]):
                            hist["f4_hits"] = hist.get("f4_hits", 0) + 1
                            v.finding("F4", "TypedDict structure keeps unknown keys in its result", {**rp, "without_extras": rb})
                        elif (rn[0] == "ok") != (rb[0] == "ok"):
                            v.violation("unknown keys changed the acceptance of a TypedDict payload although forbid_extra_keys is off", {**rp, "without_extras": rb})
                    else:
                        if (rf[0] == "ok") != (rn[0] == "ok") or (rf[0] == "ok" and sorted(rf[1]) != sorted(rn[1])):
                            v.violation("forbid_extra_keys changed the outcome of a TypedDict payload without unknown keys", rp)
        # unstructure + round trip (C09)
        if prop == "C09":
            conv = sc.conv(True)
            try:
                un = td_unstruct(sc.cl, conv, **T.real_overrides(sc.ovs))
                gerr = None
            except Exception as e:
                un, gerr = None, e
            for ii in range(n_payloads):
                inst = {}
                for n, req, _ in sc.fields:
                    if req or rng.random() < 0.6:
                        inst[n] = rng.randrange(0, 40)
                if gerr is not None:
                    out = T.outcome_of_exception(gerr, intern)
                else:
                    try:
                        d = un(inst)
                        out = ("same",) if d is inst else ("ok", [(intern(k), val) for k, val in d.items()])
                    except Exception as e:
                        out = T.outcome_of_exception(e, intern)
                cases.append("TTdUn %s %s %s %s %s %s" % (sc.coq_opts(False, flag), T.coq_ovs(sc.ovs, intern),
                                                           T.c_list(T.cN(i) for i in sc.typed_ids()), sc.coq_fields(),
                                                           T.c_pairs([(intern(k), val) for k, val in inst.items()]), c_outcome2(out)))
                meta.append((sc, "TD unstructure", inst, out))
                if gerr is not None:
                    rp = {"lane": "TPL/C09/typeddict", "typeddict": sc.describe(), "error": repr(gerr)}
                    if any(o.get("rename") in T.UNSAFE_KEYS for o in sc.ovs.values()) and isinstance(gerr, SyntaxError):
                        v.finding("F3", "a key containing a quote or a trailing backslash is spliced into the generated source", rp)
                    else:
                        v.violation("TypedDict hook generation failed for a consistent customisation", rp)
                    continue
                if out[0] not in ("ok", "same"):
                    v.violation("TypedDict unstructure hook failed", {"lane": "TPL/C09/typeddict", "typeddict": sc.describe(), "instance": inst, "outcome": out})
                    continue
                d = inst if out[0] == "same" else d
                exp = {sc.key_of(n) for n in inst if sc.included(n)}
                if set(d.keys()) != exp:
                    v.violation("TypedDict unstructure hook does not emit exactly the configured key set",
                                {"lane": "TPL/C09/typeddict", "typeddict": sc.describe(), "instance": inst, "emitted": sorted(d.keys()), "expected": sorted(exp)})
                    continue
                # structure back with the same customisation: the handled keys come back (through the tagging handlers)
                for dv in (True, False):
                    back = sc.run_struct(dv, False, dict(d))
                    want = {}
                    for n, req, typed in sc.fields:
                        if n in inst and sc.included(n):
                            want[intern(n)] = (1000 * (intern(n) + 1) + inst[n] + 7) if typed else inst[n]
                    if back[0] != "ok" or any(dict(back[1]).get(k) != val for k, val in want.items()):
                        if (dv, False) in sc.gen_error:
                            continue
                        v.violation("TypedDict structure hook with the same customisation does not restore the handled keys",
                                    {"lane": "TPL/C09/typeddict", "typeddict": sc.describe(), "instance": inst, "unstructured": d, "dv": dv, "back": back})


def omit_default_battery(v, hist):
    """systematic, for C09: omit_if_default omits an attribute exactly when its value EQUALS the default (Python ==) -- not when it is
    merely falsy, empty or of the default's class.  Defaults: plain values and Factory(<builtin>) / Factory(lambda) / takes_self;
    values: the default itself, equal-but-other-class values, falsy values that are not equal, non-empty ones; switched on
    converter-wide, by the generator flag and per attribute; the emitted key set and the round trip are checked."""
    import collections
    import attrs
    from cattrs.gen import override
    n = 0
    defaults = [("Factory(list)", lambda: attrs.Factory(list), []), ("Factory(dict)", lambda: attrs.Factory(dict), {}), ("Factory(set)", lambda: attrs.Factory(set), set()),
                ("Factory(tuple)", lambda: attrs.Factory(tuple), ()), ("Factory(frozenset)", lambda: attrs.Factory(frozenset), frozenset()),
                ("Factory(lambda: [])", lambda: attrs.Factory(lambda: []), []), ("Factory(lambda self: [], takes_self=True)", lambda: attrs.Factory(lambda self: [], takes_self=True), []),
                ("0", lambda: 0, 0), ("''", lambda: "", ""), ("None", lambda: None, None), ("False", lambda: False, False), ("5", lambda: 5, 5)]
    values = [[], {}, set(), (), frozenset(), None, 0, "", False, 0.0, collections.deque(), [0], {"k": 1}, (1,), 5, "s", True]
    for dname, mk, dval in defaults:
        for how in ("converter", "flag", "override"):
            for dv in (True, False):
                cl = attrs.make_class("OD", {"lead": attrs.field(type=int), "x": attrs.field(default=mk())})
                conv = Converter(detailed_validation=dv, omit_if_default=(how == "converter"))
                if how == "converter":
                    un = conv.get_unstructure_hook(cl)
                elif how == "flag":
                    un = make_dict_unstructure_fn(cl, conv, _cattrs_omit_if_default=True)
                else:
                    un = make_dict_unstructure_fn(cl, conv, x=override(omit_if_default=True))
                st = make_dict_structure_fn(cl, conv, _cattrs_detailed_validation=dv)
                for val in values:
                    n += 1
                    desc = {"lane": "TPL/C09 omit_if_default", "default": dname, "switched_on_by": how, "detailed_validation": dv, "value": repr(val)}
                    v.count(repr(desc), True)
                    try:
                        inst = cl(1, val)
                        d = un(inst)
                    except Exception as e:
                        v.violation("customised unstructure hook failed (omit_if_default)", {**desc, "error": repr(e)})
                        continue
                    try:
                        equal = bool(val == dval)
                    except Exception:
                        continue
                    want_keys = {"lead"} if equal else {"lead", "x"}
                    if set(d) != want_keys:
                        v.violation("omit_if_default: the attribute is not omitted exactly when its value equals the default",
                                    {**desc, "unstructured": repr(d), "value_equals_default": equal})
                        continue
                    try:
                        back = st(dict(d), cl)
                    except Exception as e:
                        v.violation("structure hook rejected what the unstructure hook with omit_if_default emitted", {**desc, "unstructured": repr(d), "error": repr(e)})
                        continue
                    # (an untyped attribute is unstructured by the runtime class of its value: tuples / deques become lists, sets stay
                    # sets ...; the round trip is judged where the unstructured form is the value itself, or was omitted as the default)
                    if "x" in d and not (type(d["x"]) is type(val) and d["x"] == val):
                        continue
                    if not (back.x == val and back.lead == 1):
                        v.violation("omit_if_default: the round trip does not restore the attribute", {**desc, "unstructured": repr(d), "restored": repr(back)})
    hist["omit_default_cases"] = n
