"""Module-level classes for the direct oracles (no `from __future__ import annotations` here:
cattrs resolves the annotations of these classes)."""
from typing import NamedTuple, TypedDict, Union

import attrs


@attrs.define
class Inner:
    a: int
    b: str = "x"


@attrs.define
class Mid:
    inner: Inner
    items: list[Inner] = attrs.Factory(list)


@attrs.define
class Outer:
    mid: Mid
    m: dict[str, Inner] = attrs.Factory(dict)


class TD(TypedDict):
    a: int


class NT(NamedTuple):
    a: int
    b: int = 2


@attrs.define
class TA:
    x: int


@attrs.define
class TB:
    y: int
