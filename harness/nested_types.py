"""Module-level classes for the direct oracles (no `from __future__ import annotations` here:
cattrs resolves the annotations of these classes)."""
from typing import NamedTuple, TypedDict, Union

import dataclasses

import attrs


@attrs.define
class Inner:
    a: int
    b: str = "x"


@attrs.define
class Mid:
    inner: Inner
    items: list[Inner] = attrs.Factory(list)


@attrs.define
class Outer:
    mid: Mid
    m: dict[str, Inner] = attrs.Factory(dict)


class TD(TypedDict):
    a: int


class NT(NamedTuple):
    a: int
    b: int = 2


@attrs.define
class TA:
    x: int


@attrs.define
class TB:
    y: int


@attrs.define
class M0:
    a: int = 0
    b: int = 0


@attrs.define
class M1:
    a: int = 0
    c: int = 0


@dataclasses.dataclass
class M2:
    d: int = 0


@attrs.define
class M3:
    kind: int = 0
    e: int = 0


@attrs.define
class M0Sub(M0):
    z: int = 0


@attrs.define
class Outside:
    q: int = 0


