"""Module-level classes for the direct oracles (no `from __future__ import annotations` here:
cattrs resolves the annotations of these classes)."""
from typing import NamedTuple, TypedDict, Union

import dataclasses

import attrs


@attrs.define
class Inner:
    a: int
    b: str = "x"


@attrs.define
class Mid:
    inner: Inner
    items: list[Inner] = attrs.Factory(list)


@attrs.define
class Outer:
    mid: Mid
    m: dict[str, Inner] = attrs.Factory(dict)


class TD(TypedDict):
    a: int


class NT(NamedTuple):
    a: int
    b: int = 2


@attrs.define
class TA:
    x: int


@attrs.define
class TB:
    y: int


@attrs.define
class M0:
    a: int = 0
    b: int = 0


@attrs.define
class M1:
    a: int = 0
    c: int = 0


@dataclasses.dataclass
class M2:
    d: int = 0


@attrs.define
class M3:
    kind: int = 0
    e: int = 0


@attrs.define
class M0Sub(M0):
    z: int = 0


@attrs.define
class Outside:
    q: int = 0




# ---- class graphs for the THR lane (C19); Mk is the marker type whose hook factory parks the thread
class Mk:
    pass


@attrs.define
class G1C1:
    m: Mk
    x: "G1C2"


@attrs.define
class G1C2:
    m: Mk
    y: "G1C3"


@attrs.define
class G1C3:
    m: Mk
    back: "list[G1C1]" = attrs.Factory(list)


@attrs.define
class G2D3:
    m: Mk


@attrs.define
class G2D2:
    m: Mk
    c: G2D3


@attrs.define
class G2D1:
    m: Mk
    a: G2D2
    b: G2D3
    m2: Mk


for _c in (G1C1, G1C2, G1C3):
    attrs.resolve_types(_c, globals(), locals())


# mixed kinds (oracle only in the THR lane): a TypedDict, a NamedTuple and a dataclass on the way, every one of them with a
# marker attribute, so that a thread can be parked in the middle of generating any of their hooks
class G3T3(TypedDict):
    m: Mk
    n: int


class G3N2(NamedTuple):
    m: Mk
    t: G3T3


@dataclasses.dataclass
class G3D1:
    m: Mk
    nt: G3N2
    td: G3T3


class G4T2(TypedDict):
    m: Mk
    items: "list[G4A1]"


@attrs.define
class G4A1:
    m: Mk
    child: "G4T2 | None" = None


attrs.resolve_types(G4A1, globals(), locals())
