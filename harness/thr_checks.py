"""THR lane: concurrent first use of classes on one shared converter (C19), with forced schedules."""
from __future__ import annotations

import itertools
import random
import re
import threading
import types

import cattrs
from cattrs import Converter
from common import Verdict, parse_coq_value, run_cases_file
import nested_types as NT

GRAPHS = {
    "cycle": {"classes": {1: NT.G1C1, 2: NT.G1C2, 3: NT.G1C3},
              "fields": {1: [(0, False), (2, False)], 2: [(0, False), (3, False)], 3: [(0, False), (1, True)]}},
    "diamond": {"classes": {1: NT.G2D1, 2: NT.G2D2, 3: NT.G2D3},
                "fields": {1: [(0, False), (2, False), (3, False), (0, False)], 2: [(0, False), (3, False)], 3: [(0, False)]}},
}
# graphs with TypedDicts / NamedTuples / dataclasses: no model (the model's generator is the attrs one); the oracle -- a forced
# schedule never fails where the sequential run does not -- applies to every kind
GRAPHS["mixed_chain"] = {"classes": {1: NT.G3D1, 2: NT.G3N2, 3: NT.G3T3}, "fields": None}
GRAPHS["mixed_cycle"] = {"classes": {1: NT.G4A1, 2: NT.G4T2, 3: NT.G4A1}, "fields": None}
PATCH_MODULES = ["cattrs.gen._consts", "cattrs.gen", "cattrs.gen.typeddicts", "cattrs.cols", "cattrs.strategies._subclasses"]


class Controller:
    def __init__(self, conv, graph, reqs, direction):
        self.conv, self.graph, self.reqs, self.direction = conv, graph, reqs, direction
        n = len(reqs)
        self.parked = [threading.Event() for _ in range(n)]
        self.release = [threading.Event() for _ in range(n)]
        self.done = [threading.Event() for _ in range(n)]
        self.failed = [None] * n
        self.finished = [[] for _ in range(n)]
        self.threads = [None] * n
        self.started = [False] * n

        def factory(t):
            tid = int(threading.current_thread().name.split("-")[1])
            self.parked[tid].set()
            self.release[tid].wait(20)
            self.release[tid].clear()
            return (lambda v, _t: v) if direction == "DSt" else (lambda v: v)
        if direction == "DSt":
            conv.register_structure_hook_factory(lambda t: t is NT.Mk, factory)
        else:
            conv.register_unstructure_hook_factory(lambda t: t is NT.Mk, factory)

    def body(self, tid):
        try:
            for c in self.reqs[tid]:
                cl = self.graph["classes"][c]
                if self.direction == "DSt":
                    self.conv.get_structure_hook(cl)
                else:
                    self.conv.get_unstructure_hook(cl)
                self.finished[tid].append(c)
        except BaseException as e:
            self.failed[tid] = type(e).__name__
        finally:
            self.done[tid].set()

    def mstep(self, tid):
        if self.done[tid].is_set():
            return
        if not self.started[tid]:
            self.started[tid] = True
            t = threading.Thread(target=self.body, args=(tid,), name=f"thr-{tid}", daemon=True)
            self.threads[tid] = t
            t.start()
        else:
            self.parked[tid].clear()
            self.release[tid].set()
        # wait until the thread parks again or is done
        for _ in range(2000):
            if self.parked[tid].wait(0.005) or self.done[tid].is_set():
                break

    def finish(self):
        # let everything run to completion so no thread is left parked
        for _ in range(50):
            alive = False
            for tid, t in enumerate(self.threads):
                if t is not None and not self.done[tid].is_set():
                    alive = True
                    self.parked[tid].clear()
                    self.release[tid].set()
            if not alive:
                break
            for tid, t in enumerate(self.threads):
                if t is not None:
                    self.done[tid].wait(0.02)


def run_schedule(graph, reqs, sched, direction, shared):
    saved = {}
    if shared:
        ns = types.SimpleNamespace()
        import importlib
        for m in PATCH_MODULES:
            mod = importlib.import_module(m)
            saved[m] = mod.already_generating
            mod.already_generating = ns
    try:
        conv = Converter()
        ctl = Controller(conv, graph, reqs, direction)
        for tid in sched:
            ctl.mstep(tid)
        obs = [(ctl.failed[i] is not None, list(ctl.finished[i])) for i in range(len(reqs))]
        ctl.finish()
        return obs, [ctl.failed[i] for i in range(len(reqs))]
    finally:
        if shared:
            import importlib
            for m, val in saved.items():
                importlib.import_module(m).already_generating = val


def coq_fields(graph):
    return "(fun c => " + " ".join(
        f"if N.eqb c {c}%N then [" + "; ".join(f"({d}%N, {'true' if k else 'false'})" for d, k in fs) + "] else"
        for c, fs in graph["fields"].items()) + " [])"


def check_c19(v: Verdict, t1_summary, n_sched, stress_rounds):
    rng = random.Random(v.seed * 7919 + 19)
    tl = bool((t1_summary.get("threads") or {}).get("thread_local", True))
    # the model graphs are attrs classes: their attribute lookups go through find_structure_handler
    fsh = bool((t1_summary.get("threads") or {}).get("find_structure_handler_catches", True))
    cases, meta = [], []
    hist = {"forced_schedules": 0, "what_if_shared_schedules": 0, "shared_failures_exhibited": 0, "threads_2": 0, "threads_3": 0,
            "stress_rounds": 0, "stress_calls": 0, "directions": {"DSt": 0, "DUn": 0}}
    for si in range(n_sched):
        gname = rng.choice(list(GRAPHS))
        graph = GRAPHS[gname]
        nthreads = rng.choice([2, 2, 3])
        hist[f"threads_{nthreads}"] += 1
        reqs = [[rng.choice([1, 2, 3]) for _ in range(rng.randint(1, 2))] for _ in range(nthreads)]
        sched = [rng.randrange(nthreads) for _ in range(rng.randint(4, 14))]
        direction = rng.choice(["DSt", "DSt", "DUn"]) if graph["fields"] is not None else rng.choice(["DSt", "DUn"])
        if graph["fields"] is None and rng.random() < 0.5:
            # two threads asking for the same class first: the classic concurrent first use
            c0 = rng.choice([1, 2, 3])
            reqs = [[c0] + r for r in reqs]
        hist["directions"][direction] += 1
        for shared in (False, True):
            if shared and (direction == "DUn" or graph["fields"] is None):
                continue
            obs, errs = run_schedule(graph, reqs, sched, direction, shared)
            scope_tl = tl if not shared else False
            hist["what_if_shared_schedules" if shared else "forced_schedules"] += 1
            if shared:
                hist["shared_failures_exhibited"] += any(f for f, _ in obs)
            desc = {"graph": gname, "requests": reqs, "schedule": sched, "direction": direction,
                    "working_set": "shared (what-if: module attribute rebound by the harness)" if shared else "as in the source",
                    "observed": obs, "errors": errs}
            if direction == "DSt" and graph["fields"] is not None:
                cases.append("obs_eqb (observe (mrun %s %s %s (init %s) %s)) %s" % (
                    coq_fields(graph), "true" if scope_tl else "false", "true" if fsh else "false",
                    "[" + "; ".join("[" + "; ".join(f"{c}%N" for c in r) + "]" for r in reqs) + "]",
                    "[" + "; ".join(f"{t}%nat" for t in sched) + "]",
                    "[" + "; ".join(f"({'true' if f else 'false'}, [" + "; ".join(f"{c}%N" for c in fin) + "])" for f, fin in obs) + "]"))
                meta.append(desc)
            v.count(repr((gname, reqs, sched, direction, shared)), len(sched) >= 3)
            if not shared:
                # oracle: the same requests executed sequentially never fail
                if any(f for f, _ in obs):
                    v.violation("a thread raised an error under a forced schedule that the sequential execution does not raise",
                                {"lane": "THR/C19", **desc})
        if len(v.samples) < 3:
            v.samples.append({"graph": gname, "requests": reqs, "schedule": sched, "direction": direction})
    # systematic: for every graph, class and direction, thread 0 is parked at each marker of the class's generation in turn while
    # thread 1 uses the same class from start to end (concurrent first use of one class), then thread 0 finishes
    for gname, graph in GRAPHS.items():
        for c in (1, 2, 3):
            for direction in ("DSt", "DUn"):
                for parked_after in (1, 2, 3):
                    reqs = [[c], [c]]
                    sched = [0] * parked_after + [1] * 8 + [0] * 8
                    obs, errs = run_schedule(graph, reqs, sched, direction, False)
                    hist["systematic_first_use"] = hist.get("systematic_first_use", 0) + 1
                    v.count(repr((gname, reqs, sched, direction, "systematic")), True)
                    if any(f for f, _ in obs):
                        v.violation("a thread raised an error under a forced schedule that the sequential execution does not raise",
                                    {"lane": "THR/C19", "graph": gname, "requests": reqs, "schedule": sched, "direction": direction,
                                     "working_set": "as in the source", "observed": obs, "errors": errs})
    # ---- free-running stress: many threads first-using overlapping class graphs on one converter
    import attrs as _attrs
    for r in range(stress_rounds):
        hist["stress_rounds"] += 1
        conv = Converter()
        conv.register_structure_hook(NT.Mk, lambda val, t: val)
        conv.register_unstructure_hook(NT.Mk, lambda val: val)
        mk = NT.Mk()
        inst = NT.G2D1(mk, NT.G2D2(mk, NT.G2D3(mk)), NT.G2D3(mk), mk)
        cyc = NT.G1C1(mk, NT.G1C2(mk, NT.G1C3(mk, [NT.G1C1(mk, NT.G1C2(mk, NT.G1C3(mk, [])))])))
        ref_conv = Converter()
        ref_conv.register_structure_hook(NT.Mk, lambda val, t: val)
        ref_conv.register_unstructure_hook(NT.Mk, lambda val: val)
        expected = [ref_conv.unstructure(inst), ref_conv.unstructure(cyc)]
        results, errors = [], []
        barrier = threading.Barrier(12)

        def work(k):
            try:
                barrier.wait(5)
                for obj, exp in ((inst, expected[0]), (cyc, expected[1])) if k % 2 else ((cyc, expected[1]), (inst, expected[0])):
                    u = conv.unstructure(obj)
                    back = conv.structure(u, type(obj))
                    results.append(u == exp and back == obj)
            except BaseException as e:
                errors.append(repr(e))
        ts = [threading.Thread(target=work, args=(k,)) for k in range(12)]
        for t in ts:
            t.start()
        for t in ts:
            t.join(30)
        hist["stress_calls"] += len(results)
        if errors or not all(results) or len(results) != 24:
            v.violation("concurrent first use on a shared converter differs from the sequential reference",
                        {"lane": "THR/C19/stress", "errors": errors[:3], "results_ok": sum(results), "expected_calls": 24})
    pre = ("From V.Model Require Import Base Threads.\n"
           "Definition l_eqb (a b : list N) : bool := (fix eq (a b : list N) := match a, b with [], [] => true | x :: a', y :: b' => N.eqb x y && eq a' b' | _, _ => false end) a b.\n"
           "Definition obs_eqb (a b : list (bool * list N)) : bool := (fix eq (a b : list (bool * list N)) := match a, b with [], [] => true | (f, x) :: a', (g, y) :: b' => Bool.eqb f g && l_eqb x y && eq a' b' | _, _ => false end) a b.\n")
    bad = []
    shard = 200
    for k in range(0, len(cases), shard):
        src = (pre + "Definition cs : list bool := [\n" + ";\n".join(cases[k:k + shard]) + "\n].\n"
               "Fixpoint bad (k : nat) (l : list bool) : list nat := match l with [] => [] | b :: r => if b then bad (S k) r else k :: bad (S k) r end.\n"
               "Eval vm_compute in (bad 0 cs).\n")
        rc, out = run_cases_file(f"c19_{v.seed}_{k}", src)
        vals = parse_coq_value(out)
        if rc != 0 or not vals:
            v.obligation("correspondence:THR/C19:coqc", False, out[-700:])
            return
        if vals[-1] != "[]":
            bad += [k + int(x) for x in re.findall(r"\d+", vals[-1])]
    v.obligation("correspondence:THR/C19 (per-thread failures and completed requests under forced schedules, thread-local and what-if-shared working set)", not bad,
                 "" if not bad else f"{len(bad)} of {len(cases)} disagree, first: {meta[bad[0]]}")
    v.coverage["input_distribution"] = hist
