"""RECWARM battery (C08, C19; no model): reference cycles between classes are cut by LATE BINDING -- the hook generated for a
class that is reached again while its own hook is being generated calls back into the converter instead of holding the nested
hook.  Which class's hook holds the late-bound position depends on the ENTRY POINT of the first use (and, with threads, on the
schedule), and the hooks generated on the way are cached.  So a late-bound position must behave exactly like a directly bound
one; the observable difference is an instance of a SUBCLASS at a position declared with the base class (a directly bound hook
is the declared class's hook; a late-bound call that dispatches on the runtime class is the subclass's).

Families of mutually recursive classes (attrs / dataclass / TypedDict / NamedTuple members, references through List / Dict /
Optional / bare), subclasses with extra attributes; warm-up calls from random entry points; then a fixed probe battery of
nested values with subclass instances at every position: warmed converter vs a fresh one (C08), and the shared converter of a
forced thread schedule vs a fresh one (C19)."""
from __future__ import annotations

import copy
import dataclasses
import random
import re
from typing import Dict, List, NamedTuple, Optional, TypedDict, Union

import attrs

from common import Verdict


class RMk:
    """marker type: a hook factory registered for it parks the generating thread (C19 schedules); no other role"""

    def __repr__(self):
        return "RMk()"

    def __eq__(self, other):
        return type(other) is RMk

    __hash__ = None


# ---- family 1: attrs <-> attrs through List and Optional
@attrs.define
class RA:
    bs: List["RB"] = attrs.Factory(list)
    ob: Optional["RB"] = None
    z: RMk = attrs.Factory(RMk)


@attrs.define
class RB:
    as_: List["RA"] = attrs.Factory(list)
    m: Dict[str, "RA"] = attrs.Factory(dict)
    z: RMk = attrs.Factory(RMk)


@attrs.define
class RA2(RA):
    more: int = 7


@attrs.define
class RB2(RB):
    extra: int = 5


# ---- family 2: dataclass <-> attrs, bare references
@dataclasses.dataclass
class DP:
    q: Optional["DQ"] = None
    n: int = 0
    z: RMk = dataclasses.field(default_factory=RMk)


@attrs.define
class DQ:
    p: Optional["DP"] = None
    ps: List["DP"] = attrs.Factory(list)
    z: RMk = attrs.Factory(RMk)


@dataclasses.dataclass
class DP2(DP):
    more: int = 7


@attrs.define
class DQ2(DQ):
    extra: int = 5


# ---- family 3: a TypedDict and a NamedTuple on the cycle
class TN(TypedDict):
    owner: "NO"
    n: int


@attrs.define
class NO:
    items: List["TN"] = attrs.Factory(list)
    nt: Optional["NNT"] = None
    z: RMk = attrs.Factory(RMk)


class NNT(NamedTuple):
    o: Optional["NO"]
    k: int


@attrs.define
class NO2(NO):
    extra: int = 5


# ---- family 4: a union of classes reachable from one of its members (List[Union[UNode, ULeaf]]), with hook factories that rename every
# attribute to camelCase: the default disambiguator reads the renames off the members' hooks, also for the member being generated
@attrs.define
class ULeaf:
    leaf_val: int = 0
    z: RMk = attrs.Factory(RMk)


@attrs.define
class UNode:
    node_id: int
    kids: List[Union["UNode", ULeaf]] = attrs.Factory(list)
    z: RMk = attrs.Factory(RMk)


def _camel(s):
    a, *rest = s.split("_")
    return a + "".join(x.capitalize() for x in rest)


def setup_camel(conv):
    from cattrs.gen import make_dict_structure_fn, make_dict_unstructure_fn, override
    mine = (UNode, ULeaf)
    conv.register_structure_hook(RMk, lambda v_, _t: RMk())
    conv.register_structure_hook_factory(lambda t: t in mine, lambda t, c: make_dict_structure_fn(
        t, c, **{a.name: override(rename=_camel(a.name)) for a in attrs.fields(t)}))
    conv.register_unstructure_hook_factory(lambda t: t in mine, lambda t, c: make_dict_unstructure_fn(
        t, c, **{a.name: override(rename=_camel(a.name)) for a in attrs.fields(t)}))


_G = dict(globals())
for _c in (RA, RB, RA2, RB2, DQ, DQ2, NO, NO2, UNode):
    attrs.resolve_types(_c, _G)


def families():
    a_val = RA(bs=[RB2(as_=[RA2(bs=[RB2()], ob=RB2())], m={"k": RA2()})], ob=RB2(as_=[RA2()]))
    b_val = RB2(as_=[RA2(bs=[RB2(m={"z": RA2()})])], m={"k": RA2(ob=RB2())})
    f1 = {"name": "attrs<->attrs (List, Dict, Optional)",
          "entries": [RA, RB, RA2, RB2, List[RA], List[RB], Optional[RB], Dict[str, RA]],
          "warm_values": {RA: RA(), RB: RB(), RA2: RA2(), RB2: RB2(), List[RA]: [RA()], List[RB]: [RB()], Optional[RB]: RB(), Dict[str, RA]: {"k": RA()}},
          "probes": [(RA, a_val), (RB, b_val), (List[RA], [a_val, RA2()]), (List[RB], [b_val]), (Optional[RB], b_val), (Dict[str, RA], {"k": a_val}), (RA2, RA2(bs=[RB2()])), (RB2, b_val)]}
    p_val = DP(q=DQ2(p=DP2(q=DQ2(ps=[DP2()])), ps=[DP2(n=3)]), n=1)
    q_val = DQ2(p=DP2(q=DQ2(p=DP2())), ps=[DP2(q=DQ2())])
    f2 = {"name": "dataclass<->attrs (Optional, List)",
          "entries": [DP, DQ, DP2, DQ2, Optional[DP], List[DP], Optional[DQ]],
          "warm_values": {DP: DP(), DQ: DQ(), DP2: DP2(), DQ2: DQ2(), Optional[DP]: DP(), List[DP]: [DP()], Optional[DQ]: DQ()},
          "probes": [(DP, p_val), (DQ, q_val), (Optional[DP], p_val), (List[DP], [p_val, DP2()]), (Optional[DQ], q_val), (DP2, DP2(q=q_val)), (DQ2, q_val)]}
    o_val = NO(items=[{"owner": NO2(items=[{"owner": NO2(), "n": 2}]), "n": 1}], nt=NNT(NO2(nt=NNT(None, 1)), 2))
    f3 = {"name": "attrs<->TypedDict / NamedTuple",
          "entries": [NO, TN, NNT, NO2, List[TN], Optional[NNT]],
          "warm_values": {NO: NO(), TN: {"owner": NO(), "n": 0}, NNT: NNT(None, 0), NO2: NO2(), List[TN]: [], Optional[NNT]: NNT(None, 0)},
          "probes": [(NO, o_val), (TN, {"owner": o_val, "n": 9}), (NNT, NNT(o_val, 3)), (List[TN], [{"owner": o_val, "n": 9}]), (Optional[NNT], NNT(o_val, 3)), (NO2, NO2(items=o_val.items))]}
    tree = UNode(1, [ULeaf(2), UNode(3, [ULeaf(4), UNode(5)])])
    U = Union[UNode, ULeaf]
    f4 = {"name": "union inside a cycle, camelCase hook factories", "setup": setup_camel, "must_round_trip": True,
          "entries": [UNode, ULeaf, U, List[U]],
          "warm_values": {UNode: UNode(0), ULeaf: ULeaf(1), U: ULeaf(1), List[U]: [ULeaf(1)]},
          "probes": [(UNode, tree), (U, tree), (U, ULeaf(7)), (List[U], [tree, ULeaf(8)]), (ULeaf, ULeaf(9))]}
    return [f1, f2, f3, f4]


def outcome(f):
    try:
        return ("ok", repr(f()))
    except BaseException as e:        # noqa
        return ("err", type(e).__name__)


def probe(conv, fam, back_conv=None):
    """unstructure every probe value; structure the result back (by declared types) on the same converter"""
    out = []
    for T, x in fam["probes"]:
        r = outcome(lambda: conv.unstructure(copy.deepcopy(x), unstructure_as=T))
        out.append((f"unstructure({x!r}, {T})", r))
        try:
            u = conv.unstructure(copy.deepcopy(x), unstructure_as=T)
        except BaseException:      # noqa
            continue
        back = outcome(lambda: conv.structure(copy.deepcopy(u), T))
        out.append((f"structure({u!r}, {T})", back))
        if fam.get("must_round_trip"):
            out.append((f"round trip of {x!r} as {T}", ("ok", "True") if back == ("ok", repr(x)) else ("err", f"got {back}")))
    return out


def warm_calls(fam, rng, k):
    calls = []
    for _ in range(k):
        T = rng.choice(fam["entries"])
        kind = rng.choice(["unstructure", "get_unstructure_hook", "get_structure_hook", "structure"])
        calls.append((kind, T))
    return calls


def apply_warm(conv, fam, call):
    kind, T = call
    try:
        if kind == "unstructure":
            conv.unstructure(copy.deepcopy(fam["warm_values"][T]), unstructure_as=T)
        elif kind == "get_unstructure_hook":
            conv.get_unstructure_hook(T)
        elif kind == "get_structure_hook":
            conv.get_structure_hook(T)
        else:
            u = conv.unstructure(copy.deepcopy(fam["warm_values"][T]), unstructure_as=T)
            conv.structure(u, T)
    except RecursionError:
        raise
    except BaseException:      # noqa
        pass


def options(rng):
    kw = {"detailed_validation": rng.random() < 0.5}
    if rng.random() < 0.3:
        kw["omit_if_default"] = True
    return kw


def check_recwarm(v: Verdict, prop: str, n_cases: int):
    """C08: entry point of the first use vs a fresh converter"""
    from cattrs import Converter
    rng = random.Random(v.seed * 86028121 + sum(map(ord, prop)))
    hist = {"cases": 0, "families": {}, "warm_calls": 0, "probes": 0}
    fams = families()
    # every single entry point once, then random warm-up sequences
    plans = [(fi, [("unstructure", T)]) for fi, f in enumerate(fams) for T in f["entries"]]
    plans += [(fi, [("get_structure_hook", T)]) for fi, f in enumerate(fams) for T in f["entries"][:2]]
    while len(plans) < n_cases:
        fi = rng.randrange(len(fams))
        plans.append((fi, warm_calls(fams[fi], rng, rng.randint(1, 4))))
    for fi, calls in plans[:max(n_cases, 25)]:
        fam = fams[fi]
        kw = options(rng)
        warmed, fresh = Converter(**kw), Converter(**kw)
        if fam.get("setup"):
            fam["setup"](warmed)
            fam["setup"](fresh)
        for c in calls:
            apply_warm(warmed, fam, c)
        hist["cases"] += 1
        hist["families"][fam["name"]] = hist["families"].get(fam["name"], 0) + 1
        hist["warm_calls"] += len(calls)
        steps = [f"{k}({T})" for k, T in calls]
        v.count(repr(("recwarm", fam["name"], sorted(kw.items()), steps)), True)
        pa, pb = probe(warmed, fam), probe(fresh, fam)
        hist["probes"] += len(pa)
        for (what, xa) in pa:
            if what.startswith("round trip of") and xa[0] != "ok":
                v.violation("a value does not come back from its unstructured form (union inside a reference cycle, renamed attributes)",
                            {"lane": "RECWARM/" + prop, "family": fam["name"], "options": kw, "warm_up_calls": steps, "probe": what[:400], "observed": xa[1][:400]})
                break
        for (what, xa), (_w, xb) in zip(pa, pb):
            if xa != xb:
                case = {"lane": "RECWARM/" + prop, "family": fam["name"], "options": kw, "warm_up_calls": steps, "probe": what[:400],
                        "after_warm_up": xa, "fresh_converter": xb}
                if known_f35(fam, xa, xb):
                    v.finding("F35", "TypedDict hooks cut reference cycles with a runtime-class dispatch: the entry point of the first use decides where subclass instances below a TypedDict key keep their own attributes", case)
                else:
                    v.violation("a converter warmed through another entry point of a reference cycle answers differently from a fresh converter", case)
                break
    v.coverage["recwarm_battery"] = hist


_SUB_ATTRS = re.compile(r", '(extra|more)': \d+")


def known_f35(fam, xa, xb):
    """F35 (open): a family with a TypedDict on the cycle; both sides accept and differ only in the subclass attributes they emit."""
    return ("TypedDict" in fam["name"] and xa[0] == "ok" and xb[0] == "ok" and _SUB_ATTRS.sub("", xa[1]) == _SUB_ATTRS.sub("", xb[1]))


# ---------------------------------------------------------------------------------- C19: forced first-use schedules

class Parker:
    """parks thread 0 inside the generation of its k-th class hook (at the marker attribute), lets thread 1 run its whole
    request, then releases thread 0"""

    def __init__(self, conv, k):
        import threading
        self.k, self.calls = k, 0
        self.parked, self.release = threading.Event(), threading.Event()
        self.threading = threading

        def factory(t):
            if self.threading.current_thread().name == "rw-0":
                self.calls += 1
                if self.calls == self.k:
                    self.parked.set()
                    self.release.wait(20)
            return lambda v: "mk"
        conv.register_unstructure_hook_factory(lambda t: t is RMk, factory)


def check_recwarm_threads(v: Verdict, n_cases: int):
    """C19: two threads first-use two entry points of a reference cycle on one shared converter, thread 0 parked mid-generation
    while thread 1 runs; afterwards every probe must come out as on a converter that did the same two calls sequentially"""
    import threading
    from cattrs import Converter
    rng = random.Random(v.seed * 49979687 + 19)
    hist = {"schedules": 0, "families": {}, "probes": 0, "parked": 0}
    fams = families()
    plans = [(fi, e0, e1, k) for fi, f in enumerate(fams) for e0 in f["entries"][:4] for e1 in f["entries"][:4] for k in (1, 2, 3)]
    rng.shuffle(plans)
    for fi, e0, e1, k in plans[:n_cases]:
        fam = fams[fi]
        kw = options(rng)
        shared, seq = Converter(**kw), Converter(**kw)
        if fam.get("setup"):
            fam["setup"](shared)
            fam["setup"](seq)
        pk = Parker(shared, k)
        seq.register_unstructure_hook_factory(lambda t: t is RMk, lambda t: (lambda v_: "mk"))
        errs = [None, None]

        def body(tid, T):
            try:
                shared.unstructure(copy.deepcopy(fam["warm_values"][T]), unstructure_as=T)
            except BaseException as e:      # noqa
                errs[tid] = type(e).__name__
        t0 = threading.Thread(target=body, args=(0, e0), name="rw-0", daemon=True)
        t1 = threading.Thread(target=body, args=(1, e1), name="rw-1", daemon=True)
        t0.start()
        was_parked = pk.parked.wait(2.0)
        t1.start()
        t1.join(20)
        pk.release.set()
        t0.join(20)
        hist["schedules"] += 1
        hist["parked"] += 1 if was_parked else 0
        hist["families"][fam["name"]] = hist["families"].get(fam["name"], 0) + 1
        seq_errs = [None, None]
        for tid, T in ((0, e0), (1, e1)):
            try:
                seq.unstructure(copy.deepcopy(fam["warm_values"][T]), unstructure_as=T)
            except BaseException as e:      # noqa
                seq_errs[tid] = type(e).__name__
        desc = {"lane": "RECWARM/C19", "family": fam["name"], "options": kw,
                "schedule": f"thread 0 first-uses {e0} and is parked inside its {k}. class-hook generation; thread 1 first-uses {e1} and runs to completion; thread 0 resumes"}
        v.count(repr(("recwarm-thr", fam["name"], sorted(kw.items()), str(e0), str(e1), k)), True)
        if errs != seq_errs:
            v.violation("a thread raised an error the sequential execution does not raise", {**desc, "threads": errs, "sequential": seq_errs})
            continue
        pa, pb = probe(shared, fam), probe(seq, fam)
        hist["probes"] += len(pa)
        for (what, xa) in pa:
            if what.startswith("round trip of") and xa[0] != "ok":
                v.violation("after a concurrent first use a value does not come back from its unstructured form (union inside a reference cycle, renamed attributes)",
                            {**desc, "probe": what[:400], "observed": xa[1][:400]})
                break
        for (what, xa), (_w, xb) in zip(pa, pb):
            if xa != xb:
                case = {**desc, "probe": what[:400], "shared_converter_after_the_schedule": xa, "sequential": xb}
                if known_f35(fam, xa, xb):
                    v.finding("F35", "TypedDict hooks cut reference cycles with a runtime-class dispatch: the schedule decides where subclass instances below a TypedDict key keep their own attributes", case)
                else:
                    v.violation("calls on a shared converter return something else after a concurrent first use than after the same calls made sequentially", case)
                break
    v.coverage["recwarm_thread_schedules"] = hist
