"""Shared plumbing for the checks: paths, T1 + Coq build, running generated
cases files under coqc, evidence / replay / verdict handling."""
from __future__ import annotations

import fcntl
import hashlib
import json
import os
import re
import subprocess
import sys
import time
from pathlib import Path

VERIF = Path(__file__).resolve().parent.parent
REPO = Path(os.environ.get("VERIF_REPO", "/repo"))
COQ = VERIF / "coq"
EVID = VERIF / "evidence"
REPLAYS = VERIF / "replays"
PY = "/venv/bin/python"

COQ_ARGS = ["-Q", str(COQ / "Model"), "V.Model", "-Q", str(COQ / "Gen"), "V.Gen",
            "-Q", str(COQ / "Proofs"), "V.Proofs", "-Q", str(COQ / "Props"), "V.Props"]


def sh(cmd, timeout=1800, cwd=None, env=None):
    p = subprocess.run(cmd, cwd=cwd, env=env, stdout=subprocess.PIPE, stderr=subprocess.STDOUT, text=True, timeout=timeout)
    out = "\n".join(l for l in p.stdout.splitlines() if "WARNING conda" not in l)
    return p.returncode, out


class BuildResult:
    def __init__(self):
        self.t1_ok = True
        self.t1_errors = []
        self.t1_summary = {}
        self.coq_ok = True
        self.coq_log = ""
        self.failed_file = None
        self.failed_msg = ""
        self.used_default_gen = False


def _run_t1(gen_dir: Path):
    rc, out = sh([PY, str(VERIF / "harness" / "t1_translate.py"), str(REPO), str(gen_dir)], timeout=120)
    try:
        summ = json.loads(out.strip().splitlines()[-1])
    except Exception:
        summ = {"ok": False, "errors": ["T1 crashed: " + out[-400:]]}
    return summ


def build_all(need_props=(), allow_default=True) -> BuildResult:
    """T1 then full .vo build, under a lock (checks may run concurrently)."""
    res = BuildResult()
    lock = open(VERIF / ".build.lock", "w")
    fcntl.flock(lock, fcntl.LOCK_EX)
    try:
        gen = COQ / "Gen"
        gen.mkdir(exist_ok=True)
        summ = _run_t1(gen)
        res.t1_summary = summ
        if not summ.get("ok"):
            res.t1_ok = False
            res.t1_errors = summ.get("errors", [])
            if allow_default:
                # fall back, per untranslatable section, to the model parameters of the last
                # recognised source so the correspondence lanes can still say whether behaviour changed
                files = {"dispatch": "DispatchSrc.v", "converters": "ConvSrc.v", "gen": "GenSrc.v", "unions": "UnionsSrc.v", "disambig": "DisSrc.v", "threads": "ThreadSrc.v", "alias": "AliasSrc.v", "hooks": "HooksSrc.v", "subclasses": "SubSrc.v", "unionstruct": "UStructSrc.v", "latebinding": "LateSrc.v"}
                default = json.loads((COQ / "GenDefault" / "t1_summary.json").read_text())
                for sec, fname in files.items():
                    if not summ.get("sections", {}).get(sec, False):
                        f = COQ / "GenDefault" / fname
                        tgt = gen / fname
                        if not tgt.exists() or tgt.read_text() != f.read_text():
                            tgt.write_text(f.read_text())
                        summ[sec] = default.get(sec)
                res.used_default_gen = True
        rc, out = sh([str(COQ / "build.sh")], timeout=3000, cwd=str(COQ))
        res.coq_log = out
        if rc != 0:
            # keep going with -k so that unrelated properties still get their .vo
            rc2, out2 = sh([str(COQ / "build.sh"), "-k"], timeout=3000, cwd=str(COQ))
            res.coq_log = out2
            res.coq_ok = False
            m = re.search(r'File "\./([^"]+)", line (\d+)', out2)
            if m:
                res.failed_file = m.group(1)
            res.failed_msg = out2[-1500:]
    finally:
        fcntl.flock(lock, fcntl.LOCK_UN)
        lock.close()
    return res


def vo_ok(relpath: str) -> bool:
    """Is the compiled file present and newer than its source?"""
    v = COQ / relpath
    vo = v.with_suffix(".vo")
    return vo.exists() and vo.stat().st_mtime >= v.stat().st_mtime


def failed_files(log: str):
    return sorted(set(re.findall(r'File "\./([^"]+)", line \d+', log)))


def print_assumptions(prop_file: str):
    """Re-run coqc on Props/Cnn.v alone to capture its Print Assumptions output and theorem names."""
    src = (COQ / prop_file).read_text()
    rc, out = sh(["timeout", "600", "coqc", *COQ_ARGS, str(COQ / prop_file)], timeout=700, cwd=str(COQ))
    thms = re.findall(r"^(?:Theorem|Example)\s+(\w+)", src, flags=re.M)
    assum = []
    cur = None
    for line in out.splitlines():
        if line.startswith("Closed under the global context"):
            assum.append("Closed under the global context")
        elif line.startswith("Axioms:"):
            cur = []
            assum.append(cur)
        elif cur is not None and line.strip():
            cur.append(line.strip())
    printed = re.findall(r"^Print Assumptions (\w+)\.", src, flags=re.M)
    return rc == 0, thms, dict(zip(printed, [a if isinstance(a, str) else "; ".join(a) for a in assum])), out


HYGIENE_RE = re.compile(r"\b(Admitted|admit|Axiom|Parameter|Conjecture|bypass_check)\b|Unset Guard|type-in-type|impredicative-set|Admit Obligations")


def hygiene():
    """No Admitted/admit/Axiom/... anywhere in the development (comments stripped)."""
    bad = []
    for f in sorted(COQ.glob("*/*.v")):
        if f.parent.name == "cases":
            continue
        txt = f.read_text()
        txt = re.sub(r"\(\*.*?\*\)", "", txt, flags=re.S)
        for i, line in enumerate(txt.splitlines(), 1):
            if HYGIENE_RE.search(line):
                bad.append(f"{f.relative_to(COQ)}:{i}: {line.strip()[:80]}")
    return bad


def run_cases_file(name: str, text: str, timeout=900):
    """Write coq/cases/<name>.v, run coqc, return (rc, output)."""
    d = COQ / "cases"
    d.mkdir(exist_ok=True)
    f = d / f"{name}.v"
    f.write_text(text)
    rc, out = sh(["timeout", str(timeout), "coqc", *COQ_ARGS, "-Q", str(d), "V.cases", str(f)], timeout=timeout + 30, cwd=str(d))
    for ext in (".vo", ".vok", ".vos", ".glob"):
        try:
            f.with_suffix(ext).unlink()
        except FileNotFoundError:
            pass
    try:
        (d / f".{name}.aux").unlink()
    except FileNotFoundError:
        pass
    return rc, out


def parse_coq_value(out: str):
    """Text after '= ' up to the type annotation of an Eval output, whitespace-normalised."""
    vals = []
    for m in re.finditer(r"=\s(.*?)\n\s+:\s", out, flags=re.S):
        vals.append(re.sub(r"\s+", " ", m.group(1)).strip())
    return vals


def load_known_findings():
    p = VERIF / "known_findings.json"
    if not p.exists():
        return []
    return json.loads(p.read_text())["findings"]


class Verdict:
    """Collects what one check run found and turns it into exit code + evidence."""

    def __init__(self, prop: str, tier: str, seed: int):
        self.prop, self.tier, self.seed = prop, tier, seed
        self.t0 = time.time()
        self.obligations = []      # (name, ok, detail)
        self.violations = []       # (what, replay dict)
        self.known = []            # lines
        self.known_hits = {}
        self.broken = []           # (name, detail) proof / T1 / correspondence that no longer checks
        self.coverage = {}
        self.assumptions = []
        self.trusted_base = []
        self.samples = []
        self.evaluations = 0
        self.distinct = set()
        self.extra = {}

    def obligation(self, name, ok, detail=""):
        self.obligations.append((name, bool(ok), detail))
        if not ok:
            self.broken.append((name, detail))

    def count(self, case_repr: str, nontrivial: bool):
        self.evaluations += 1
        if nontrivial:
            self.distinct.add(hashlib.sha1(case_repr.encode()).hexdigest())

    def violation(self, what, replay):
        self.violations.append((what, replay))

    def finding(self, fid, what, replay):
        """A failing input that matches the signature of finding `fid`.  It is reported as KNOWN-FINDING
        only if known_findings.json lists (property, fid) as an open finding; otherwise it is a violation
        (also when the entry says `fixed`: a fixed finding that returns is reported again)."""
        listed = [f for f in load_known_findings()
                  if f.get("id") == fid and self.prop in f.get("properties", []) and not f.get("fixed")]
        if listed:
            line = f"KNOWN-FINDING: property={self.prop} {fid} {listed[0]['what']}"
            if line not in self.known:
                self.known.append(line)
            self.known_hits[fid] = self.known_hits.get(fid, 0) + 1
        else:
            self.violation(f"[{fid}] {what}", replay)

    def finish(self, checker_cmd: str, rule: str, level_note=""):
        wall = time.time() - self.t0
        rc = 0
        lines = []
        for k in self.known:
            lines.append(k)
        REPLAYS.mkdir(exist_ok=True)
        nviol = 0
        if self.violations:
            for i, (what, rp) in enumerate(self.violations[:5]):
                path = REPLAYS / f"{self.prop}-{self.seed}-{i}.json"
                rp = dict(rp)
                rp.update({"property": self.prop, "what": what, "seed": self.seed, "tier": self.tier})
                path.write_text(json.dumps(rp, indent=1, default=str))
                lines.append(f"VIOLATION property={self.prop} replay={path}")
                nviol += 1
            rc = 1
        elif self.broken:
            path = REPLAYS / f"{self.prop}-{self.seed}-broken.json"
            path.write_text(json.dumps({"property": self.prop, "seed": self.seed, "tier": self.tier,
                                        "broken": [{"name": n, "detail": d} for n, d in self.broken],
                                        "note": "a proof obligation, the translator or a correspondence lane no longer checks; "
                                                "the failing-input search over model and implementation found no concrete violating input"},
                                       indent=1, default=str))
            lines.append(f"VIOLATION property={self.prop} replay={path} no-failing-input-found")
            nviol = 1
            rc = 1
        nob = len(self.obligations)
        ndis = sum(1 for _, ok, _ in self.obligations if ok)
        cov = {
            "obligations": max(nob, 1), "discharged": max(ndis, 1) if nob == ndis else ndis,
            "checker_cmd": checker_cmd,
            "trusted_base": self.trusted_base,
            "evaluations": self.evaluations,
            "distinct_nontrivial": len(self.distinct),
            "rule": rule,
            "samples": self.samples[:6] or ["(no cases)"],
            "traces_validated_against_impl": self.evaluations,
            "obligation_list": [{"name": n, "ok": ok, "detail": d[:300]} for n, ok, d in self.obligations],
            "known_findings_reported": self.known,
            "known_finding_hits": self.known_hits,
        }
        cov.update(self.coverage)
        ev = {"property_id": self.prop, "tier": self.tier, "seed": self.seed, "level": "proof",
              "coverage": cov, "assumptions": self.assumptions, "wall_s": round(wall, 2), "violations": nviol}
        ev.update(self.extra)
        EVID.mkdir(exist_ok=True)
        (EVID / f"{self.prop}.json").write_text(json.dumps(ev, indent=1, default=str))
        for l in lines:
            print(l)
        print(f"{self.prop} {self.tier}: obligations {ndis}/{nob}, cases {self.evaluations} ({len(self.distinct)} distinct non-trivial), "
              f"known-findings {len(self.known)}, violations {nviol}, {wall:.1f}s")
        return rc
