"""COPYOPT battery (C18 C10 C03 C16; no model): converter.copy(**changed_options) must behave like a converter constructed with
the resulting options that received the same registrations -- also when the original was USED before the copy (generated hooks
and the direct-dispatch table hold the original's options), when hooks are registered on the copy afterwards, and at
Annotated / NewType / collection / union positions whose hooks are produced by factories bound to a converter.

For C18 every difference counts.  For C10 only probes that carry extra keys are judged (the copy's forbid_extra_keys is the one
that must be honoured, at every depth); for C03 only unstructure probes (the encoding is a function of the copy's strategy,
omit_if_default and collection overrides); for C16 the same through the preconfigured converters' copies (dumps / loads)."""
from __future__ import annotations

import copy
import dataclasses
import random
from collections.abc import Set as AbstractSet
from typing import Annotated, Dict, FrozenSet, List, NewType, Optional, Tuple, Union

import attrs

from common import Verdict


@attrs.define
class CA:
    a: int
    b: str = "x"


@dataclasses.dataclass
class CD:
    d: int = 0
    ca: Optional[CA] = None


@attrs.define
class CE:
    e: float = 0.5


NCA = NewType("NCA", CA)


@attrs.define
class CHolder:
    plain: CA
    ann: Annotated[CA, "m"]
    lst: List[CA] = attrs.Factory(list)
    ann_lst: Annotated[List[CA], "m"] = attrs.Factory(list)
    mp: Dict[str, CA] = attrs.Factory(dict)
    opt: Optional[CD] = None
    tup: Tuple[CA, int] = attrs.Factory(lambda: (CA(0), 0))
    st: FrozenSet[int] = frozenset()
    ann_st: Annotated[FrozenSet[int], "m"] = frozenset()
    nt: NCA = attrs.Factory(lambda: CA(9))
    un: Union[CA, CE] = attrs.Factory(CE)


TYPES = [("CA", CA), ("Annotated[CA, 'm']", Annotated[CA, "m"]), ("List[CA]", List[CA]), ("Annotated[List[CA], 'm']", Annotated[List[CA], "m"]),
         ("Dict[str, CA]", Dict[str, CA]), ("Dict[str, List[CA]]", Dict[str, List[CA]]), ("Optional[CD]", Optional[CD]), ("Tuple[CA, int]", Tuple[CA, int]), ("Tuple[CA, ...]", Tuple[CA, ...]),
         ("FrozenSet[int]", FrozenSet[int]), ("Annotated[FrozenSet[int], 'm']", Annotated[FrozenSet[int], "m"]), ("NCA", NCA),
         ("Union[CA, CE]", Union[CA, CE]), ("CD", CD), ("CHolder", CHolder), ("List[CHolder]", List[CHolder]), ("int", int), ("List[int]", List[int])]


def values():
    a, a2 = CA(1), CA(2, "z")
    h = CHolder(a, a2, [a, a2], [a], {"k": a2}, CD(3, a), (a, 4), frozenset({3, 1, 2}), frozenset({9, 8}), a2, a)
    return {"CA": [a, a2], "Annotated[CA, 'm']": [a, a2], "List[CA]": [[a, a2]], "Annotated[List[CA], 'm']": [[a2, a]], "Dict[str, CA]": [{"k": a}],
            "Dict[str, List[CA]]": [{"k": [a, a2]}], "Optional[CD]": [CD(1, a2), None], "Tuple[CA, int]": [(a, 5)], "Tuple[CA, ...]": [(a, a2)], "FrozenSet[int]": [frozenset({3, 1, 2})],
            "Annotated[FrozenSet[int], 'm']": [frozenset({3, 1, 2})], "NCA": [a2], "Union[CA, CE]": [a, CE(1.5)], "CD": [CD(1, a)], "CHolder": [h], "List[CHolder]": [[h]],
            "int": [5], "List[int]": [[1, 2]]}


def payloads():
    pa = [{"a": 1}, {"a": 2, "b": "z"}, {"a": 1, "extra": 0}, {"a": "7"}, {"b": "q"}, (1, "t"), [2]]
    hold = lambda p: {"plain": p, "ann": p, "lst": [p], "ann_lst": [p], "mp": {"k": p}, "opt": {"d": 1, "ca": p}, "tup": [p, 1], "st": [1], "ann_st": [2], "nt": p,     # noqa
                      "un": p if isinstance(p, dict) else {"a": 1}}
    return {"CA": pa, "Annotated[CA, 'm']": pa, "List[CA]": [[p] for p in pa], "Annotated[List[CA], 'm']": [[p] for p in pa], "Dict[str, CA]": [{"k": p} for p in pa],
            "Dict[str, List[CA]]": [{"k": [p]} for p in pa], "Optional[CD]": [{"d": 1, "ca": p} for p in pa] + [None, {"d": 1, "zz": 2}, (1, None)], "Tuple[CA, int]": [[p, 1] for p in pa], "Tuple[CA, ...]": [[p] for p in pa],
            "FrozenSet[int]": [[1, 2], ["3"]], "Annotated[FrozenSet[int], 'm']": [[1, 2], ["3"]], "NCA": pa, "Union[CA, CE]": [{"a": 1}, {"e": 2.5}, {"a": 1, "extra": 0}, {"e": 1.0, "extra": 1}],
            "CD": [{"d": 1, "ca": p} for p in pa[:3]] + [{"d": 1, "extra": 1}], "CHolder": [hold(p) for p in pa], "List[CHolder]": [[hold(p)] for p in pa[:3]],
            "int": [5, "6"], "List[int]": [[1, "2"]]}


def has_extra(o):
    if isinstance(o, dict):
        return any(k in ("extra", "zz") for k in o) or any(has_extra(x) for x in o.values())
    if isinstance(o, (list, tuple)):
        return any(has_extra(x) for x in o)
    return False


def outcome(f):
    try:
        return ("ok", repr(f()))
    except RecursionError:
        raise
    except BaseException as e:        # noqa
        return ("err", type(e).__name__)


def probes(conv, base_conv):
    out = []
    V, P = values(), payloads()
    for label, T in TYPES:
        if base_conv and ("Annotated" in label or label in ("NCA", "Tuple[CA, int]", "CHolder", "List[CHolder]")):
            continue        # outside BaseConverter's documented support
        for x in V[label]:
            out.append(("unstructure", label, repr(x), False, outcome(lambda: conv.unstructure(copy.deepcopy(x), unstructure_as=T))))
        for o in P[label]:
            out.append(("structure", label, repr(o), has_extra(o), outcome(lambda: conv.structure(copy.deepcopy(o), T))))
    return out


def registrations(rng):
    from cattrs.gen import make_dict_structure_fn, make_dict_unstructure_fn, override
    R = [("register_unstructure_hook(CA, f)", lambda c: c.register_unstructure_hook(CA, lambda x: {"a": x.a + 100, "b": x.b})),
         ("register_structure_hook(CA, f)", lambda c: c.register_structure_hook(CA, lambda o, _: CA(o["a"] + 100))),
         ("register_unstructure_hook(int, f)", lambda c: c.register_unstructure_hook(int, lambda x: x + 1000)),
         ("register_structure_hook(int, f)", lambda c: c.register_structure_hook(int, lambda o, _: int(o) + 1000)),
         ("register_unstructure_hook(bytes, f)", lambda c: c.register_unstructure_hook(bytes, lambda x: "bytes!")),
         ("register_structure_hook(str, f)", lambda c: c.register_structure_hook(str, lambda o, _: str(o) + "!")),
         ("register_unstructure_hook_func(t is CE, f)", lambda c: c.register_unstructure_hook_func(lambda t: t is CE, lambda x: {"e": x.e * 2})),
         ("register_structure_hook_factory(t is CD, factory(t, conv))",
          lambda c: c.register_structure_hook_factory(lambda t: t is CD, lambda t, conv: make_dict_structure_fn(t, conv, d=override(rename="dee")))),
         ("register_unstructure_hook_factory(t is CD, factory(t, conv))",
          lambda c: c.register_unstructure_hook_factory(lambda t: t is CD, lambda t, conv: make_dict_unstructure_fn(t, conv, d=override(rename="dee")))),
         ("register_unstructure_hook_func(t is Annotated[CA, 'm'], f)",
          lambda c: c.register_unstructure_hook_func(lambda t: t == Annotated[CA, "m"], lambda x: {"annotated": x.a})),
         ]
    return rng.sample(R, rng.randint(0, 3))


def gen_options(rng, full):
    from cattrs import UnstructureStrategy
    kw = {}
    if rng.random() < 0.5:
        kw["unstruct_strat"] = rng.choice([UnstructureStrategy.AS_DICT, UnstructureStrategy.AS_TUPLE])
    if rng.random() < 0.5:
        kw["detailed_validation"] = rng.random() < 0.5
    if rng.random() < 0.3:
        kw["prefer_attrib_converters"] = rng.random() < 0.5
    if full:
        if rng.random() < 0.5:
            kw["forbid_extra_keys"] = rng.random() < 0.5
        if rng.random() < 0.4:
            kw["omit_if_default"] = rng.random() < 0.5
        if rng.random() < 0.4:
            kw["unstruct_collection_overrides"] = rng.choice([{}, {AbstractSet: sorted}, {list: tuple}, {AbstractSet: list, tuple: list}])
    return kw


def copyopt_battery(v: Verdict, prop: str, n_cases: int):
    from cattrs import BaseConverter, Converter
    rng = random.Random(v.seed * 67867967 + sum(map(ord, prop)) + 3)
    hist = {"cases": 0, "converter": {"Converter": 0, "BaseConverter": 0}, "changed_options": {}, "warmed_before_copy": 0, "registered_before": 0,
            "registered_after": 0, "probes": 0, "judged": 0, "copies_of_copies": 0}
    for ci in range(n_cases):
        full = rng.random() < 0.8
        cls = Converter if full else BaseConverter
        opts0, changes = gen_options(rng, full), gen_options(rng, full)
        if prop == "C10" and full:
            changes["forbid_extra_keys"] = not opts0.get("forbid_extra_keys", False)
        if prop == "C03" and full and not changes:
            changes = {"omit_if_default": True}
        c0 = cls(**opts0)
        r0, r1 = registrations(rng), registrations(rng)
        for _n, f in r0:
            f(c0)
        warmed = rng.random() < 0.7
        steps = [f"{cls.__name__}({opts0})"] + ["register: " + n for n, _ in r0]
        if warmed:
            hist["warmed_before_copy"] += 1
            P, V = payloads(), values()
            for label, T in rng.sample(TYPES, rng.randint(2, 8)):
                if not full and ("Annotated" in label or label in ("NCA", "Tuple[CA, int]", "CHolder", "List[CHolder]")):
                    continue
                steps.append(f"use: {label}")
                outcome(lambda: c0.unstructure(copy.deepcopy(V[label][0]), unstructure_as=T))
                outcome(lambda: c0.structure(copy.deepcopy(P[label][0]), T))
        c1 = c0.copy(**changes)
        steps.append(f"copy({changes})")
        final = {**opts0, **changes}
        if rng.random() < 0.25:
            more = gen_options(rng, full)
            c1 = c1.copy(**more)
            final.update(more)
            steps.append(f"copy({more})")
            hist["copies_of_copies"] += 1
        for _n, f in r1:
            f(c1)
        steps += ["register on the copy: " + n for n, _ in r1]
        fresh = cls(**final)
        for _n, f in r0 + r1:
            f(fresh)
        hist["cases"] += 1
        hist["converter"][cls.__name__] += 1
        hist["registered_before"] += len(r0)
        hist["registered_after"] += len(r1)
        for k in changes:
            hist["changed_options"][k] = hist["changed_options"].get(k, 0) + 1
        v.count(repr(("copyopt", ci, steps)), True)
        pa, pb = probes(c1, not full), probes(fresh, not full)
        hist["probes"] += len(pa)
        for (op, label, arg, extra, xa), (_o, _l, _a, _e, xb) in zip(pa, pb):
            if prop == "C10" and not extra:
                continue
            if prop == "C03" and op != "unstructure":
                continue
            hist["judged"] += 1
            if xa != xb:
                what = {"C18": "a copied converter behaves differently from a converter constructed with the resulting options and the same registrations",
                        "C10": "forbid_extra_keys of a copied converter is not the one honoured for a payload with extra keys",
                        "C03": "the unstructured form produced by a copied converter is not the encoding its own options prescribe"}.get(prop, "copy differs")
                v.violation(what, {"battery": "COPYOPT", "steps": steps, "resulting_options": repr(final), "probe": f"{op}({arg}, {label})", "copy": xa, "fresh": xb})
                break
    v.coverage["copyopt_battery"] = hist


# ---------------------------------------------------------------------------------- C16: copies of preconfigured converters

def preconf_copy_battery(v: Verdict, formats: dict, n_cases: int):
    """a copy of a preconfigured converter (possibly used before, possibly with hooks registered on the copy) must dump and load
    like a freshly made converter of that format with the same registrations: user hooks honoured for attrs classes and
    dataclasses alike, also at Annotated / collection positions"""
    rng = random.Random(v.seed * 70001 + 1616)
    hist = {"cases": 0, "formats": {}, "probes": 0, "registered_on_copy": 0, "used_before_copy": 0}
    V = values()
    labels = ["CA", "Annotated[CA, 'm']", "List[CA]", "Annotated[List[CA], 'm']", "Dict[str, CA]", "Optional[CD]", "CD", "CHolder", "Tuple[CA, ...]", "NCA"]
    T = dict(TYPES)
    hooks = [("register_unstructure_hook(CA, f)", lambda c: c.register_unstructure_hook(CA, lambda x: {"a": x.a + 100, "b": x.b})),
             ("register_structure_hook(CA, f)", lambda c: c.register_structure_hook(CA, lambda o, _: CA(o["a"] - 100, o.get("b", "x")))),
             ("register_unstructure_hook(CD, f)", lambda c: c.register_unstructure_hook(CD, lambda x: {"d": x.d + 7})),
             ("register_structure_hook(CD, f)", lambda c: c.register_structure_hook(CD, lambda o, _: CD(o["d"] - 7))),
             ("register_unstructure_hook(int, f)", lambda c: c.register_unstructure_hook(int, lambda x: x + 1000)),
             ("register_structure_hook(int, f)", lambda c: c.register_structure_hook(int, lambda o, _: int(o) - 1000))]
    for ci in range(n_cases):
        fname = rng.choice(sorted(formats))
        m = formats[fname]
        c0, fresh = m.make_converter(), m.make_converter()
        steps = [f"{fname}.make_converter()"]
        if rng.random() < 0.6:
            hist["used_before_copy"] += 1
            for label in rng.sample(labels, rng.randint(1, 4)):
                steps.append("use: " + label)
                outcome(lambda: c0.loads(c0.dumps(copy.deepcopy(V[label][0]), unstructure_as=T[label]), T[label]))
        c1 = c0.copy()
        steps.append("copy()")
        regs = rng.sample(hooks, rng.randint(1, 3))
        for n, f in regs:
            f(c1)
            f(fresh)
            steps.append("register on the copy: " + n)
        hist["registered_on_copy"] += len(regs)
        hist["cases"] += 1
        hist["formats"][fname] = hist["formats"].get(fname, 0) + 1
        v.count(repr(("preconf-copy", ci, steps)), True)
        for label in labels:
            for x in V[label]:
                hist["probes"] += 1
                ra = outcome(lambda: c1.dumps(copy.deepcopy(x), unstructure_as=T[label]))
                rb = outcome(lambda: fresh.dumps(copy.deepcopy(x), unstructure_as=T[label]))
                if ra != rb:
                    v.violation("a copy of a preconfigured converter does not dump like a freshly made one with the same user hooks (hooks registered on the copy are not honoured)",
                                {"battery": "COPYOPT/preconf", "steps": steps, "probe": f"dumps({x!r}, {label})", "copy": ra, "fresh": rb})
                    break
                if ra[0] == "ok":
                    try:
                        data = c1.dumps(copy.deepcopy(x), unstructure_as=T[label])
                    except Exception:      # noqa
                        continue
                    la, lb = outcome(lambda: c1.loads(data, T[label])), outcome(lambda: fresh.loads(data, T[label]))
                    if la != lb:
                        v.violation("a copy of a preconfigured converter does not load like a freshly made one with the same user hooks",
                                    {"battery": "COPYOPT/preconf", "steps": steps, "probe": f"loads({data!r}, {label})", "copy": la, "fresh": lb})
                        break
            else:
                continue
            break
    v.coverage["preconf_copy_battery"] = hist


# ---------------------------------------------------------------------------------- C06 / C18: copy() and the options read by both engines

def copy_engine_battery(v: Verdict, prop: str):
    """systematic: every combination of (option value of the source, value passed to copy(): not passed / True / False) for the options
    BOTH engines read -- prefer_attrib_converters, detailed_validation -- and both converter classes: the copy must behave like a
    converter constructed with the resulting options, and a Converter copy like a BaseConverter copy (C06), on a class whose attribute
    has a field converter AND a registered hook for its type (so that prefer_attrib_converters decides what the converter receives)."""
    import itertools
    from cattrs import BaseConverter, Converter
    R = attrs.make_class("CER", {"value": attrs.field(type=int, converter=lambda x: ("K", x)), "n": attrs.field(type=int, default=0)})
    hist = {"cases": 0}

    def setup(c):
        c.register_structure_hook(int, lambda val, _t: ("H", val))
        return c

    def observe(c):
        try:
            r = c.structure({"value": 5, "n": 1}, R)
            return ("ok", repr(r.value))
        except Exception as e:      # noqa
            return ("err", type(e).__name__)
    for prefer0, prefer1, dv0, dv1 in itertools.product((False, True), (None, False, True), (False, True), (None, False, True)):
        final = {"prefer_attrib_converters": prefer0 if prefer1 is None else prefer1, "detailed_validation": dv0 if dv1 is None else dv1}
        changes = {k: val for k, val in (("prefer_attrib_converters", prefer1), ("detailed_validation", dv1)) if val is not None}
        res = {}
        for cls in (Converter, BaseConverter):
            src = setup(cls(prefer_attrib_converters=prefer0, detailed_validation=dv0))
            for via in ("copy()", "copy of a used converter"):
                if via != "copy()":
                    observe(src)
                cp = src.copy(**changes)
                fresh = setup(cls(**final))
                hist["cases"] += 1
                desc = {"battery": "COPY-ENGINE", "converter": cls.__name__, "source_options": {"prefer_attrib_converters": prefer0, "detailed_validation": dv0},
                        "steps": [f"{cls.__name__}(prefer_attrib_converters={prefer0}, detailed_validation={dv0})", "register_structure_hook(int, H)"] + (["structure(payload, CER)"] if via != "copy()" else []) + [f"copy({changes})"],
                        "class": "CER(value: int = field(converter=K), n: int = 0)", "payload": "{'value': 5, 'n': 1}"}
                v.count(repr(("copyengine", prop, desc)), True)
                a, b = observe(cp), observe(fresh)
                res[(cls.__name__, via)] = a
                if a != b:
                    v.violation({"C06": "a copied converter does not treat field converters like a converter constructed with the resulting options",
                                 "C18": "a copied converter behaves differently from a converter constructed with the resulting options and the same registrations"}.get(prop, "copy differs"),
                                {**desc, "resulting_options": final, "copy": a, "constructed": b})
        if prop == "C06":
            for via in ("copy()", "copy of a used converter"):
                if res.get(("Converter", via)) != res.get(("BaseConverter", via)):
                    v.violation("Converter and BaseConverter disagree on acceptance or on the instance",
                                {"battery": "COPY-ENGINE", "source_options": {"prefer_attrib_converters": prefer0, "detailed_validation": dv0}, "copy_arguments": changes, "via": via,
                                 "class": "CER(value: int = field(converter=K), n: int = 0)", "payload": "{'value': 5, 'n': 1}",
                                 "converter_copy": res.get(("Converter", via)), "base_converter_copy": res.get(("BaseConverter", via))})
    v.coverage["copy_engine_battery"] = hist
