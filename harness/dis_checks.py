"""DIS lane: automatic union disambiguation (C12)."""
from __future__ import annotations

import dataclasses
import json
import os
import random
import re
import subprocess
import sys
from typing import Literal, Union

import attrs

from cattrs import BaseConverter, Converter
from common import PY, Verdict, parse_coq_value, run_cases_file
from lane_tpl import Interner, cN, c_bool, c_list

NAMES = ["a", "b", "c", "d", "e", "x", "y"]
LITVALS = ["p", "q", "r", 1, 2]


def gen_classes(rng, n):
    """specs: list of (kind, [(name, required, init, literal values or None)])"""
    specs = []
    for i in range(n):
        kind = rng.choice(["attrs", "attrs", "dataclass"])
        k = rng.randint(1, 4)
        names = rng.sample(NAMES, k)
        fields = []
        seen_default = False
        for nm in names:
            required = rng.random() < 0.7
            init = not (rng.random() < 0.12)
            lit = None
            if rng.random() < 0.2:
                lit = rng.sample(LITVALS, rng.randint(1, 2))
            fields.append([nm, required, init, lit])
        # a shared literal discriminator now and then
        specs.append((kind, fields))
    if rng.random() < 0.3:
        vals = LITVALS[:]
        rng.shuffle(vals)
        for i, (kind, fields) in enumerate(specs):
            fields[:] = [f for f in fields if f[0] != "kind"]
            own = [vals[i % len(vals)]] if rng.random() < 0.8 else [vals[0]]
            fields.insert(0, ["kind", True, True, own])
    # required before defaulted (class definition rule): order them
    for kind, fields in specs:
        fields.sort(key=lambda f: (not f[1]) if f[2] else False)
    return specs


def build(spec, idx):
    kind, fields = spec
    name = f"D{idx}"
    if kind == "attrs":
        d = {}
        for nm, required, init, lit in fields:
            kw = {"init": init, "type": (Literal[tuple(lit)] if lit else int)}
            if not required:
                dv_ = (lit[0] if lit else 0)
                # a third of the defaults are factories (attrs.Factory / dataclasses default_factory): still "has a default"
                kw["default"] = attrs.Factory(lambda dv_=dv_: dv_) if (idx + ord(nm[0])) % 3 == 0 else dv_
            elif not init:
                pass
            d[nm] = attrs.field(**kw)
        # attrs refuses mandatory after default among init attributes: make offenders kw_only
        seen = False
        for nm, required, init, lit in fields:
            if not init:
                continue
            if not required:
                seen = True
            elif seen:
                d[nm] = attrs.field(init=True, kw_only=True, type=(Literal[tuple(lit)] if lit else int))
        return attrs.make_class(name, d)
    fl = []
    seen = False
    for nm, required, init, lit in fields:
        kw = {"init": init}
        if not required:
            dv_ = (lit[0] if lit else 0)
            if (idx + ord(nm[0])) % 3 == 0:
                kw["default_factory"] = (lambda dv_=dv_: dv_)
            else:
                kw["default"] = dv_
            if init:
                seen = True
        elif init and seen:
            kw["kw_only"] = True
        fl.append((nm, (Literal[tuple(lit)] if lit else int), dataclasses.field(**kw)))
    return dataclasses.make_dataclass(name, fl)


def instance(rng, cl, spec):
    kw = {}
    for nm, required, init, lit in spec[1]:
        if not init:
            continue
        if required or rng.random() < 0.5:
            kw[nm] = (rng.choice(lit) if lit else rng.randrange(1, 30))
    x = cl(**kw)
    for nm, required, init, lit in spec[1]:
        if not init and not hasattr(x, nm):
            try:
                object.__setattr__(x, nm, (lit[0] if lit else 7))
            except Exception:
                pass
    return x


def outcome_signature(seed, n_unions):
    """Everything the lane observes for one PRNG seed (also used in subprocesses with other PYTHONHASHSEEDs)."""
    rng = random.Random(seed)
    sig = []
    for ui in range(n_unions):
        specs = gen_classes(rng, rng.randint(2, 5))
        classes = [build(s, i) for i, s in enumerate(specs)]
        with_none = rng.random() < 0.15
        insts = [[instance(rng, c, s) for _ in range(2)] for c, s in zip(classes, specs)]
        orders = [list(range(len(classes)))[i:] + list(range(len(classes)))[:i] for i in range(len(classes))]
        for _ in range(2):
            p = list(range(len(classes)))
            rng.shuffle(p)
            orders.append(p)
        full = rng.random() < 0.7
        per_order = []
        for order in orders:
            conv = (Converter if full else BaseConverter)()
            rec = (Converter if full else BaseConverter)()
            for c in classes:
                # recording member hooks: which class does the disambiguator hand the payload to?
                rec.register_structure_hook(c, lambda val, t: ("REC", t))
            u = Union[tuple([classes[i] for i in order] + ([type(None)] if with_none else []))]
            try:
                rec.get_structure_hook(u)
                conv.get_structure_hook(u)
                created = True
            except Exception as e:
                created = False
            res = []
            if created:
                has_noinit = any(not f[2] for _, fs in specs for f in fs)
                for ci, xs in enumerate(insts):
                    for xi, x in enumerate(xs):
                        for variant in ("full", "minimal"):
                            payload = conv.unstructure(x)
                            if variant == "minimal":
                                # the same instance as a payload that leaves out the keys of attributes with defaults (what omit_if_default
                                # writes, what any client may send): a valid payload of the member, only when the instance holds the defaults
                                opt = [f[0] for f in specs[ci][1] if not f[1] and f[2] and f[0] in payload and payload[f[0]] == (f[3][0] if f[3] else 0)]
                                if not opt:
                                    continue
                                payload = {k: val for k, val in payload.items() if k not in opt}
                            try:
                                r = rec.structure(payload, u)
                                chosen = classes.index(r[1]) if isinstance(r, tuple) and r[1] in classes else -1
                            except Exception as e:
                                res.append((ci, xi, variant, None, type(e).__name__))
                                continue
                            same = True
                            if full or not has_noinit:
                                # the real round trip (BaseConverter cannot round-trip init=False attributes at all: outside C12)
                                try:
                                    back = conv.structure(payload, u)
                                    same = type(back) is type(x) and all(getattr(back, f[0]) == getattr(x, f[0]) for f in specs[ci][1] if f[2])
                                except Exception as e:
                                    same = f"real round trip raised {type(e).__name__}"
                            res.append((ci, xi, variant, chosen, same))
            per_order.append((order, created, res))
        sig.append({"specs": specs, "full": full, "with_none": with_none, "orders": per_order,
                    "payload_keys": [[sorted(((Converter if full else BaseConverter)().unstructure(x)).keys()) for x in xs] for xs in insts],
                    "payload_vals": [[{k: v for k, v in ((Converter if full else BaseConverter)().unstructure(x)).items()} for x in xs] for xs in insts]})
    return sig


def check_c12(v: Verdict, t1_summary, n_unions, hash_seeds):
    skip = bool((t1_summary.get("disambig") or {}).get("skip_noninit", True))
    fac_flag = bool((t1_summary.get("disambig") or {}).get("factory_is_default", True))
    intern = Interner()
    sig = outcome_signature(v.seed * 7919 + 12, n_unions)
    cases, meta = [], []
    hist = {"unions": 0, "orders": 0, "creation_ok": 0, "creation_refused": 0, "roundtrips": 0, "wrong_class": 0, "literal_discriminator_unions": 0,
            "with_init_false": 0, "with_none": 0, "f23_hits": 0, "hash_seeds_compared": 0, "minimal_payloads": 0}
    c12_rename_battery(v, hist)
    c12_inheritance_battery(v, hist)
    for ui, u in enumerate(sig):
        specs = u["specs"]
        hist["unions"] += 1
        hist["with_none"] += u["with_none"]
        hist["with_init_false"] += any(not f[2] for _, fs in specs for f in fs)
        hist["literal_discriminator_unions"] += all(any(f[3] for f in fs) for _, fs in specs)

        def coq_class(i):
            # the class as the SOURCE sees it (Model/DisambigSrc.v): a default is a value or a factory; attrs keeps both in `default`,
            # a dataclass field declared with default_factory leaves `default` unset -- read through the flag T1 found in the source
            kind, fs = specs[i]

            def fac(nm):
                return kind == "dataclass" and (i + ord(nm[0])) % 3 == 0          # (the rule `build` uses for factory defaults)
            return "(read_class %s {| sc_id := %s; sc_fields := %s |})" % (c_bool(fac_flag), cN(i + 1), c_list(
                "{| sf_name := %s; sf_default_value := %s; sf_default_factory := %s; sf_init := %s; sf_lit := %s |}" % (
                    cN(intern(nm)), c_bool((not req) and not fac(nm)), c_bool((not req) and fac(nm)), c_bool(init),
                    "None" if lit is None else "(Some %s)" % c_list(cN(intern(("v", x))) for x in lit)) for nm, req, init, lit in fs))
        created_by_order = {}
        for order, created, res in u["orders"]:
            hist["orders"] += 1
            hist["creation_ok" if created else "creation_refused"] += 1
            created_by_order[tuple(order)] = created
            classes_coq = c_list(coq_class(i) for i in order)
            cases.append(f"Bool.eqb (is_ok (create_dis (fun l => l) {c_bool(skip)} true {classes_coq})) {c_bool(created)}")
            desc = {"classes": [f"D{i}{[(f[0], 'req' if f[1] else 'dflt', 'init' if f[2] else 'noinit', f[3]) for f in specs[i][1]]}" for i in order],
                    "converter": "Converter" if u["full"] else "BaseConverter"}
            meta.append({**desc, "check": "creation", "observed": created})
            v.count(repr((ui, order)), len(order) >= 2)
            for (ci, xi, variant, got, eq) in res:
                hist["roundtrips"] += 1
                hist["minimal_payloads"] += variant == "minimal"
                vals = dict(u["payload_vals"][ci][xi])
                if variant == "minimal":
                    for f in specs[ci][1]:
                        if not f[1] and f[2] and f[0] in vals and vals[f[0]] == (f[3][0] if f[3] else 0):
                            del vals[f[0]]
                keys = sorted(vals.keys())
                if got is None:
                    # structuring raised: allowed ("refuses instead of guessing"), but the model must agree
                    obs = "None"
                else:
                    obs = f"(Some {got + 1}%N)" if got >= 0 else "None"
                    if got != ci:
                        hist["wrong_class"] += 1
                        v.violation("automatic disambiguation structured a member's payload as another class",
                                    {"lane": "DIS/C12", **desc, "instance_of": f"D{ci}", "payload": vals, "structured_as": f"D{got}"})
                    elif eq is not True:
                        v.violation("union round trip returned an unequal instance", {"lane": "DIS/C12", **desc, "instance_of": f"D{ci}", "payload": vals})
                value_of = "(fun k => " + " ".join(
                    f"if N.eqb k {cN(intern(kk))} then Some {cN(intern(('v', vv)))} else" for kk, vv in vals.items() if not isinstance(vv, (dict, list))) + " None)"
                cases.append("ropt_eqb (resolve 6 (fun l => l) %s true %s %s %s) %s" % (
                    c_bool(skip), classes_coq, c_list(cN(intern(kk)) for kk in keys), value_of, obs))
                meta.append({**desc, "check": "resolve", "instance_of": f"D{ci}", "payload": vals, "payload_variant": variant, "observed": got})
        if len(set(created_by_order.values())) > 1:
            hist["f23_hits"] += 1
            v.finding("F23", "success of automatic disambiguation depends on the order of the union's members",
                      {"lane": "DIS/C12", "classes": [f"D{i}{[(f[0], 'req' if f[1] else 'dflt') for f in specs[i][1]]}" for i in range(len(specs))],
                       "orders": {str(k): val for k, val in created_by_order.items()}})
        if len(v.samples) < 3:
            v.samples.append({"classes": [f"D{i}{specs[i][1]}" for i in range(len(specs))]})
    # the same battery under other hash seeds must give the same observations
    me = json.dumps([[o for o in u["orders"]] for u in sig], sort_keys=True, default=str)
    for hs in hash_seeds:
        env = dict(os.environ, PYTHONHASHSEED=str(hs))
        p = subprocess.run([PY, __file__, str(v.seed * 7919 + 12), str(n_unions)], env=env, stdout=subprocess.PIPE, stderr=subprocess.PIPE, text=True)
        hist["hash_seeds_compared"] += 1
        other = p.stdout.strip().splitlines()[-1] if p.stdout.strip() else ""
        if other != me:
            diff = "outputs differ"
            try:
                a, b = json.loads(me), json.loads(other)
                for ui, (x, y) in enumerate(zip(a, b)):
                    if x != y:
                        diff = {"union": ui, "seed0": x, f"seed{hs}": y}
                        break
            except Exception:
                diff = (p.stderr or other)[-400:]
            v.violation("outcome of automatic disambiguation depends on PYTHONHASHSEED", {"lane": "DIS/C12", "hash_seed": hs, "difference": diff})
    pre = ("From V.Model Require Import Base Disambig DisambigSrc.\n"
           "Definition ropt_eqb (a : result N) (b : option N) : bool := match a, b with Ok x, Some y => N.eqb x y | Err _, None => true | _, _ => false end.\n")
    bad = []
    shard = 300
    for k in range(0, len(cases), shard):
        src = (pre + "Definition cs : list bool := [\n" + ";\n".join(cases[k:k + shard]) + "\n].\n"
               "Fixpoint bad (k : nat) (l : list bool) : list nat := match l with [] => [] | b :: r => if b then bad (S k) r else k :: bad (S k) r end.\n"
               "Eval vm_compute in (bad 0 cs).\n")
        rc, out = run_cases_file(f"c12_{v.seed}_{k}", src)
        vals = parse_coq_value(out)
        if rc != 0 or not vals:
            v.obligation("correspondence:DIS/C12:coqc", False, out[-700:])
            return
        if vals[-1] != "[]":
            bad += [k + int(x) for x in re.findall(r"\d+", vals[-1])]
    v.obligation("correspondence:DIS/C12 (model: hook creation succeeds / which class a payload resolves to = implementation)", not bad,
                 "" if not bad else f"{len(bad)} of {len(cases)} disagree, first: {meta[bad[0]]}")
    v.coverage["input_distribution"] = hist


if __name__ == "__main__":
    sys.path.insert(0, os.environ.get("VERIF_REPO", "/repo") + "/src")
    s = outcome_signature(int(sys.argv[1]), int(sys.argv[2]))
    print(json.dumps([[o for o in u["orders"]] for u in s], sort_keys=True, default=str))


def c12_rename_battery(v: Verdict, hist):
    """systematic (no randomness): unions whose members have DIFFERENT numbers of attributes and whose registered structure hooks
    carry override(rename=...) on the discriminating attribute (the default disambiguator reads the renames off the members'
    hooks): every member order; a payload that is a member's own unstructured form must come back as that member (never as
    another class), whenever the union hook could be created"""
    import itertools
    import attrs
    from typing import Union
    from cattrs import Converter
    from cattrs.gen import make_dict_structure_fn, make_dict_unstructure_fn, override

    def mk(name, fields):
        return attrs.make_class(name, {n: (attrs.field(type=int) if d is None else attrs.field(type=int, default=d)) for n, d in fields})
    worlds = [
        ("small class + bigger class whose first attribute travels under the small class's second name",
         [("RA", [("p", None), ("q", None)], {}), ("RB", [("p", None), ("r", 0), ("s", 0)], {"p": "q"})]),
        ("bigger class renamed, listed after a smaller one",
         [("RA", [("x", None)], {}), ("RB", [("y", None), ("z", 0), ("w", 0)], {"y": "why"})]),
        ("three sizes, two renamed",
         [("RA", [("a1", None)], {}), ("RB", [("b1", None), ("b2", 0)], {"b1": "bee"}), ("RC", [("c1", None), ("c2", 0), ("c3", 0)], {"c1": "cee"})]),
        ("renamed onto another member's optional attribute name",
         [("RA", [("k", None), ("opt", 0), ("more", 0)], {}), ("RB", [("j", None)], {"j": "jay"}), ("RC", [("m", None), ("opt", 0)], {"m": "em"})]),
    ]
    n = 0
    for wname, specs in worlds:
        classes = [(mk(nm, fs), fs, ren) for nm, fs, ren in specs]
        for order in itertools.permutations(range(len(classes))):
            for dv in (True, False):
                conv = Converter(detailed_validation=dv)
                for cl, _fs, ren in classes:
                    if ren:
                        ov = {k: override(rename=r) for k, r in ren.items()}
                        conv.register_structure_hook(cl, make_dict_structure_fn(cl, conv, **ov))
                        conv.register_unstructure_hook(cl, make_dict_unstructure_fn(cl, conv, **ov))
                U = Union[tuple(classes[i][0] for i in order)]
                desc = {"lane": "DIS/C12 rename battery", "world": wname, "member_order": [classes[i][0].__name__ for i in order],
                        "renames": {classes[i][0].__name__: classes[i][2] for i in order if classes[i][2]}, "detailed_validation": dv}
                try:
                    conv.get_structure_hook(U)
                except Exception:
                    continue          # (whether creation succeeds may depend on the member order: finding F23)
                for cl, fs, _ren in classes:
                    for full in (False, True):
                        kw = {nm: 3 + j for j, (nm, d) in enumerate(fs) if d is None or full}
                        inst = cl(**kw)
                        n += 1
                        v.count(repr((desc, repr(inst))), True)
                        raw = conv.unstructure(inst)
                        try:
                            res = conv.structure(dict(raw), U)
                        except Exception as e:
                            v.violation("a member's own unstructured form is rejected by the union (renamed discriminating attribute)",
                                        {**desc, "instance": repr(inst), "payload": raw, "raised": repr(e)[:300]})
                            continue
                        if type(res) is not cl or res != inst:
                            v.violation("disambiguation structured a payload as another class than the one it was unstructured from (renamed discriminating attribute)",
                                        {**desc, "instance": repr(inst), "payload": raw, "structured": repr(res)})
    hist["rename_battery_roundtrips"] = n


def c12_inheritance_battery(v: Verdict, hist):
    """systematic: members related by INHERITANCE (a subclass overriding the Literal discriminator of its parent, or adding attributes),
    dataclasses and attrs classes, every member order, and two-step histories (the parent takes part in one union, the child in a later
    one -- on the same and on another converter; anything a helper caches per class is shared by every converter of the process).
    Fresh class objects per scenario.  A member's own payload must resolve to that member or be refused, never to another class."""
    import itertools
    from typing import Literal

    def make(kind):
        if kind == "dataclass":
            Event = dataclasses.make_dataclass("IEvent", [("kind", Literal["event"]), ("id", int)])
            Click = dataclasses.make_dataclass("IClick", [("kind", Literal["click"]), ("x", int, dataclasses.field(default=0))], bases=(Event,))
            Tap = dataclasses.make_dataclass("ITap", [("kind", Literal["click", "tap"]), ("id", int)])
            Base = dataclasses.make_dataclass("IBase", [("a", int)])
            Child = dataclasses.make_dataclass("IChild", [("b", int)], bases=(Base,))
            Other = dataclasses.make_dataclass("IOther", [("c", int)])
        else:
            Event = attrs.make_class("IEvent", {"kind": attrs.field(type=Literal["event"]), "id": attrs.field(type=int)})
            Click = attrs.make_class("IClick", {"kind": attrs.field(type=Literal["click"]), "x": attrs.field(type=int, default=0)}, bases=(Event,))
            Tap = attrs.make_class("ITap", {"kind": attrs.field(type=Literal["click", "tap"]), "id": attrs.field(type=int)})
            Base = attrs.make_class("IBase", {"a": attrs.field(type=int)})
            Child = attrs.make_class("IChild", {"b": attrs.field(type=int)}, bases=(Base,))
            Other = attrs.make_class("IOther", {"c": attrs.field(type=int)})
        lit = {"members": [Event, Click, Tap], "instances": lambda: [Event("event", 1), Click("click", 2, 3), Tap("tap", 4)]}
        uniq = {"members": [Base, Child, Other], "instances": lambda: [Child(1, 2), Other(3)]}
        return lit, uniq
    n = 0
    for kind in ("dataclass", "attrs"):
        for which in (0, 1):
            for perm in itertools.permutations(range(3)):
                for history in ("none", "parent first, same converter", "parent first, another converter"):
                    fam = make(kind)[which]
                    members = fam["members"]
                    conv = Converter()
                    if history != "none":
                        pre = conv if history.endswith("same converter") else Converter()
                        try:
                            pre.get_structure_hook(Union[members[0], members[2]])
                        except Exception:      # noqa
                            pass
                    U = Union[tuple(members[i] for i in perm)]
                    desc = {"lane": "DIS/C12 inheritance battery", "class_kind": kind, "family": "Literal discriminator overridden by a subclass" if which == 0 else "subclass adds an attribute",
                            "member_order": [members[i].__name__ for i in perm], "history": history}
                    try:
                        conv.get_structure_hook(U)
                    except Exception:      # noqa
                        continue
                    for inst in fam["instances"]():
                        n += 1
                        v.count(repr((desc, repr(inst))), True)
                        payload = conv.unstructure(inst)
                        try:
                            back = conv.structure(payload, U)
                        except Exception:      # noqa  (refusing is allowed)
                            continue
                        if type(back) is not type(inst):
                            v.violation("automatic disambiguation structured a member's payload as another class",
                                        {**desc, "instance": repr(inst), "payload": payload, "structured_as": repr(back)})
    hist["inheritance_battery_checks"] = n
