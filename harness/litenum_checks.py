"""LITENUM battery (C01 C02 C03; no model): Literal types that contain Enum members (converters.py _structure_enum_literal,
literals.py, the literal-with-enums unstructure hooks), with LOOK-ALIKE arguments: members of different mixin enums that are ==
and hash alike (IntEnum / str-mixin), plain values equal to a member's value, 1 / True.  Several such literals are used one
after the other on the same converter and on further converters of the same process (state kept between calls -- caches keyed
by something that is equal but not the same -- shows as a member of the wrong class).

C02: whatever structure returns for Literal[a1, ..., an] IS one of the arguments (the same member; for plain values equal and of
the same class).  C01: a member comes back as itself from its unstructured form.  C03: the unstructured form is the member's
value (a primitive)."""
from __future__ import annotations

import enum
import random
from typing import Dict, List, Literal, Optional

import attrs

from common import Verdict


class Low(enum.IntEnum):
    ONE = 1
    TWO = 2


class High(enum.IntEnum):
    ONE = 1
    TWO = 2


class SLow(str, enum.Enum):
    A = "a"
    B = "b"


class SHigh(str, enum.Enum):
    A = "a"
    B = "b"


class Plain(enum.Enum):
    P = 1
    Q = "a"


ARGS = [Low.ONE, Low.TWO, High.ONE, High.TWO, SLow.A, SLow.B, SHigh.A, SHigh.B, Plain.P, Plain.Q, 1, 2, True, "a", "b", None]


def payload_of(a):
    return a.value if isinstance(a, enum.Enum) else a


def is_arg(r, args):
    for a in args:
        if isinstance(a, enum.Enum):
            if r is a:
                return True
        elif type(r) is type(a) and r == a:
            return True
    return False


def gen_literal(rng):
    k = rng.choice([1, 1, 2, 2, 3])
    args = tuple(rng.sample(ARGS, k))
    if not any(isinstance(a, enum.Enum) for a in args):
        args = args + (rng.choice(ARGS[:10]),)
    return Literal[args]        # noqa


def positions(L, rng):
    Holder = attrs.make_class("Holder", {"x": attrs.field(type=L), "y": attrs.field(type=int, default=0)})
    return [("T", L, lambda v: v, lambda r: r), ("List[T]", List[L], lambda v: [v], lambda r: r[0]),
            ("Dict[str, T]", Dict[str, L], lambda v: {"k": v}, lambda r: r["k"]),
            ("Optional[T]", Optional[L], lambda v: v, lambda r: r),
            ("attribute x: T", Holder, lambda v: {"x": v}, lambda r: r.x)]


def litenum_battery(v: Verdict, prop: str, n_worlds: int):
    from cattrs import BaseConverter, Converter
    rng = random.Random(v.seed * 15487469 + sum(map(ord, prop)) + 11)
    hist = {"worlds": 0, "literals": 0, "structure_calls": 0, "unstructure_calls": 0, "accepted": 0, "rejected": 0, "positions": {}}
    for wi in range(n_worlds):
        hist["worlds"] += 1
        full = rng.random() < 0.7
        dv = rng.random() < 0.5
        conv = (Converter if full else BaseConverter)(detailed_validation=dv)
        lits = [gen_literal(rng) for _ in range(rng.randint(2, 4))]
        # look-alike pairs on purpose: the same positions filled from the twin enum
        if rng.random() < 0.6:
            twin = {Low.ONE: High.ONE, Low.TWO: High.TWO, High.ONE: Low.ONE, High.TWO: Low.TWO, SLow.A: SHigh.A, SLow.B: SHigh.B, SHigh.A: SLow.A, SHigh.B: SLow.B}
            base = lits[0].__args__
            lits.insert(rng.randint(1, len(lits)), Literal[tuple(twin.get(a, a) for a in base)])        # noqa
        for L in lits:
            hist["literals"] += 1
            args = L.__args__
            pos = positions(L, rng)
            for label, T, wrap, unwrap in (rng.sample(pos, 2) if v.tier == "quick" else pos):
                hist["positions"][label] = hist["positions"].get(label, 0) + 1
                desc = {"battery": "LITENUM", "converter": type(conv).__name__, "detailed_validation": dv, "literal": repr(L), "position": label,
                        "literals_used_before_on_this_converter": [repr(x) for x in lits[:lits.index(L)]]}
                payloads = [payload_of(a) for a in args] + [rng.choice([3, "zz", 1.0, False])]
                for o in payloads:
                    if label == "Optional[T]" and o is None:
                        continue
                    hist["structure_calls"] += 1
                    v.count(repr(("litenum", wi, repr(L), label, repr(o))), True)
                    try:
                        r = unwrap(conv.structure(wrap(o), T))
                    except RecursionError:
                        raise
                    except BaseException:      # noqa
                        hist["rejected"] += 1
                        continue
                    hist["accepted"] += 1
                    if prop == "C02" and not is_arg(r, args):
                        v.violation("structure returned something that is not one of the arguments of the Literal (value not of the target type)",
                                    dict(desc, payload=repr(o), result=repr(r), result_class=type(r).__name__))
                if prop in ("C01", "C03") and full:
                    for a in args:
                        if label == "Optional[T]" and a is None:
                            continue
                        x = wrap(a) if label != "attribute x: T" else T(a)
                        hist["unstructure_calls"] += 1
                        try:
                            u = conv.unstructure(x, unstructure_as=T)
                        except RecursionError:
                            raise
                        except BaseException as e:      # noqa
                            v.violation("unstructure failed on a value of a Literal type with enum members", dict(desc, value=repr(a), raised=repr(e)[:200]))
                            continue
                        leaf = u["x"] if label == "attribute x: T" else unwrap(u)
                        if prop == "C03" and not (leaf is None or isinstance(leaf, (int, str, bool))):     # (mixin-enum members are instances of int / str: what unstructure gives for them anywhere)
                            v.violation("unstructured form of a Literal member is not a primitive (documented: enum members -> their values)",
                                        dict(desc, value=repr(a), unstructured=repr(u)))
                            continue
                        if prop == "C01":
                            # a literal listing two look-alike arguments cannot tell them apart on the way back: documented limit of Literal, skip those
                            same_payload = [b for b in args if payload_of(b) == payload_of(a) and b is not a]
                            if same_payload:
                                continue
                            try:
                                back = conv.structure(u, T)
                                rb = back.x if label == "attribute x: T" else unwrap(back)
                            except RecursionError:
                                raise
                            except BaseException as e:      # noqa
                                v.violation("round trip through a Literal with enum members raised", dict(desc, value=repr(a), unstructured=repr(u), raised=repr(e)[:200]))
                                continue
                            if not (rb is a or (not isinstance(a, enum.Enum) and type(rb) is type(a) and rb == a)):
                                v.violation("round trip through a Literal with enum members does not give back the value",
                                            dict(desc, value=repr(a), unstructured=repr(u), back=repr(rb), back_class=type(rb).__name__))
    v.coverage["litenum_battery"] = hist
