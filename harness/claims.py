"""Per-property claim texts for MANIFEST.json."""
TB = ("Trusted: Coq 8.16.1 kernel incl. vm_compute; translator T1 (harness/t1_translate.py); the Python correspondence harness and its generators; "
      "modelled-not-verified: Python object model, functools.singledispatch (first registered class in __mro__; ABC virtual subclasses out of scope), "
      "lru_cache (a map), user predicates and typing introspection (truth tables computed by calling the real functions). Print Assumptions: closed under the global context.")

CLAIMS = {
 "C07": {
  "text": "Theorem C07_precedence_documented (Props/C07.v): for the dispatch configuration and registration tables that translator T1 regenerates from dispatch.py/converters.py on every run, for EVERY world (MROs, predicate truth tables), converter class, options and EVERY finite sequence of public-API operations (registrations of all kinds interleaved with cached/uncached lookups), the hook found for any type in either direction is the documented 4-tier choice (most specific registered MRO class with latest registration; newest accepting predicate/factory/exact-type entry, factories receive the type and the converter iff they ask; born-with entries; fallback). Proved by induction over the operation list with a cache invariant; no bound on history length. Tie: T1 + differential DISP lane (model evaluated by vm_compute vs real converters on generated histories incl. nested positions); a Python re-implementation of the rule is the failing-input search.",
  "note": TB + " Nested occurrence of T inside list[T]/class fields is checked by the lane (observed through real structure/unstructure calls), not by a theorem.",
  "technique": "Coq proof (induction over operation histories, invariant) + AST translator + differential correspondence",
  "design_ref": "DESIGN.md 5/C07"},
 "C08": {
  "text": "Theorem C08_transparent_partial + C08_immediate (Props/C08.v): for the configuration regenerated from the source, on every converter and every operation sequence whose user factories do not plant a foreign hook in the direct table, every later lookup equals the lookup on the converter that received only the registrations (all interleavings of warming calls, unbounded). The invariant (cache and direct table are sub-graphs of the cache-free lookup) needs exactly the clears the source performs: removing one makes a named lemma of Proofs/SrcObligations.v fail. The unrestricted statement is refuted in Coq (C08_refuted_wrapping_factory = known finding F8) and replayed on the implementation. Tie: T1 + DISP lane in twin mode (warmed converter vs fresh replay) which is also the failing-input search.",
  "note": TB + " Hooks generated for composite types are observed through real calls (nested probes) rather than modelled.",
  "technique": "Coq proof (inductive invariant over interleavings) + AST translator + twin differential testing",
  "design_ref": "DESIGN.md 5/C08"},
 "C18": {
  "text": "Theorems C18_copy_is_replay and C18_options_forwarded (Props/C18.v): for the configuration regenerated from the source, for every converter, history and override map, the copy answers every lookup like a converter freshly built from the forwarded options that then received the original's registrations, and every construction option (fallback factories included) is forwarded. Unbounded in history; both classes. Isolation after the copy is vacuous in a functional model: it is decided by T1 (copy builds a new instance, containers rebuilt) plus the DISP lane in copy mode (diverging registrations, deepcopy, global converter untouched).",
  "note": TB + " Preconf subclasses are exercised only through copy() of Converter/BaseConverter in this lane.",
  "technique": "Coq proof (copy = replay of registrations) + AST translator + differential correspondence",
  "design_ref": "DESIGN.md 5/C18"},
}

NOT_APPLICABLE = {}
