"""Per-property claim texts for MANIFEST.json."""
TB = ("Trusted: Coq 8.16.1 kernel incl. vm_compute; translator T1 (harness/t1_translate.py); the Python correspondence harness and its generators; "
      "modelled-not-verified: Python object model, functools.singledispatch (first registered class in __mro__; ABC virtual subclasses out of scope), "
      "lru_cache (a map), user predicates and typing introspection (truth tables computed by calling the real functions). Print Assumptions: closed under the global context.")

CLAIMS = {
 "C07": {
  "text": "Theorem C07_precedence_documented (Props/C07.v): for the dispatch configuration and registration tables that translator T1 regenerates from dispatch.py/converters.py on every run, for EVERY world (MROs, predicate truth tables), converter class, options and EVERY finite sequence of public-API operations (registrations of all kinds interleaved with cached/uncached lookups), the hook found for any type in either direction is the documented 4-tier choice (most specific registered MRO class with latest registration; newest accepting predicate/factory/exact-type entry, factories receive the type and the converter iff they ask; born-with entries; fallback). Proved by induction over the operation list with a cache invariant; no bound on history length. Tie: T1 + differential DISP lane (model evaluated by vm_compute vs real converters on generated histories incl. nested positions); a Python re-implementation of the rule is the failing-input search.",
  "note": TB + " Nested occurrence of T inside list[T]/class fields is checked by the lane (observed through real structure/unstructure calls), not by a theorem.",
  "technique": "Coq proof (induction over operation histories, invariant) + AST translator + differential correspondence",
  "design_ref": "DESIGN.md 4/C07"},
 "C08": {
  "text": "Theorem C08_transparent_partial + C08_immediate (Props/C08.v): for the configuration regenerated from the source, on every converter and every operation sequence whose user factories do not plant a foreign hook in the direct table, every later lookup equals the lookup on the converter that received only the registrations (all interleavings of warming calls, unbounded). The invariant (cache and direct table are sub-graphs of the cache-free lookup) needs exactly the clears the source performs: removing one makes a named lemma of Proofs/SrcObligations.v fail. The unrestricted statement is refuted in Coq (C08_refuted_wrapping_factory = known finding F8) and replayed on the implementation. Tie: T1 + DISP lane in twin mode (warmed converter vs fresh replay) which is also the failing-input search.",
  "note": TB + " Hooks generated for composite types are observed through real calls (nested probes) rather than modelled.",
  "technique": "Coq proof (inductive invariant over interleavings) + AST translator + twin differential testing",
  "design_ref": "DESIGN.md 4/C08"},
 "C18": {
  "text": "Theorems C18_copy_is_replay and C18_options_forwarded (Props/C18.v): for the configuration regenerated from the source, for every converter, history and override map, the copy answers every lookup like a converter freshly built from the forwarded options that then received the original's registrations, and every construction option (fallback factories included) is forwarded. Unbounded in history; both classes. Isolation after the copy is vacuous in a functional model: it is decided by T1 (copy builds a new instance, containers rebuilt) plus the DISP lane in copy mode (diverging registrations, deepcopy, global converter untouched).",
  "note": TB + " Preconf subclasses are exercised only through copy() of Converter/BaseConverter in this lane.",
  "technique": "Coq proof (copy = replay of registrations) + AST translator + differential correspondence",
  "design_ref": "DESIGN.md 4/C18"},
}

TB_TPL = ("Trusted: Coq 8.16.1 kernel incl. vm_compute; translator T1 (template flags of gen/__init__.py); the Python TPL lane (class generator, tagging handlers, "
          "payload prober). Modelled-not-verified: attrs/dataclass __init__ (binding, defaults, converters: Templates.instantiate), the text->bytecode step of the generated "
          "source (checked only through SyntaxError outcomes), dict/`in`/`[]` semantics of payload objects (a payload is any record of the six operations the hooks use). "
          "Print Assumptions: closed under the global context.")

CLAIMS["C04"] = {
  "text": "Theorem C04_nested_modes_agree (Props/C04.v): for every environment of classes and enums, every type expression of the nested universe (Model/Conv.v), EVERY input and every fuel, the same "
          "converter class with detailed validation on and off both reject or both accept with the same result -- through every collection loop, heterogeneous tuples, mappings, Optional, NewType, "
          "Annotated and classes at any depth (forbid_extra_keys off; Proofs/ConvAgree.v). Theorem C04_templates_agree (Props/C04.v): for every payload value type, class definition (any number/order/mix of required, defaulted, factory, kw_only, init=False, aliased, converter attributes), generator options, overrides, per-attribute handlers and EVERY payload object (dict or junk, as a record of the operations the generated code performs), the detailed-validation template and the fast template both reject or both accept with attribute-wise equal instances; C04_generation: hook creation cannot fail in one mode only. Proved by showing both templates refine one order-free specification (Proofs/TemplatesProofs.v: detailed_refines_spec, fast_refines_spec; positional vs keyword binding of __init__ arguments by a permutation argument). Template flags (errors re-checked after instantiation, keyword arguments emitted last) are regenerated from gen/__init__.py by T1 on every run: reverting fix F1/F2 breaks the named obligations in Proofs/SrcObligationsGen.v. Tie: TPL lane (Templates.v evaluated by vm_compute vs the real make_dict_structure_fn hooks on generated classes x payloads, both modes); the pairwise comparison on the implementation is the failing-input search.",
  "note": TB_TPL + " TypedDict templates, set / deque / NamedTuple hooks outside the nested universe: lane and oracles only.",
  "technique": "Coq proof (refinement of both templates to one spec) + AST translator + differential correspondence",
  "design_ref": "DESIGN.md 4/C04"}
CLAIMS["C10"] = {
  "text": "Theorems of Props/C10.v over the class templates: C10_forbid_adds_only_the_extra_key_check (enabling the flag changes the specification both templates refine in exactly one way: payloads with a key outside the accepted key set -- computed after renames/aliases -- are rejected), C10_fast/detailed_error_names_exactly_the_extras (the error carries the class and exactly the unknown keys; in detailed mode as the last member of the class group), C10_extras_inert (flag off: extending a dict payload with keys outside the accepted set cannot change the outcome). All classes, option/override combinations, handlers and payloads; no bound. Tie: T1 + TPL lane with extra keys incl. original names of renamed attributes. Nesting depth, NamedTuple-from-dict and TypedDict are decided by direct oracles on the implementation; \"the tag key of a tagged union is not an extra\" by the tagged-union battery check_c10_tagged (a member's own dict + the tag, known / unknown / missing, + a known set of extra keys, at top level, inside List[U] and inside a class attribute: accepted iff no extras, and the error names exactly the extras, never the tag); known finding F4 (TypedDict keeps unknown keys) is reported as KNOWN-FINDING.",
  "note": TB_TPL + " TypedDict templates are not modelled yet: that part of the statement is checked by the oracle only.",
  "technique": "Coq proof over executable class-template model + AST translator + differential correspondence + direct oracle",
  "design_ref": "DESIGN.md 4/C10"}

CLAIMS["C09"] = {
  "text": "Theorems of Props/C09.v over the class templates, for every class definition, option/override combination with pairwise distinct final keys, instance and per-attribute handlers: C09_exact_key_set / C09_unstructure_total (the generated unstructure hook never fails and emits exactly the configured key set: final keys after rename/use_alias, omitted attributes absent, default-valued ones absent exactly when omit_if_default applies) and C09_roundtrip_detailed / C09_roundtrip_fast (the structure hook generated with the same customisation, in either validation mode, accepts that dict and restores every handled attribute, given inverse handlers, no field converters and defaults for omitted __init__ arguments). C09_generation_partial: attribute order cannot break generation (fix F1); key text can (open finding F3) -- that clause of the statement is refuted on the implementation and reported as KNOWN-FINDING, as is F22 (omit_if_default ignores field converters). Tie: T1 flags + TPL lane (un_gen evaluated by vm_compute vs real make_dict_unstructure_fn; round trip and key-set oracles on the implementation). TypedDict and NamedTuple customisation: direct oracles (finding F12 fixed).",
  "note": TB_TPL + " TypedDict templates (gen/typeddicts.py) and the NamedTuple pseudo-attributes are not modelled: oracle only.",
  "technique": "Coq proof (exact output of the unstructure template; round trip via the structure specification) + differential correspondence + direct oracle",
  "design_ref": "DESIGN.md 4/C09"}

CLAIMS["C20"] = {
  "text": "Theorems of Props/C20.v over Model/FieldConv.v (the handler choice of find_structure_handler at generation time and of _structure_attribute at call time): C20_generated_follows_rule and C20_interpretive_follows_rule (the structured value is K(hook(raw)) when a hook exists for T, K(raw) when the field is untyped or no hook can be found, always K(raw) under prefer_attrib_converters; fields without a converter unaffected), C20_agree_partial (Converter and BaseConverter agree) and C20_refuted_lazy (they do not for container hooks that fail lazily = known finding F15, reported as KNOWN-FINDING). The decision domain is finite, so the theorems are closed by complete case analysis, and the tie to the code is an EXHAUSTIVE correspondence run: every cell of the domain x class shapes x {Converter, BaseConverter} x validation mode x strategy is executed on the real library and compared with the model inside Coq on every run.",
  "note": "Trusted: Coq kernel; the correspondence harness. The model is hand-written (not generated from the AST): an edit to gen/_shared.py or converters.py _structure_attribute that changes a cell is caught by the exhaustive run, not by a broken proof.",
  "technique": "Coq proof by complete case analysis + exhaustive differential correspondence over the finite decision domain",
  "design_ref": "DESIGN.md 4/C20"}

CLAIMS["C15"] = {
  "text": "Theorems of Props/C15.v over Model/Passthrough.v (make_structure_native_union / contains_native_union): C15_rule (for every subclass relation, configured set S, union U of any size and order -- classes, NewTypes, literals, spill-over members -- and every value, the hook passes the value through unchanged exactly when its class is an accepted member of U (configured subclasses included) or it is a literal of U of the same class and value; otherwise it is handed to exactly the unhandled members, or rejected when there are none) and C15_order_independent (same outcome for every permutation of U's members, spill-over compared as a set). The literal check (class,value pairs -- fix F6) is regenerated from strategies/_unions.py by T1; with the unfixed check the model refutes the rule (C15_unpaired_refuted_lookalike) and proves it only for rectangular literal sets. Tie: T1 + PASS lane (model evaluated by vm_compute vs the real hook on generated unions x class sets x look-alike probe values, applicability predicate included); a Python re-implementation of the rule and the all-rotations comparison are the failing-input search.",
  "note": "Trusted: Coq kernel incl. vm_compute; T1; the PASS lane. Modelled-not-verified: Python == / hash of the probe values (equality classes are computed by the real dict), issubclass (oracle table), typing's normalisation of Union/Literal (the union is encoded from its real __args__).",
  "technique": "Coq proof (rule + permutation invariance) + AST translator + differential correspondence",
  "design_ref": "DESIGN.md 4/C15"}

CLAIMS["C13"] = {
  "text": "Theorems of Props/C13.v over Model/Tagged.v (configure_tagged_union over ABSTRACT member hooks, all four structure variants): C13_out (unstructuring as the union yields the member's own dict plus exactly one extra key, the tag), C13_in (with an injective tag generator that payload reaches the hook of the SAME member, with the tag removed from a copy under forbid_extra_keys -- so it is never an extra key -- or carried along otherwise), C13_missing_tag / C13_unknown_tag (default member when configured, KeyError otherwise), C13_members_untouched (Core A: registering the two exact-type hooks cannot change the lookup of any other type, for the dispatch configuration regenerated from the source). All unions, tag generators, tag names, defaults, payloads; no bound. Tie: T1 (routing, dispatch) + TAG lane: recording member hooks observe which member hook is called with which dict and the model is evaluated on the same configurations by vm_compute; the real generated hooks are the oracle (payload = member dict + tag, round trip returns an equal instance of the same class, default/unknown tag, member types unchanged before/after, argument never mutated).",
  "note": "Trusted: Coq kernel incl. vm_compute; T1; the TAG lane. The member hooks themselves are abstract in the theorems (their round trip is C01/C09's business); the dict strategy only (documented).",
  "technique": "Coq proof over abstract member hooks + Core A lemma + differential correspondence with recording hooks",
  "design_ref": "DESIGN.md 4/C13"}

CLAIMS["C12"] = {
  "text": "Theorems of Props/C12.v over Model/Disambig.v (create_default_dis_func transcribed step by step; every iteration over a Python set takes its order from an explicit, universally quantified argument = the hash seed): C12_keys_never_wrong (whenever the unique-required-key pass succeeds -- for ANY member order, ANY set-iteration order, any number of classes with arbitrarily overlapping attributes, defaults, init=False attributes and renames -- the payload of an instance of a member, i.e. any key set between the member's usable keys and its attribute names, resolves to that member and to no other; proved by an invariant over the greedy loop), C12_literal_bucket_contains_class (the bucket selected by an instance's Literal value contains its class), C12_refuses_second_fallback (a second member without usable unique key makes creation fail). Order independence of the RESULT follows from the quantification over all orders; order independence of SUCCESS is refuted in Coq and on the implementation (C12_success_order_dependent_refuted = known finding F23, KNOWN-FINDING). The init=False rule (fix F7) is regenerated from disambiguators.py by T1. Tie: T1 + DIS lane (creation success and the class each payload resolves to, model evaluated by vm_compute vs real converters with recording member hooks, all rotations + permutations); oracle = class of the real round trip; the whole battery is re-run in subprocesses under other PYTHONHASHSEEDs.",
  "note": "Trusted: Coq kernel incl. vm_compute; T1; the DIS lane. Modelled-not-verified: attrs/dataclass field introspection (adapted_fields, fields_dict), typing.Literal args, dict/set semantics. The best-discriminator selection among several Literal attributes is modelled but only the bucket property is proved.",
  "technique": "Coq proof (invariant over the greedy loop, all orders and set-iteration orders) + AST translator + differential correspondence + hash-seed sweep",
  "design_ref": "DESIGN.md 4/C12"}

CLAIMS["C19"] = {
  "text": "PARTIAL. Theorem C19_no_spurious_errors_partial (Props/C19.v) over Model/Threads.v: threads are stack machines running the hook generators (enter = check/insert the `already_generating` working set, one step per field reference through the caching or the non-caching lookup, leave = remove + cache), sharing the lru cache; for the working-set scope T1 reads off gen/_consts.py (threading.local), ANY number of threads, ANY class graph (deep, recursive, overlapping), ANY first-use requests and EVERY schedule, no thread ever gets the cycle-signalling RecursionError outside a generator that catches it -- proved by the per-thread invariant `working set = classes of the generators on this thread's stack`. C19_shared_working_set_refuted: with a shared working set the model exhibits the failure (non-vacuity). Tie: T1 + THR lane with FORCED schedules (a hook factory on a marker field type parks a thread mid-generation; 2-3 threads, cyclic and diamond graphs, random macro-step schedules), each structure-direction schedule run twice -- working set as in the source, and rebound by the harness to a shared object (what-if) -- and compared with the model under the matching scope, so the model's failure prediction itself is validated against the real generators; plus free-running stress against a sequential reference. What a theorem cannot reach and is assumed: CPython's GIL, atomicity of dict/set/lru_cache operations and attribute access, memory visibility.",
  "note": "Trusted: Coq kernel incl. vm_compute; T1 (threads section); the THR lane and its monkeypatch of `already_generating` in the five importing modules. Modelled-not-verified: everything about the runtime (GIL, container atomicity); results are compared at the level 'which requests completed / which thread failed', hooks being behaviourally independent of direct vs late binding.",
  "technique": "Coq proof (per-thread invariant over all schedules) + AST translator + forced-schedule differential testing incl. what-if shared scope",
  "design_ref": "DESIGN.md 4/C19"}

CLAIMS["C14"] = {
  "text": "PARTIAL (automatic variant proved; union-strategy variant decided by oracle). Theorem C14_automatic_exact_class (Props/C14.v) over Model/Subclasses.v + Model/Disambig.v: for ANY finite class tree (depth, branching, shared and own attributes, field-less and defaulted-only subclasses), any hash-dependent iteration orders (of the set of classes in _get_union_type and of attribute-name sets), whenever include_subclasses was accepted (a disambiguator exists at every node with subclasses), for every class K of the tree and every x that is K or a descendant, the hook registered for K hands the payload of an instance of x to x itself (<= 2 hops) -- a corollary of the C12 invariant proof applied at each node; the init=False rule is regenerated from the source by T1. Tie: T1 + SUB lane (random trees; the class every payload lands on, model evaluated by vm_compute vs the real converter). Oracle for BOTH strategies (automatic, tagged union; forbid on/off; explicit shuffled subclasses tuples): structure(unstructure(x, K), K) is equal to x and of x's exact class for every (K, x). Known finding F16 (leaf class + tagged strategy + forbid_extra_keys) is reported as KNOWN-FINDING.",
  "note": "Trusted: Coq kernel incl. vm_compute; T1; the SUB lane. Not modelled: the two-pass registration of the union-strategy variant, __subclasses__() discovery and the gc.collect() workaround, overrides. Acceptance of the automatic variant can depend on the hash-dependent member order (finding F23 of C12); such acceptance mismatches between model order and real order are counted in the evidence, not compared.",
  "technique": "Coq proof (corollary of the disambiguation invariant, all tree shapes) + differential correspondence + round-trip oracle for both strategies",
  "design_ref": "DESIGN.md 4/C14"}

CLAIMS["C17"] = {
  "text": "Theorems of Props/C17.v over Model/Generics.v (generate_mapping: TypeVar NAME -> argument; deep_copy_with: rewrite by NAME; the generators' resolve step) against substitution by TypeVar IDENTITY (the monomorphised copy): C17_annotations_monomorphised (for every parameter list with pairwise distinct names, every tuple of concrete arguments and every annotation -- parameter bare, inside containers, Optional, nested generics, Annotated inside a container, any depth -- cattrs' resolved annotation IS the monomorphised annotation) and C17_inherited_from_concrete_base (Child(Base[int])); by structural induction over type expressions with a custom induction principle. Where a hypothesis fails the model refutes the statement, and the refutation is replayed on the implementation (KNOWN-FINDINGs F14 TypeVar name reuse, F13 class named like a TypeVar, F25 annotation that IS Annotated[T,..], F26 base parametrised by the child's TypeVar). Tie: GEN lane -- the annotation the generator resolved for each attribute is read off the generated hook (its __c_type_* defaults) and compared with the model by vm_compute; the oracle builds the hand-substituted non-generic clone and compares unstructure, structure and structure-of-corrupted-payload results, with two parametrisations interleaved on one converter (no interference) and the unbound-parameter refusal.",
  "note": "Trusted: Coq kernel incl. vm_compute; the GEN lane (its own identity substitution on typing objects, the type encoder). Modelled-not-verified: typing's normalisation of subscripted generics (Optional flattening etc.), get_args/get_origin/copy_with. Not modelled (oracle only / not covered): generic TypedDicts, PEP 695 syntax, PEP 696 defaults, generic type aliases. The model is hand-written: an edit to _generics.py is caught by the per-attribute correspondence, not by a broken proof.",
  "technique": "Coq proof (structural induction over type expressions) + differential correspondence on resolved annotations + monomorphised-clone oracle",
  "design_ref": "DESIGN.md 4/C17"}

TB_CONV = ("Trusted: Coq 8.16.1 kernel incl. vm_compute; translator T1 (template flags of gen/__init__.py); the Python CONV lane (world / type / value / mutation generators, "
           "encoder of Python objects into model values, oracle tables computed by calling the real constructors). Modelled-not-verified: which born-with hook serves which "
           "type constructor (Model/Conv.v is hand-written from converters.py / cols.py / gen/__init__.py and tied to them by the correspondence run on every check, not generated), "
           "the primitive constructors int/float/str/bytes/bool, `in` / iter / len on atoms (oracle tables, hypotheses stated in the theorem), attrs/dataclass __init__ "
           "(Templates.instantiate), hashing and == of Python values (equality classes from a real dict). Print Assumptions: closed under the global context.")

CLAIMS["C02"] = {
  "text": "Theorem C02_structure_sound (Props/C02.v) over the nested executable model Model/Conv.v: for EVERY environment of classes and enums, every type expression of the modelled "
          "universe (Any, primitives, enums, literals, lists/sequences, homogeneous and heterogeneous tuples, sets, frozensets, mappings, Optional, classes incl. recursive ones, NewType, "
          "Annotated; arbitrary nesting), EVERY input value (no hypothesis on the input: valid, corrupted, junk), Converter and BaseConverter, both validation modes, BOTH strategies, forbid_extra_keys on/off "
          "and every amount of fuel: if structure returns v then v conforms to T at every depth (exact classes, conforming elements/keys/values/attributes, literal membership, exact tuple arity). "
          "Induction on the fuel; the class case is the class-level theorems C02_class_attributes_detailed/fast/interpretive (every attribute of an accepted instance is the default or what the "
          "attribute's OWN handler returned -- never another attribute's value or the raw input), proved for any class, options, overrides and payload object. C02_list_elementwise: accepted "
          "sequences are structured element by element (nothing dropped). Under the tuple strategy the theorem needs structure_attrs_fromtuple to pass keyword-only attributes by keyword (flag read off the source by T1, obligation "
          "src_tuple_passes_kw_only_by_keyword); C02_refuted_positional_tuple_strategy shows the positional variant unsound (finding F27, found by this check, repaired in /repo 93c67fb). Tie: T1 (template flags) + CONV lane (model = implementation on every generated case, incl. mutated payloads and junk) + direct oracles (an independent Python "
          "conformance checker on every returned value; a compositional check that every component of an accepted payload is itself accepted at its declared type with the result the container holds).",
  "note": TB_CONV + " Not in the model (oracle/lane only or not covered): TypedDict / NamedTuple / union / generic positions inside nested types (their class-level behaviour is C04/C09/C10/C12/C13/C17), "
          "deque, Counter, defaultdict, Final, type aliases, Path;",
  "technique": "Coq proof (induction on fuel over an executable nested model; class-level soundness of the four templates) + AST translator + differential correspondence + direct oracles",
  "design_ref": "DESIGN.md 4/C02"}

CLAIMS["C01"] = {
  "text": "Theorem C01_roundtrip (Props/C01.v) over the nested executable model Model/Conv.v: for EVERY environment of classes and enums, every type expression of the modelled universe "
          "(Any, primitives, enums, literals, lists/sequences, homogeneous and heterogeneous tuples, sets, frozensets, mappings, Optional, classes incl. recursive ones, NewType, Annotated; "
          "arbitrary nesting), EVERY value x of that type (rt_value: exact classes at every depth, Any positions hold None/atoms, hashable leaf types for set elements and mapping keys, every "
          "attribute set), the unstructuring Converter in either validation mode and the structuring converter of EITHER class in EITHER mode (so also Converter -> BaseConverter), under EITHER unstructure strategy (dict, or tuple with kw_only attributes passed back by keyword -- T1 flag + obligation src_tuple_passes_kw_only_by_keyword): if unstructure "
          "returns u then structure returns x itself (Leibniz equality: equal and of the same classes at every depth); C01_roundtrip_total: such a u exists. Same-fuel form, induction on the fuel; the class case is the class-level "
          "theorems C01_class_unstructure / C01_class_structure_back (both unstructure templates emit every attribute in order; the detailed, fast, interpretive-dict and interpretive-tuple templates give "
          "back the same instance), proved for any payload value type. Tie: T1 (template flags) + CONV lane (model = implementation on every generated case, all 8 configurations incl. the BaseConverter unstructuring side, which has no theorem) + the literal round-trip oracle on the implementation across converter classes + the CYCLE battery (oracle only): families of mutually recursive attrs / dataclass / NamedTuple / TypedDict classes, hooks generated from a random entry point of the cycle."
          "",
  "note": TB_CONV + " Theorem limited to: forbid_extra_keys off, Converter on the unstructuring side, both sides of the round trip using the same strategy, classes whose attributes are all __init__ arguments without field converters; "
          "totality is C01_roundtrip_total (for every value of the type there is an amount of fuel, linear in its size, for which unstructure returns and structure gives the value back). TypedDict / NamedTuple / unions / generics inside nested types: "
          "lane and oracle of their own properties only. Known findings touching C01: F27 (tuple strategy with kw_only / init=False attributes), F10 (BaseConverter with init=False attributes).",
  "technique": "Coq proof (same-fuel induction over an executable nested model; Leibniz round trip of the class templates) + AST translator + differential correspondence + direct oracle",
  "design_ref": "DESIGN.md 4/C01"}

CLAIMS["C03"] = {
  "text": "Theorem C03_output_is_primitive (Props/C03.v) over the nested executable model: for EVERY environment (enum values primitive), type expression of the modelled universe and value x of "
          "that type (uval: the announced container kinds and classes, environment classes at every depth -- also at Any-typed / untyped positions, encoded by runtime class), the Converter under the dict AND "
          "the tuple strategy: whatever unstructure returns is built only from dict, list, tuple, set, frozenset, None and atoms -- no instance, no enum member at any depth. Induction on the fuel; the class "
          "case is C03_class_values_generated / _interpretive (every value a class hook emits is what the attribute's handler returned), for any options and overrides. C03_equals_documented_encoding: the documentation written down as an inductive relation `encodes` (Model/ConvEnc.v: no fuel, no hooks, no templates) and, for every value of the type (rt_value), both strategies: what unstructure returns is related to (T, x) by `encodes` at every depth. Everything about BaseConverter is decided by the CONV lane (model = implementation) plus an independent Python encoder written from the documentation (classes -> dicts "
          "by field name / tuples in field order, enums -> values, sequences -> lists, hetero tuples -> tuples, sets -> sets, mappings -> dicts with unstructured keys, wrappers -> underlying, "
          "Any/untyped -> runtime class) compared on every case, plus the CYCLE battery for mutually recursive families incl. NamedTuples and TypedDicts (oracle only).",
  "note": TB_CONV + " No theorem for: BaseConverter (its collections dispatch on the runtime class of the elements), Path, protocols, union-typed positions, "
          "dict_factory / unstruct_collection_overrides settings (not modelled). BaseConverter has no unstructure hook for NewType / Annotated / heterogeneous tuples (the fallback returns the value unchanged): "
          "treated as outside BaseConverter's documented support, not generated for its oracle.",
  "technique": "Coq proof (induction on fuel over an executable nested model; class-level value provenance) + differential correspondence + independent encoder oracle",
  "design_ref": "DESIGN.md 4/C03"}

CLAIMS["C06"] = {
  "text": "Props/C06.v. C06_nested_classes_agree: for EVERY environment of classes (attributes all __init__ arguments) and enums, every type expression of the nested universe, every amount of fuel and "
          "EVERY input whose class positions hold mappings (shaped: at each class position the walk reaches the payload is a dict; no Annotated, which BaseConverter has no hook for), Converter in either "
          "validation mode and BaseConverter in either validation mode both reject the input or both accept it with the same result (induction on the fuel; every collecting loop is shown to compute a "
          "mode-independent specification; Proofs/ConvAgree.v). Class level, any payload value type, any per-attribute handlers, every dict payload: C06_interpretive_is_spec (structure_attrs_fromdict "
          "refines the specification of the generated templates), C06_class_agreement, C06_class_unstructure_agreement (same dict from both classes). C06_needs_mapping_shaped_inputs: the restriction "
          "to mapping-shaped inputs is necessary. PARTIAL for the unstructuring half below class level: 'the same unstructured data up to tuples -> lists' is decided by the CONV lane (the model of each "
          "class = that class, every case) and the pairwise oracle (same call on both classes; deep equality after listify).",
  "note": TB_CONV + " Theorem limited to forbid_extra_keys off and the dict strategy. prefer_attrib_converters / field converters: C20. init=False attributes are outside the common subset (F10); heterogeneous "
          "tuples (unstructuring), NewType over classes (unstructuring) and Annotated are outside BaseConverter's support.",
  "technique": "Coq proof (nested agreement by induction on fuel; mode-independent specifications of the loops; class-level refinement of one specification by all three templates) + differential correspondence + pairwise oracle",
  "design_ref": "DESIGN.md 4/C06"}

CLAIMS["C05"] = {
  "text": "Props/C05.v over the exception trees Model/Conv.v builds and Model/ConvErr.v's transform_error ([paths]); no hypothesis on the payload, so every number and placement of faults is covered. "
          "C05_sequence_group_is_exact: the iterable-level group of a collection holds EXACTLY one entry per element whose hook failed (that element's own error, annotated with its index, in order) "
          "and nothing for succeeding elements; C05_tuple_group_is_exact / C05_mapping_group_is_exact: the same for heterogeneous tuples and mappings (note = the entry's key); "
          "C05_class_group_is_exact: for any class, options, overrides, handlers and dict payload the class-level group holds exactly the attempted attributes whose handler or key lookup failed "
          "(note = attribute name, attribute order) followed by at most one un-annotated ForbiddenExtraKeysError naming exactly the unknown keys; C05_transform_is_compositional + C05_sequence_paths: "
          "transform_error is total and reports a leaf at its own path and, for a group, the paths of its annotated children below .name / [index] in order, then the un-annotated entries at its own "
          "path -- so the reported paths are exactly the failing components, at every depth. Tie: CONV/ERR lane -- the exception tree (group kinds, class ids, notes, order) and the transform_error "
          "paths of the implementation equal the model's on every faulted payload -- plus the direct oracle: inject k independent faults into a valid payload, demand exactly the k fault paths, "
          "class-level groups at class / TypedDict positions, iterable-level at collections, every note carrying the name / index / key and the declared type.",
  "note": TB_CONV + " The global statement ('exactly the k fault paths') is the composition of the per-loop exactness theorems with the equations of [paths]; it is not packaged as one theorem over a "
          "fault-injection relation. Leaf exception CLASSES and message texts are not modelled (format_exception); TypedDict positions are decided by the oracle only; set / frozenset / deque loops "
          "have the same shape as the sequence loop but no separate theorem.",
  "technique": "Coq proof (exact characterisation of every error-collecting loop + compositional transform_error) + differential correspondence of exception trees + fault-injection oracle",
  "design_ref": "DESIGN.md 4/C05"}


CLAIMS["C11"] = {
  "text": "Props/C11.v over Model/Alias.v (a store of mutable dicts addressed by object id; a hook that edits a working dict by an ARBITRARY sequence of res[k]=v / del res[k] / res.pop(k) / "
          "res.pop(k, None) edits, stopped wherever one raises; the working dict is a fresh copy of the argument or the argument itself according to a flag translator T1 reads off the current source: "
          "every in-place edit of `val` in the four structure_tagged_union variants is dominated by `val = val.copy()`, the unstructure wrapper never edits its argument, the generated TypedDict hooks edit "
          "`res` initialised by `res = o.copy()` / `res = instance.copy()`). C11_argument_never_modified: for every store, argument and edit sequence, success or failure, every object that existed "
          "before the call -- the argument included -- keeps exactly its contents; C11_result_is_a_new_object: the returned dict did not exist before; C11_no_copy_only_without_edits: the non-copying "
          "variants perform no edit. The model can exhibit the failure (C11_refuted_without_copy) and shows the full statement false for TypedDict payloads with unknown keys "
          "(C11_refuted_shallow_copy_shares_untouched_values = finding F4). PARTIAL: that the remaining hooks build fresh containers (comprehensions / constructors in converters.py, cols.py, "
          "gen/__init__.py) is not a theorem -- Python object identity is outside the value model of Conv.v -- and is decided by the ALIAS lane on the implementation: a deep identity snapshot of the "
          "argument before/after every call (also when it raises) and the intersection of the mutable containers reachable from argument and result, minus the documented pass-throughs "
          "(Any / untyped positions when structuring; identity TypedDicts and types BaseConverter has no hook for when unstructuring).",
  "note": "Trusted: Coq kernel incl. vm_compute; translator T1 (section `alias`: a syntactic dominance check over four small functions and a regex over the generated-code string constants of gen/typeddicts.py); "
          "the ALIAS lane (Python id()-based observation). Modelled-not-verified: dict.copy() is shallow and allocates a new object; CPython object identity. Print Assumptions: closed under the global context.",
  "technique": "Coq proof (frame property of copy-then-edit hooks over an object store, for all edit sequences) + AST translator (copy dominates every in-place edit) + identity-snapshot differential testing",
  "design_ref": "DESIGN.md 4/C11"}


CLAIMS["C16"] = {
  "text": "PARTIAL. Theorem C16_json_dumps_total (Props/C16.v): the JSON converter is modelled as the plain Converter plus a context-free post-processing of its unstructured form (Model/Preconf.v jsonify: "
          "bytes -> base85 text, abc.Set -> list); for every environment, nested type, value of the type and strategy, whenever the mapping keys of the unstructured form are atoms (the documented limit of "
          "JSON object keys) what is handed to json.dumps lies inside the data model json.dumps accepts (jsonable) -- 'dumps never fails' for the json format, on top of C03's theorem. No theorem can state "
          "loads(dumps(x, T), T) == x: it would need the serialisation library. Decided on every run by the PRE lane instead, for the three libraries importable here (json, pyyaml, msgspec; bson, "
          "orjson, ujson, msgpack, cbor2, tomlkit are absent and reported as not present): dumps succeeds and the round trip is deeply equal on generated worlds incl. bytes, datetime, date, sets, "
          "enums, literals, non-string mapping keys, recursive classes; the model's jsonify equals the real JSON converter's unstructured form and the model's json_rt equals json.loads(json.dumps(.)) on "
          "every case; user hooks registered on such a converter are used at top level, in a list, inside an attrs class and inside a dataclass (precedence itself: C07).",
  "note": TB_CONV + " The base85 codec and json's key coercion are oracles (tables computed with the real functions). pyyaml and msgspec have no model: oracle only. Genuine defects found: F28 (msgspec converter handed "
          "every dataclass to msgspec: user hooks bypassed, private attributes of nested attrs classes dropped) -- fixed in /repo d4e1417; F29 (msgspec converter cannot create the hook of a self-referential "
          "class: RecursionError) -- open known finding; F19 (bool-keyed mappings in text formats) -- treated as outside the documented limits.",
  "technique": "Coq proof (encodability of the post-processed unstructured form, on top of the primitive-output theorem) + differential correspondence of the JSON layer + round-trip and user-hook oracles on the real libraries",
  "design_ref": "DESIGN.md 4/C16"}


NOT_APPLICABLE = {}
