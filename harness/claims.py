"""Per-property claim texts for MANIFEST.json."""
TB = ("Trusted: Coq 8.16.1 kernel incl. vm_compute; translator T1 (harness/t1_translate.py); the Python correspondence harness and its generators; "
      "modelled-not-verified: Python object model, functools.singledispatch (first registered class in __mro__; ABC virtual subclasses out of scope), "
      "lru_cache (a map), user predicates and typing introspection (truth tables computed by calling the real functions). Print Assumptions: closed under the global context.")

CLAIMS = {
 "C07": {
  "text": "Theorem C07_precedence_documented (Props/C07.v): for the dispatch configuration and registration tables that translator T1 regenerates from dispatch.py/converters.py on every run, for EVERY world (MROs, predicate truth tables), converter class, options and EVERY finite sequence of public-API operations (registrations of all kinds interleaved with cached/uncached lookups), the hook found for any type in either direction is the documented 4-tier choice (most specific registered MRO class with latest registration; newest accepting predicate/factory/exact-type entry, factories receive the type and the converter iff they ask; born-with entries; fallback). Proved by induction over the operation list with a cache invariant; no bound on history length. Tie: T1 + differential DISP lane (model evaluated by vm_compute vs real converters on generated histories incl. nested positions); a Python re-implementation of the rule is the failing-input search.",
  "note": TB + " Nested occurrence of T inside list[T]/class fields is checked by the lane (observed through real structure/unstructure calls), not by a theorem.",
  "technique": "Coq proof (induction over operation histories, invariant) + AST translator + differential correspondence",
  "design_ref": "DESIGN.md 5/C07"},
 "C08": {
  "text": "Theorem C08_transparent_partial + C08_immediate (Props/C08.v): for the configuration regenerated from the source, on every converter and every operation sequence whose user factories do not plant a foreign hook in the direct table, every later lookup equals the lookup on the converter that received only the registrations (all interleavings of warming calls, unbounded). The invariant (cache and direct table are sub-graphs of the cache-free lookup) needs exactly the clears the source performs: removing one makes a named lemma of Proofs/SrcObligations.v fail. The unrestricted statement is refuted in Coq (C08_refuted_wrapping_factory = known finding F8) and replayed on the implementation. Tie: T1 + DISP lane in twin mode (warmed converter vs fresh replay) which is also the failing-input search.",
  "note": TB + " Hooks generated for composite types are observed through real calls (nested probes) rather than modelled.",
  "technique": "Coq proof (inductive invariant over interleavings) + AST translator + twin differential testing",
  "design_ref": "DESIGN.md 5/C08"},
 "C18": {
  "text": "Theorems C18_copy_is_replay and C18_options_forwarded (Props/C18.v): for the configuration regenerated from the source, for every converter, history and override map, the copy answers every lookup like a converter freshly built from the forwarded options that then received the original's registrations, and every construction option (fallback factories included) is forwarded. Unbounded in history; both classes. Isolation after the copy is vacuous in a functional model: it is decided by T1 (copy builds a new instance, containers rebuilt) plus the DISP lane in copy mode (diverging registrations, deepcopy, global converter untouched).",
  "note": TB + " Preconf subclasses are exercised only through copy() of Converter/BaseConverter in this lane.",
  "technique": "Coq proof (copy = replay of registrations) + AST translator + differential correspondence",
  "design_ref": "DESIGN.md 5/C18"},
}

TB_TPL = ("Trusted: Coq 8.16.1 kernel incl. vm_compute; translator T1 (template flags of gen/__init__.py); the Python TPL lane (class generator, tagging handlers, "
          "payload prober). Modelled-not-verified: attrs/dataclass __init__ (binding, defaults, converters: Templates.instantiate), the text->bytecode step of the generated "
          "source (checked only through SyntaxError outcomes), dict/`in`/`[]` semantics of payload objects (a payload is any record of the six operations the hooks use). "
          "Print Assumptions: closed under the global context.")

CLAIMS["C04"] = {
  "text": "Theorem C04_templates_agree (Props/C04.v): for every payload value type, class definition (any number/order/mix of required, defaulted, factory, kw_only, init=False, aliased, converter attributes), generator options, overrides, per-attribute handlers and EVERY payload object (dict or junk, as a record of the operations the generated code performs), the detailed-validation template and the fast template both reject or both accept with attribute-wise equal instances; C04_generation: hook creation cannot fail in one mode only. Proved by showing both templates refine one order-free specification (Proofs/TemplatesProofs.v: detailed_refines_spec, fast_refines_spec; positional vs keyword binding of __init__ arguments by a permutation argument). Template flags (errors re-checked after instantiation, keyword arguments emitted last) are regenerated from gen/__init__.py by T1 on every run: reverting fix F1/F2 breaks the named obligations in Proofs/SrcObligationsGen.v. Tie: TPL lane (Templates.v evaluated by vm_compute vs the real make_dict_structure_fn hooks on generated classes x payloads, both modes); the pairwise comparison on the implementation is the failing-input search.",
  "note": TB_TPL + " Collection hooks (twin loops in converters.py/cols.py) and TypedDict templates are exercised by oracles only, not yet by a theorem.",
  "technique": "Coq proof (refinement of both templates to one spec) + AST translator + differential correspondence",
  "design_ref": "DESIGN.md 5/C04"}
CLAIMS["C10"] = {
  "text": "Theorems of Props/C10.v over the class templates: C10_forbid_adds_only_the_extra_key_check (enabling the flag changes the specification both templates refine in exactly one way: payloads with a key outside the accepted key set -- computed after renames/aliases -- are rejected), C10_fast/detailed_error_names_exactly_the_extras (the error carries the class and exactly the unknown keys; in detailed mode as the last member of the class group), C10_extras_inert (flag off: extending a dict payload with keys outside the accepted set cannot change the outcome). All classes, option/override combinations, handlers and payloads; no bound. Tie: T1 + TPL lane with extra keys incl. original names of renamed attributes. Nesting depth, NamedTuple-from-dict, TypedDict and the tagged-union tag key are decided by direct oracles on the implementation; known finding F4 (TypedDict keeps unknown keys) is reported as KNOWN-FINDING.",
  "note": TB_TPL + " TypedDict templates are not modelled yet: that part of the statement is checked by the oracle only.",
  "technique": "Coq proof over executable class-template model + AST translator + differential correspondence + direct oracle",
  "design_ref": "DESIGN.md 5/C10"}

CLAIMS["C09"] = {
  "text": "Theorems of Props/C09.v over the class templates, for every class definition, option/override combination with pairwise distinct final keys, instance and per-attribute handlers: C09_exact_key_set / C09_unstructure_total (the generated unstructure hook never fails and emits exactly the configured key set: final keys after rename/use_alias, omitted attributes absent, default-valued ones absent exactly when omit_if_default applies) and C09_roundtrip_detailed / C09_roundtrip_fast (the structure hook generated with the same customisation, in either validation mode, accepts that dict and restores every handled attribute, given inverse handlers, no field converters and defaults for omitted __init__ arguments). C09_generation_partial: attribute order cannot break generation (fix F1); key text can (open finding F3) -- that clause of the statement is refuted on the implementation and reported as KNOWN-FINDING, as is F22 (omit_if_default ignores field converters). Tie: T1 flags + TPL lane (un_gen evaluated by vm_compute vs real make_dict_unstructure_fn; round trip and key-set oracles on the implementation). TypedDict and NamedTuple customisation: direct oracles (finding F12 fixed).",
  "note": TB_TPL + " TypedDict templates (gen/typeddicts.py) and the NamedTuple pseudo-attributes are not modelled: oracle only.",
  "technique": "Coq proof (exact output of the unstructure template; round trip via the structure specification) + differential correspondence + direct oracle",
  "design_ref": "DESIGN.md 5/C09"}

CLAIMS["C20"] = {
  "text": "Theorems of Props/C20.v over Model/FieldConv.v (the handler choice of find_structure_handler at generation time and of _structure_attribute at call time): C20_generated_follows_rule and C20_interpretive_follows_rule (the structured value is K(hook(raw)) when a hook exists for T, K(raw) when the field is untyped or no hook can be found, always K(raw) under prefer_attrib_converters; fields without a converter unaffected), C20_agree_partial (Converter and BaseConverter agree) and C20_refuted_lazy (they do not for container hooks that fail lazily = known finding F15, reported as KNOWN-FINDING). The decision domain is finite, so the theorems are closed by complete case analysis, and the tie to the code is an EXHAUSTIVE correspondence run: every cell of the domain x class shapes x {Converter, BaseConverter} x validation mode x strategy is executed on the real library and compared with the model inside Coq on every run.",
  "note": "Trusted: Coq kernel; the correspondence harness. The model is hand-written (not generated from the AST): an edit to gen/_shared.py or converters.py _structure_attribute that changes a cell is caught by the exhaustive run, not by a broken proof.",
  "technique": "Coq proof by complete case analysis + exhaustive differential correspondence over the finite decision domain",
  "design_ref": "DESIGN.md 5/C20"}

NOT_APPLICABLE = {}
