"""ERR lane (C05): detailed validation reports exactly the faulty paths.

A valid payload (the unstructured form of a generated value) gets k independent faults injected at known
positions -- a leaf that its type cannot accept, a required key removed, an extra key under
forbid_extra_keys -- at any depth of class / list / tuple / mapping / Optional / NewType / Annotated nestings.
Direct oracle: the paths cattrs.transform_error reports are exactly the k fault paths, groups are class-level
at class positions and iterable-level at collection positions, every leaf note names the attribute / index / key
and the expected type.  Correspondence: the exception tree and the reported paths equal what Model/Conv.v +
Model/ConvErr.v compute for the same payload."""
from __future__ import annotations

import copy
import enum
import random
import re

import cattrs
from cattrs.errors import (AttributeValidationNote, ClassValidationError, ForbiddenExtraKeysError,
                           IterableValidationError, IterableValidationNote)

import lane_conv as L
from common import Verdict
from conv_checks import P_SUPPORTED, Session, describe_class, flags_of
from lane_conv import NODEFAULT, Tables, Unencodable, World

BAD_LEAF = {"int": "zz", "float": "zz", "bytes": "zz"}


def fault_sites(w: World, t, u, path, forbid, acc):
    """Candidate single faults inside the valid payload u of type t: (path, kind, apply) with
    apply(container_root) performing the mutation on a deep copy reached by path."""
    k = t[0]
    if k == "prim":
        if t[1] in BAD_LEAF:
            acc.append((path, "leaf", BAD_LEAF[t[1]], t))
    elif k == "enum":
        acc.append((path, "leaf", "no-such-member", t))
    elif k == "lit":
        acc.append((path, "leaf", "not-in-literal", t))
    elif k in ("list", "tuphom") and type(u) is list:
        if t[1][0] != "any":
            for i, e in enumerate(u):
                fault_sites(w, t[1], e, path + [("idx", i)], forbid, acc)
    elif k == "tuple" and type(u) in (tuple, list):
        for i, (tt, e) in enumerate(zip(t[1], u)):
            fault_sites(w, tt, e, path + [("idx", i)], forbid, acc)
    elif k == "dict" and type(u) is dict:
        if t[2][0] != "any" or t[1][0] != "any":
            for kk, e in u.items():
                if t[2][0] != "any":
                    fault_sites(w, t[2], e, path + [("key", kk)], forbid, acc)
    elif k == "opt":
        if u is not None:
            fault_sites(w, t[1], u, path, forbid, acc)
    elif k == "newtype":
        fault_sites(w, t[2], u, path, forbid, acc)
    elif k == "annot":
        fault_sites(w, t[1], u, path, forbid, acc)
    elif k in ("class", "self") and type(u) is dict:
        spec = w.specs[t[1]]
        for f in spec.fields:
            if not f.init:
                continue
            if f.name in u:
                if f.type is not None:
                    fault_sites(w, f.type, u[f.name], path + [("field", f.name)], forbid, acc)
                if f.default is NODEFAULT:
                    acc.append((path + [("field", f.name)], "missing", None, t))
        if forbid:
            acc.append((path, "extra", None, t))
    return acc


def is_prefix(a, b):
    return len(a) <= len(b) and b[:len(a)] == a


def choose_independent(rng, sites, k):
    """k faults on pairwise different components, none inside a component another one replaces or removes."""
    rng.shuffle(sites)
    chosen = []
    if k == 0:
        return chosen
    for s in sites:
        ok = True
        for c in chosen:
            if s[0] == c[0]:
                ok = False
            elif c[1] in ("leaf", "missing") and is_prefix(c[0], s[0]):
                ok = False
            elif s[1] in ("leaf", "missing") and is_prefix(s[0], c[0]):
                ok = False
        if ok:
            chosen.append(s)
        if len(chosen) == k:
            break
    return chosen


def apply_faults(u, faults):
    root = [copy.deepcopy(u)]

    def walk(node, path):
        for kind, key in path:
            node = node[key] if kind != "field" else node[key]
        return node
    # removals last so that indices / keys of the other faults stay valid
    for path, kind, bad, _ in sorted(faults, key=lambda f: f[1] == "missing"):
        if kind == "extra":
            tgt = walk(root, [("idx", 0)] + path)
            tgt["zz_extra"] = 1
        elif kind == "leaf":
            parent = walk(root, [("idx", 0)] + path[:-1]) if path else root
            key = path[-1][1] if path else 0
            if type(parent) is tuple:
                raise Unencodable("tuple parent")
            parent[key] = bad
        else:
            parent = walk(root, [("idx", 0)] + path[:-1])
            del parent[path[-1][1]]
    return root[0]


def listify_tuples(u):
    """the payload with tuples turned into lists (same acceptance; lets faults be written in place)"""
    if type(u) in (list, tuple):
        return [listify_tuples(x) for x in u]
    if type(u) is dict:
        return {k: listify_tuples(x) for k, x in u.items()}
    return u


def path_str(path):
    s = "$"
    for kind, key in path:
        s += f".{key}" if kind == "field" else f"[{key!r}]"
    return s


def type_at(w, t, path):
    """The declared type at a path, and whether the position is a class or a collection position."""
    for kind, key in path:
        while t[0] in ("opt", "annot", "newtype"):
            t = t[2] if t[0] == "newtype" else t[1]
        if kind == "field":
            spec = w.specs[t[1]]
            t = next(f.type for f in spec.fields if f.name == key)
        elif t[0] in ("list", "tuphom"):
            t = t[1]
        elif t[0] == "tuple":
            t = t[1][key]
        elif t[0] == "dict":
            t = t[2]
    return t


def strip(t):
    while t is not None and t[0] in ("opt", "annot", "newtype"):
        t = t[2] if t[0] == "newtype" else t[1]
    return t


def key_note(w: World, k):
    if k is None:
        return 0
    if type(k) in L.CLS_PRIM:
        rank = {"bool": 1, "int": 2, "float": 3, "str": 4, "bytes": 5}[L.CLS_PRIM[type(k)]]
        return 8 * w.intern(k) + rank
    return 7


def ctree(w: World, exc):
    """The exception tree as a model errkind (leaf classes erased)."""
    if isinstance(exc, ClassValidationError):
        cid = next(i for i, c in enumerate(w.pycls) if c is exc.cl)
        subs = []
        for sub in exc.exceptions:
            note = next((n for n in getattr(sub, "__notes__", []) if n.__class__ is AttributeValidationNote), None)
            subs.append(f"({'None' if note is None else f'Some {w.intern(note.name)}%N'}, {ctree(w, sub)})")
        return f"(EClassVal {w.mid(cid)}%N [" + "; ".join(subs) + "])"
    if isinstance(exc, IterableValidationError):
        subs = []
        for sub in exc.exceptions:
            note = next((n for n in getattr(sub, "__notes__", []) if n.__class__ is IterableValidationNote), None)
            if note is None:
                ns = "None"
            elif type(note.index) is int and not isinstance(note.index, bool) and not str(note).startswith("Structuring mapping"):
                ns = f"Some {note.index}%N" if note.index >= 0 else "None"
            else:
                ns = f"Some {key_note(w, note.index)}%N"
            subs.append(f"({ns}, {ctree(w, sub)})")
        return "(EIterVal [" + "; ".join(subs) + "])"
    if isinstance(exc, ForbiddenExtraKeysError):
        cid = next(i for i, c in enumerate(w.pycls) if c is exc.cl)
        return f"(EForbidden {w.mid(cid)}%N [" + "; ".join(f"{w.intern(k)}%N" for k in exc.extra_fields) + "])"
    return "EOther"


PATH_TOKEN = re.compile(r"\.([A-Za-z_][A-Za-z_0-9]*)|\[((?:[^\[\]]|'[^']*')*)\]")


def cpaths(w: World, t, strings, key_objs):
    """transform_error's strings as model paths; mapping keys are recovered from their repr via key_objs,
    and told apart from list indices by the declared type at the position."""
    out = []
    for s in strings:
        p = s.rsplit(" @ ", 1)[1]
        assert p.startswith("$"), p
        steps = []
        cur = t
        for m in PATH_TOKEN.finditer(p[1:]):
            cur = strip(cur)
            if m.group(1) is not None:
                steps.append(f"SField {w.intern(m.group(1))}%N")
                cur = next(f.type for f in w.specs[cur[1]].fields if f.name == m.group(1))
            else:
                r = m.group(2)
                if cur is not None and cur[0] == "dict":
                    if r not in key_objs:
                        raise Unencodable("key repr " + r)
                    steps.append(f"SIdx {key_note(w, key_objs[r])}%N")
                    cur = cur[2]
                elif re.fullmatch(r"\d+", r):
                    steps.append(f"SIdx {int(r)}%N")
                    cur = cur[1][int(r)] if cur is not None and cur[0] == "tuple" and int(r) < len(cur[1]) else (cur[1] if cur is not None and cur[0] in ("list", "tuphom", "set", "fset") else None)
                else:
                    raise Unencodable("index repr " + r)
        out.append("[" + "; ".join(steps) + "]")
    return "[" + "; ".join(out) + "]"


def all_keys(o, acc):
    if type(o) is dict:
        for k, v in o.items():
            acc[repr(k)] = k
            all_keys(v, acc)
    elif type(o) in (list, tuple):
        for x in o:
            all_keys(x, acc)
    return acc


def check_groups(w, t, exc, path):
    """Group kinds and notes: class-level at class positions, iterable-level at collections, notes with
    the attribute name / index / key and the expected type.  Returns a description of the first defect."""
    here = strip(type_at(w, t, path)) if True else None
    if isinstance(exc, ClassValidationError):
        if here is None or here[0] not in ("class", "self"):
            return f"{path_str(path)}: a ClassValidationError at a position of type {here}"
        spec = w.specs[here[1]]
        for sub in exc.exceptions:
            note = next((n for n in getattr(sub, "__notes__", []) if n.__class__ is AttributeValidationNote), None)
            if note is None:
                if isinstance(sub, (ClassValidationError, IterableValidationError)):
                    return f"{path_str(path)}: a nested group without an attribute note"
                continue
            f = next((f for f in spec.fields if f.name == note.name), None)
            if f is None:
                return f"{path_str(path)}: note names {note.name!r}, not an attribute of the class"
            if f.type is not None and note.type != w.to_py(f.type):
                return f"{path_str(path)}.{note.name}: note type {note.type!r}, declared {w.to_py(f.type)!r}"
            if isinstance(sub, (ClassValidationError, IterableValidationError)):
                bad = check_groups(w, t, sub, path + [("field", note.name)])
                if bad:
                    return bad
    elif isinstance(exc, IterableValidationError):
        if here is None or here[0] not in ("list", "tuphom", "tuple", "dict", "set", "fset"):
            return f"{path_str(path)}: an IterableValidationError at a position of type {here}"
        for sub in exc.exceptions:
            note = next((n for n in getattr(sub, "__notes__", []) if n.__class__ is IterableValidationNote), None)
            if note is None:
                if isinstance(sub, (ClassValidationError, IterableValidationError)):
                    return f"{path_str(path)}: a nested group without an index note"
                continue
            kind = "key" if here[0] == "dict" else "idx"
            sub_path = path + [(kind, note.index)]
            try:
                want = w.to_py(type_at(w, t, sub_path))
            except Exception:
                return f"{path_str(sub_path)}: note index {note.index!r} does not address a component"
            if note.type != want:
                return f"{path_str(sub_path)}: note type {note.type!r}, declared {want!r}"
            if isinstance(sub, (ClassValidationError, IterableValidationError)):
                bad = check_groups(w, t, sub, sub_path)
                if bad:
                    return bad
    return None


def check_c05(v: Verdict, t1_summary, n_worlds: int):
    flags = flags_of(t1_summary)
    rng = random.Random(v.seed * 7919 + 505)
    profile = dict(P_SUPPORTED, kinds=["attrs", "attrs", "frozen", "dataclass"], any=True, untyped=0.05, typeddicts=0.25)
    S = Session(v, "C05", flags)
    hist = S.hist
    hist.update({"faulted_payloads": 0, "faults": {"leaf": 0, "missing": 0, "extra": 0}, "k": {}, "max_fault_depth": 0, "no_site": 0, "zero_fault_controls": 0})
    for wi in range(n_worlds):
        w = L.gen_world(rng, profile)
        tables = Tables(w)
        cases = []
        hist["worlds"] += 1
        for _ in range(3):
            cid = rng.randrange(len(w.pycls))
            t = ("class", cid)
            if rng.random() < 0.4:
                t = rng.choice([("list", t, rng.randrange(4)), ("dict", ("prim", "str"), t, 0), ("tuple", [t, ("prim", "int")]), ("opt", t), ("tuphom", t, 0)])
            elif rng.random() < 0.2:
                t = L.gen_type(w, 3, len(w.pycls))
            for _ in range(3):
                try:
                    x = L.gen_value(w, t, 3)
                except RecursionError:
                    continue
                forbid = rng.random() < 0.5
                conv = L.make_converter(True, True, "dict", forbid)
                cfg = (True, True, "dict")
                try:
                    u = listify_tuples(conv.unstructure(x, unstructure_as=w.to_py(t)))
                except Exception:
                    continue
                sites = fault_sites(w, t, u, [], forbid, [])
                if not sites:
                    hist["no_site"] += 1
                    continue
                k = rng.choice([0, 1, 1, 2, 2, 3, 4, 6])
                faults = choose_independent(rng, list(sites), k)
                try:
                    o = apply_faults(u, faults)
                except (Unencodable, KeyError, IndexError, TypeError):
                    continue
                desc = {"lane": "ERR/C05", "type": repr(w.to_py(t)), "classes": [describe_class(w, s) for s in w.specs], "forbid_extra_keys": forbid,
                        "valid_payload": repr(u)[:500], "payload": repr(o)[:500], "faults": [(path_str(p), kind) for p, kind, _, _ in faults]}
                try:
                    conv.structure(o, w.to_py(t))
                    exc = None
                except Exception as e:
                    exc = e
                v.count(repr((wi, desc["type"], desc["payload"], forbid)), True)
                if not faults:
                    hist["zero_fault_controls"] += 1
                    if exc is not None:
                        v.violation("a valid payload (no fault injected) is rejected under detailed validation", {**desc, "raised": repr(exc)[:300]})
                    continue
                hist["faulted_payloads"] += 1
                hist["k"][len(faults)] = hist["k"].get(len(faults), 0) + 1
                for p, kind, _, _ in faults:
                    hist["faults"][kind] += 1
                    hist["max_fault_depth"] = max(hist["max_fault_depth"], len(p))
                if exc is None:
                    v.violation("a payload with injected faults was accepted", desc)
                    continue
                try:
                    msgs = cattrs.transform_error(exc)
                except Exception as e2:
                    v.violation("transform_error raised", {**desc, "raised": repr(e2)[:300]})
                    continue
                got = sorted(m.rsplit(" @ ", 1)[1] for m in msgs)
                want = sorted(path_str(p) for p, _, _, _ in faults)
                if got != want:
                    v.violation("transform_error does not report exactly the fault paths (one leaf error per fault, none for valid siblings)",
                                {**desc, "reported": msgs, "expected_paths": want})
                    continue
                bad = check_groups(w, t, exc, []) if isinstance(exc, (ClassValidationError, IterableValidationError)) else None
                if bad:
                    v.violation("validation group of the wrong kind, or a leaf without its name / index / key and expected type: " + bad, {**desc, "reported": msgs})
                    continue
                # correspondence with the model: same tree, same reported paths in the same order
                try:
                    prims = L.prims_of(w, t, set(), set())
                    tables.add_payload(o, prims, True)
                    text = (f"ccase_ok true ENV (CE {L.ccfg(True, True, 'dict', forbid, flags)} {w.cty(t)} {w.cval(o)} {ctree(w, exc)} "
                            f"{cpaths(w, t, msgs, all_keys(o, {}))})")
                except (Unencodable, StopIteration):
                    hist["unencodable"] += 1       # TypedDict positions: decided by the oracle above only
                    continue
                cases.append(text)
                S.meta.append({**desc, "op": "structure", "reported": msgs, "tree": ctree(w, exc)})
        S.close_world(w, tables, cases)
    bad = S.run_model()
    if bad is not None:
        v.obligation("correspondence:ERR/C05 (exception tree and transform_error paths of the model = implementation on every faulted payload)", not bad,
                     "" if not bad else f"{len(bad)} of {len(S.meta)} disagree, first: {S.meta[bad[0]]}")
        S.bad = [dict(S.meta[i], model=S.explain(i), case_index=i) for i in bad[:10]]
    v.coverage["input_distribution"] = hist
    if len(v.samples) < 4:
        v.samples += S.meta[:4]
    return S
