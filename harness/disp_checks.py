"""Drivers for the DISP lane: C07 (precedence), C08 (cache transparency), C18 (copy).

Each driver plans sessions, executes them on the real converters, asks its
property's *direct oracle* (independent of the Coq model) about every
observation, and hands the recorded sessions to the model for the
correspondence check."""
from __future__ import annotations

import enum
import random
import re
from pathlib import Path

import cattrs
from typing import Union

import lane_disp as L
from common import Verdict, parse_coq_value, run_cases_file

BASE_CLS = {"DUn": (bytes, str, Path), "DSt": (str, bytes, int, float, enum.Enum, Path)}


def by_id(pool):
    return {i: t for t, i in pool.ids.items()}


class Runner:
    """Executes plan steps on a RealSession, returning the concrete steps (with observations)."""

    def __init__(self, pool, preds):
        self.pool, self.preds = pool, preds
        self.last_same_as_base = False
        self.idmap = by_id(pool)
        self.predfn = {pid: fn for pid, _, fn in preds}
        self.sess = L.RealSession(pool)
        self.steps = []
        self.history = {}          # conv index -> list of registration steps
        self.kinds = {}            # conv index -> (full, opts)

    def do(self, s):
        k = s[0]
        se = self.sess
        if k == "new":
            se.new(s[1], s[2])
            i = len(se.convs) - 1
            self.history[i] = []
            self.kinds[i] = (s[1], dict(s[2]))
            self.steps.append(s)
        elif k == "copy":
            se.copy(s[1], s[2], deep=(len(s) > 3 and s[3]))
            i = len(se.convs) - 1
            self.history[i] = list(self.history[s[1]])
            o = dict(self.kinds[s[1]][1])
            o.update(s[2])
            self.kinds[i] = (self.kinds[s[1]][0], o)
            self.steps.append(("copy", s[1], s[2]))
        elif k == "reghook":
            _, i, d, tid, n = s
            h = se.user_hook(d, n)
            c = se.convs[i]
            t = self.idmap[tid]
            (c.register_unstructure_hook if d == "DUn" else c.register_structure_hook)(t, h)
            self.history[i].append(s)
            self.steps.append(s)
        elif k == "regfunc":
            _, i, d, p, n = s
            h = se.user_hook(d, n)
            c = se.convs[i]
            (c.register_unstructure_hook_func if d == "DUn" else c.register_structure_hook_func)(self.predfn[p], h)
            self.history[i].append(s)
            self.steps.append(s)
        elif k == "regfact":
            _, i, d, p, fid, ext, wrap = s
            f = se.factory(d, fid, ext, wrap=bool(wrap))
            c = se.convs[i]
            (c.register_unstructure_hook_factory if d == "DUn" else c.register_structure_hook_factory)(self.predfn[p], f)
            self.history[i].append(s)
            self.steps.append(("regfact", i, d, p, fid, ext, 0 if wrap else None))
        elif k == "get":
            _, i, d, tid, uc, as_call = s
            t = self.idmap[tid]
            if as_call:
                se.warm(i, d, t)
                uc = True
            else:
                se.observe(i, d, t, uc)
            self.steps.append(("get", i, d, tid, uc))
        elif k == "probe":
            _, i, d, tid, uc = s
            x = se.observe(i, d, self.idmap[tid], uc)
            self.last_same_as_base = se.same_as_base
            self.steps.append(("probed" if se.same_as_base else "probe", i, d, tid, uc, x))
            if se.base_obs is not None:
                self.steps.append(("probe", i, d, self.pool.tid(se.base_obs[0]), True, se.base_obs[1]))
            return x
        elif k == "nested":
            _, i, d, tid, kind = s
            t = self.idmap[tid]
            outer = self.pool.lists[t] if kind == "list" else self.pool.holders[t]
            if se.observe(i, d, outer, True) != ("XBuiltin",):
                self.steps.append(("get", i, d, self.pool.tid(outer), True))
                return None
            if L.delegating_base(t) is not None:
                return None
            x = se.nested_for(i, d, outer, kind, tid)
            self.steps.append(("get", i, d, self.pool.tid(outer), True))
            self.steps.append(("probe", i, d, tid, d == "DSt", x))
            return x
        elif k == "opts":
            o = se.read_opts(se.convs[s[1]])
            self.steps.append(("opts", s[1], o))
            return o
        else:
            raise ValueError(s)
        return None


# ------------------------------------------------------------- C07 oracle

def doc_choice(runner: Runner, i, d, t, union_by_recency=True):
    """The documented 4-tier rule, re-implemented over the recorded registrations (independent of the model)."""
    pool = runner.pool
    hist = [s for s in runner.history[i] if s[2] == d]
    idmap = runner.idmap

    def routed_as_class(tt):
        return not pool.is_union(tt) and not pool.is_newtype(tt)

    if isinstance(t, type):
        for c in t.__mro__:
            regs = [s for s in hist if s[0] == "reghook" and idmap[s[3]] is c and routed_as_class(c)]
            if regs:
                return ("XUser", regs[-1][4])
            if c in BASE_CLS[d]:
                return ("XBuiltin",)
    registry_hit = None
    for s in reversed(hist):
        if s[0] == "reghook":
            tt = idmap[s[3]]
            if routed_as_class(tt):
                continue
            is_struct_union = (d == "DSt" and pool.is_union(tt))
            hit = (tt == t) if pool.is_union(tt) else (tt is t)
            if hit:
                if is_struct_union and not union_by_recency:
                    registry_hit = registry_hit or ("XUser", s[4])
                    continue
                return ("XUser", s[4])
        elif s[0] == "regfunc":
            if L.safe_call(runner.predfn[s[3]], t):
                return ("XUser", s[4])
        elif s[0] == "regfact":
            if L.safe_call(runner.predfn[s[3]], t):
                return ("XMade", s[4], pool.tid(t), bool(s[5]) or bool(s[6]))
    if registry_hit is not None:
        return registry_hit
    full, o = runner.kinds[i]
    fresh = L.RealSession(pool)
    fresh.new(full, o)
    x = fresh.observe(0, d, t)
    return ("XBuiltin",) if fresh.same_as_base else x


# ------------------------------------------------------------------ drivers

def world_and_pool(t1_summary, _verdict=None):
    pool = L.Pool()
    pool.exact_route_cond = t1_summary["converters"]["exact_route_cond"]
    preds = L.user_predicates()
    try:
        init_tbl = L.init_truth_tables(pool, t1_summary)
    except L.TableMismatch as e:
        if _verdict is not None:
            # the registrations the source makes (as the translator last recognised them, in source order) against what a fresh converter
            # really holds: a registration that had no effect is a registration that does not "take effect immediately"
            import collections as _c
            src, real = _c.Counter(e.source_names), _c.Counter(e.real_names)
            _verdict.violation("hook precedence differs from the documented rule: a fresh Converter() does not hold every registration its constructor makes",
                               {"lane": "DISP", "direction": e.direction, "registered_by_the_source_in_order": e.source_names, "held_by_a_fresh_converter_in_order": e.real_names,
                                "missing": sorted((src - real).elements()), "unexpected": sorted((real - src).elements()),
                                "replay": "c = cattrs.Converter(); [p.__name__ for p, *_ in c._%s_func._function_dispatch._handler_pairs]" % e.direction})
        raise
    return pool, preds, L.coq_world(pool, preds, init_tbl)


def run_model(v: Verdict, name, world_text, cases, lane_label):
    """Correspondence: evaluate check_case on every recorded session inside Coq."""
    bad_all = []
    shard = 150
    for k in range(0, len(cases), shard):
        chunk = cases[k:k + shard]
        rc, out = run_cases_file(f"{name}_{k}", L.cases_file(world_text, chunk))
        vals = parse_coq_value(out)
        if rc != 0 or not vals:
            v.obligation(f"correspondence:{lane_label}:coqc", False, out[-600:])
            return None
        txt = vals[-1]
        if txt != "[]":
            for m in re.finditer(r"\((\d+), \[([\d; ]*)\]\)", txt):
                bad_all.append((k + int(m.group(1)), [int(x) for x in m.group(2).split(";") if x.strip()]))
    return bad_all


def model_answers(world_text, case, name="answers"):
    rc, out = run_cases_file(name, L.answers_file(world_text, case))
    vals = parse_coq_value(out)
    return vals[-1] if vals else out[-400:]


def fmt_case(pool, steps):
    nm = pool.names
    out = []
    for s in steps:
        if s[0] in ("reghook",):
            out.append(f"conv{s[1]}.register_{'un' if s[2]=='DUn' else ''}structure_hook({nm[s[3]]}, hook#{s[4]})")
        elif s[0] == "regfunc":
            out.append(f"conv{s[1]}.register_{'un' if s[2]=='DUn' else ''}structure_hook_func(pred#{s[3]}, hook#{s[4]})")
        elif s[0] == "regfact":
            out.append(f"conv{s[1]}.register_{'un' if s[2]=='DUn' else ''}structure_hook_factory(pred#{s[3]}, factory#{s[4]}{' ext' if s[5] else ''}{' WRAPS gen_unstructure_iterable' if s[6] is not None else ''})")
        elif s[0] == "get":
            out.append(f"conv{s[1]}.lookup[{s[2]}]({nm[s[3]]}, cache={s[4]})")
        elif s[0] in ("probe", "probed"):
            out.append(f"conv{s[1]}.probe[{s[2]}]({nm[s[3]]}) -> {s[5]}{' (same object as its base type hook)' if s[0] == 'probed' else ''}")
        elif s[0] == "new":
            out.append(f"conv = {'Converter' if s[1] else 'BaseConverter'}({s[2]})")
        elif s[0] == "copy":
            out.append(f"conv{s[1]}.copy({s[2]})")
        elif s[0] == "opts":
            out.append(f"conv{s[1]} options read back: {s[2]}")
    return out


def probe_battery(rng, pool, n):
    ts = rng.sample(pool.probe_types, min(n, len(pool.probe_types)))
    return [(d, pool.tid(t)) for t in ts for d in ("DUn", "DSt")]


def check_c07(v: Verdict, t1_summary, n_cases, max_ops):
    rng = random.Random(v.seed * 7919 + 7)
    pool, preds, world_text = world_and_pool(t1_summary, v)
    cases = []
    hist = {"ops": 0, "reghook": 0, "regfunc": 0, "regfact": 0, "get": 0, "probes": 0, "nested": 0,
            "ans_user": 0, "ans_made": 0, "ans_builtin": 0, "ans_fallback": 0, "union_struct_cases": 0}
    f9 = 0
    for ci in range(n_cases):
        g = L.Gen(rng, pool, preds, v.tier)
        full = rng.random() < 0.6
        allow_us = rng.random() < 0.15
        hist["union_struct_cases"] += allow_us
        r = Runner(pool, preds)
        r.do(("new", full, g.options(full)))
        nops = rng.randint(2, max_ops)
        plan = []
        for _ in range(nops):
            plan.append(g.reg_step(0, allow_union_struct=allow_us, full=full) if rng.random() < 0.6 else g.get_step(0))
        probes = []
        for s in plan:
            r.do(s)
            hist[s[0]] += 1
            hist["ops"] += 1
            if rng.random() < 0.15:
                t = rng.choice(pool.probe_types)
                probes.append(("probe", 0, rng.choice(["DUn", "DSt"]), pool.tid(t), rng.random() < 0.7))
                _x = r.do(probes[-1])
                probes[-1] = (probes[-1], _x, len(r.history[0]), r.last_same_as_base)
        final = []
        for d, tid in probe_battery(rng, pool, 6):
            final.append(("probe", 0, d, tid, rng.random() < 0.8))
        # types mentioned by registrations are the interesting probes
        for s in r.history[0][-6:]:
            if s[0] == "reghook":
                final.append(("probe", 0, s[2], s[3], True))
                t = r.idmap[s[3]]
                if isinstance(t, type):
                    subs = [u for u in pool.probe_types if isinstance(u, type) and u is not t and t in u.__mro__]
                    if subs:
                        final.append(("probe", 0, s[2], pool.tid(rng.choice(subs)), True))
        for s in final:
            x = r.do(s)
            probes.append((s, x, len(r.history[0]), r.last_same_as_base))
        for t in rng.sample(L.NESTABLE, 3):
            d = rng.choice(["DUn", "DSt"])
            kind = rng.choice(["list", "holder"])
            if d == "DUn" and kind == "list" and not full:
                continue   # BaseConverter unstructures list elements by runtime class, not by declared type
            s = ("nested", 0, d, pool.tid(t), kind)
            x = r.do(s)
            if x is not None:
                hist["nested"] += 1
                probes.append((("probe", 0, d, pool.tid(t), True), x, len(r.history[0]), False))
        # a registration for a class whose containers are already in use, repeated: the latest registration wins, also nested
        if ci % 2 == 0:
            for t in rng.sample([u for u in L.NESTABLE if isinstance(u, type)], 2):
                d = rng.choice(["DUn", "DSt"])
                kind = rng.choice(["list", "holder"])
                if d == "DUn" and kind == "list" and not full:
                    continue
                for rnd in range(2):
                    r.do(("reghook", 0, d, pool.tid(t), 700 + 10 * (ci % 20) + rnd))
                    hist["reghook"] += 1
                    x = r.do(("nested", 0, d, pool.tid(t), kind))
                    if x is not None:
                        hist["nested"] += 1
                        hist["nested_after_reregistration"] = hist.get("nested_after_reregistration", 0) + rnd
                        probes.append((("probe", 0, d, pool.tid(t), True), x, len(r.history[0]), False))
        # the same for registrations that go through the predicate list: a predicate hook (t is A / t in (int, str) / is a NewType /
        # t == Union[int, str]) and a hook registered for a NewType or a union, after a container of the type was already in use
        if ci % 2 == 1:
            import lane_disp as _LD
            targets = [(_LD.A, ("regfunc", 1)), (int, ("regfunc", 4)), (_LD.NT1, ("regfunc", 10)), (Union[int, str], ("regfunc", 8)),
                       (_LD.NT2, ("reghook", None)), (Union[_LD.P, _LD.Q], ("reghook", None)), (Union[int, str], ("reghook", None)),
                       # hook FACTORIES (3-tuples in the predicate list), plain and converter-taking
                       (_LD.A, ("regfact", 1)), (int, ("regfact", 4)), (_LD.NT1, ("regfact", 10)), (Union[int, str], ("regfact", 8))]
            for ti_, (t, (how, pid)) in enumerate(rng.sample(targets, 3)):
                d = rng.choice(["DUn", "DSt"])
                kind = rng.choice(["list", "holder"])
                if d == "DUn" and kind == "list" and not full:
                    continue
                x0 = r.do(("nested", 0, d, pool.tid(t), kind))          # warm: the container's hook is generated now
                if x0 is not None:
                    probes.append((("probe", 0, d, pool.tid(t), True), x0, len(r.history[0]), False))
                hid = 800 + 10 * (ci % 20) + ti_
                if how == "regfact":
                    r.do(("regfact", 0, d, pid, hid, rng.random() < 0.5, None))
                else:
                    r.do(("regfunc", 0, d, pid, hid) if how == "regfunc" else ("reghook", 0, d, pool.tid(t), hid))
                hist[how] += 1
                x = r.do(("nested", 0, d, pool.tid(t), kind))
                if x is not None:
                    hist["nested"] += 1
                    hist["nested_after_predicate_registration"] = hist.get("nested_after_predicate_registration", 0) + 1
                    probes.append((("probe", 0, d, pool.tid(t), True), x, len(r.history[0]), False))
        # oracle
        for (s, x, hlen, same_as_base) in probes:
            hist["probes"] += 1
            hist["ans_" + {"XUser": "user", "XMade": "made", "XBuiltin": "builtin", "XFallback": "fallback"}[x[0]]] += 1
            saved = r.history[0]
            r.history[0] = saved[:hlen]
            t = r.idmap[s[3]]
            want = doc_choice(r, 0, s[2], t, union_by_recency=True)
            if want != x and not (same_as_base and want == ("XBuiltin",)):
                alt = doc_choice(r, 0, s[2], t, union_by_recency=False)
                if alt == x and s[2] == "DSt" and pool.is_union(t):
                    f9 += 1
                    v.finding("F9", "structure-direction union hook shadowed by a user predicate/factory",
                              {"lane": "DISP/C07", "steps": fmt_case(pool, r.steps), "probe": f"{s[2]} {pool.names[s[3]]}",
                               "observed": x, "documented": want})
                else:
                    v.violation("hook precedence differs from the documented rule",
                                {"lane": "DISP/C07", "steps": fmt_case(pool, r.steps), "probe": f"{s[2]} {pool.names[s[3]]}",
                                 "observed": x, "documented": want, "history_len": hlen})
            r.history[0] = saved
        cases.append(r.steps)
        v.count(repr(r.steps), L.nontrivial_history(r.steps))
        if ci < 3:
            v.samples.append(fmt_case(pool, r.steps))
    bad = run_model(v, f"c07_{v.seed}", world_text, cases, "DISP/C07")
    if bad is not None:
        v.obligation("correspondence:DISP/C07 (model lookup = implementation lookup on every probe)", not bad,
                     "" if not bad else f"{len(bad)} sessions disagree, first: " + "; ".join(fmt_case(pool, cases[bad[0][0]])) +
                     f" | disagreeing steps {bad[0][1]} | model answers: {model_answers(world_text, cases[bad[0][0]])}")
    hist["known_F9_hits"] = f9
    v.coverage["input_distribution"] = hist
    return cases


def check_c08(v: Verdict, t1_summary, n_cases, max_ops):
    rng = random.Random(v.seed * 7919 + 8)
    pool, preds, world_text = world_and_pool(t1_summary, v)
    cases = []
    hist = {"ops": 0, "registrations": 0, "warming_lookups": 0, "warming_calls": 0, "wrap_cases": 0, "battery_probes": 0,
            "nested_probes": 0, "f8_hits": 0}
    for ci in range(n_cases):
        g = L.Gen(rng, pool, preds, v.tier)
        full = rng.random() < 0.65
        scripted_f8 = (ci % 30 == 0)      # corpus entry: the minimal history of finding F8, with random noise before it
        if scripted_f8:
            full = True
        # Wrapping factories (finding F8) only occur in the scripted corpus entry: once such a factory is
        # registered, the nested lookups that born-with factories perform (Optional[List[int]] -> List[int])
        # are visible through the direct table, and the model does not replay those.
        allow_wrap = False
        o = g.options(full)
        A = Runner(pool, preds)
        B = Runner(pool, preds)
        A.do(("new", full, o))
        B.do(("new", full, o))
        nops = rng.randint(3, max_ops)
        has_wrap = False
        if scripted_f8:
            nops = rng.randint(0, 4)
        for _ in range(nops):
            if rng.random() < 0.45:
                s = g.reg_step(0, allow_union_struct=True, allow_wrap=allow_wrap, full=full)
                has_wrap |= (s[0] == "regfact" and bool(s[6]))
                A.do(s)
                B.do(s)
                hist["registrations"] += 1
            else:
                s = g.get_step(0)
                A.do(s)
                hist["warming_calls" if s[5] else "warming_lookups"] += 1
                # warm composite / class types too: the hooks they generate capture other hooks
                if rng.random() < 0.5:
                    t = rng.choice(L.NESTABLE)
                    outer = pool.lists[t] if rng.random() < 0.5 else pool.holders[t]
                    A.do(("get", 0, rng.choice(["DUn", "DSt"]), pool.tid(outer), True, rng.random() < 0.5))
            hist["ops"] += 1
        if scripted_f8:
            s = ("regfact", 0, "DUn", 3, g.fresh(), True, "wrap")
            A.do(s)
            B.do(s)
            has_wrap = True
            A.do(("get", 0, "DUn", pool.tid(list[int]), True, False))          # wrapper cached, inner hook in the direct table
            A.do(("get", 0, "DUn", pool.tid(L.Dict[str, L.P]), True, False))   # unrelated first use clears the lru cache
        targeted = None
        if not scripted_f8 and ci % 2 == 1:
            # warm a container of t (its generated hook captures t's hook and may sit in the direct table), then register a hook
            # for t through each registration path, then look at the container again
            t = rng.choice(L.NESTABLE)
            d = rng.choice(["DUn", "DSt"])
            for outer in (pool.lists[t], pool.holders[t]):
                A.do(("get", 0, d, pool.tid(outer), True, True))
            accepting = [pid for pid, _, fn in preds if L.safe_call(fn, t)]
            kind = rng.choice(["regfunc", "regfunc", "reghook", "regfact"]) if accepting else "reghook"
            if kind == "reghook":
                st = ("reghook", 0, d, pool.tid(t), g.fresh())
            elif kind == "regfunc":
                st = ("regfunc", 0, d, rng.choice(accepting), g.fresh())
            else:
                st = ("regfact", 0, d, rng.choice(accepting), g.fresh(), rng.random() < 0.5, None)
            if not (st[0] == "reghook" and d == "DSt" and pool.is_union(t)):
                A.do(st)
                B.do(st)
                hist["registrations"] += 1
                targeted = (d, t)
        hist["wrap_cases"] += has_wrap
        if has_wrap:
            battery = [("DUn", pool.tid(t)) for t in (list[int], L.List[int], L.List[L.P])]
            battery += [(d, pool.tid(t)) for t in (L.A, L.B, int, str, L.Col) for d in ("DUn", "DSt")]
        else:
            battery = probe_battery(rng, pool, 7)
            for s in A.history[0][-5:]:
                if s[0] == "reghook":
                    battery.append((s[2], s[3]))
        for d, tid in battery:
            uc = rng.random() < 0.8
            xa = A.do(("probe", 0, d, tid, uc))
            xb = B.do(("probe", 0, d, tid, uc))
            hist["battery_probes"] += 1
            if xa != xb:
                t = A.idmap[tid]
                if has_wrap and d == "DUn" and L.safe_call(A.predfn[3], t):
                    hist["f8_hits"] += 1
                    v.finding("F8", "wrapping factory: warmed converter answers with the inner hook",
                              {"lane": "DISP/C08", "warmed_steps": fmt_case(pool, A.steps), "probe": f"{d} {pool.names[tid]}",
                               "warmed": xa, "fresh": xb})
                else:
                    v.violation("warmed converter and fresh replay of the registrations disagree",
                                {"lane": "DISP/C08", "warmed_steps": fmt_case(pool, A.steps), "probe": f"{d} {pool.names[tid]}",
                                 "warmed": xa, "fresh": xb})
        if not has_wrap:
            extra = [(targeted[1], targeted[0], k) for k in ("list", "holder")] if targeted else []
            for t, d, kind in extra + [(t, rng.choice(["DUn", "DSt"]), rng.choice(["list", "holder"])) for t in rng.sample(L.NESTABLE, 3)]:
                if d == "DUn" and kind == "list" and not full:
                    continue
                s = ("nested", 0, d, pool.tid(t), kind)
                xa, xb = A.do(s), B.do(s)
                hist["nested_probes"] += 1
                if xa != xb:
                    v.violation("warmed converter and fresh replay disagree on a nested position",
                                {"lane": "DISP/C08", "warmed_steps": fmt_case(pool, A.steps), "probe": f"{d} {kind} of {pool.names[pool.tid(t)]}",
                                 "warmed": xa, "fresh": xb})
        cases.append(A.steps)
        cases.append(B.steps)
        v.count(repr(A.steps), L.nontrivial_history(A.steps))
        if ci < 3:
            v.samples.append(fmt_case(pool, A.steps))
    bad = run_model(v, f"c08_{v.seed}", world_text, cases, "DISP/C08")
    if bad is not None:
        v.obligation("correspondence:DISP/C08 (model lookup = implementation lookup, warmed and fresh sessions)", not bad,
                     "" if not bad else f"{len(bad)} sessions disagree, first: " + "; ".join(fmt_case(pool, cases[bad[0][0]])) +
                     f" | disagreeing steps {bad[0][1]} | model answers: {model_answers(world_text, cases[bad[0][0]])}")
    v.coverage["input_distribution"] = hist
    return cases


def check_c18(v: Verdict, t1_summary, n_cases, max_ops):
    rng = random.Random(v.seed * 7919 + 18)
    pool, preds, world_text = world_and_pool(t1_summary, v)
    cases = []
    hist = {"cases": 0, "deepcopy": 0, "with_overrides": 0, "custom_fallback": 0, "union_struct_regs": 0,
            "battery_probes": 0, "divergent_regs": 0, "f5_fallback_hits": 0, "f5_union_hits": 0}
    gsess = L.RealSession(pool)
    gsess.convs.append(cattrs.global_converter)
    gbattery = [(d, pool.tid(t)) for t in pool.probe_types for d in ("DUn", "DSt")]
    gbefore = [gsess.observe(0, d, by_id(pool)[tid]) for d, tid in gbattery]
    for ci in range(n_cases):
        g = L.Gen(rng, pool, preds, v.tier)
        full = rng.random() < 0.6
        o = g.options(full, allow_fallback=rng.random() < 0.3)
        hist["custom_fallback"] += ("OUnstructFallback" in o or "OStructFallback" in o)
        allow_us = rng.random() < 0.2
        r = Runner(pool, preds)
        r.do(("new", full, o))
        for _ in range(rng.randint(2, max_ops)):
            r.do(g.reg_step(0, allow_union_struct=allow_us, full=full) if rng.random() < 0.7 else g.get_step(0))
        union_tags = {s[4] for s in r.history[0] if s[0] == "reghook" and s[2] == "DSt" and pool.is_union(r.idmap[s[3]])}
        hist["union_struct_regs"] += bool(union_tags)
        deep = rng.random() < 0.2
        ov = {}
        if not deep and rng.random() < 0.5:
            for k in rng.sample(["OStrat", "ODetailed", "OPrefer"] + (["OForbid", "OOmit"] if full else []), rng.randint(1, 2)):
                ov[k] = rng.randint(0, 1)
            if rng.random() < 0.5:
                ov["OStrat"] = 1 - o.get("OStrat", 0)      # switch the strategy: the born-with tables of the two converters differ
        hist["strategy_switched"] = hist.get("strategy_switched", 0) + (ov.get("OStrat", o.get("OStrat", 0)) != o.get("OStrat", 0))
        hist["deepcopy"] += deep
        hist["with_overrides"] += bool(ov)
        r.do(("copy", 0, ov, deep))
        # options of the copy
        got = r.do(("opts", 1))
        want = dict(r.kinds[1][1])
        for k, val in got.items():
            if want.get(k, 0) != val:
                v.violation("copy() lost or changed a construction option",
                            {"lane": "DISP/C18", "steps": fmt_case(pool, r.steps), "option": k, "copy_has": val, "expected": want.get(k, 0)})
        battery = probe_battery(rng, pool, 7)
        for s in r.history[0]:
            if s[0] == "reghook":
                battery.append((s[2], s[3]))
        # every predicate / factory registration gets a probe type its predicate accepts (oldest ones first)
        for s in r.history[0]:
            if s[0] in ("regfunc", "regfact"):
                acc = [t for t in pool.probe_types if L.safe_call(r.predfn[s[3]], t)]
                if acc:
                    battery.append((s[2], pool.tid(rng.choice(acc))))
        battery += [("DUn", pool.tid(L.NT)), ("DSt", pool.tid(L.NT))]   # a type only the fallback handles when unregistered
        battery += [("DUn", pool.tid(L.A)), ("DSt", pool.tid(L.A))]

        def run_battery():
            res = {}
            for d, tid in battery:
                xa = r.do(("probe", 0, d, tid, True))
                xb = r.do(("probe", 1, d, tid, True))
                res[(d, tid)] = (xa, xb)
                hist["battery_probes"] += 1
            return res
        first = run_battery()
        for (d, tid), (xa, xb) in first.items():
            if xa != xb:
                if xa[0] == "XFallback" and xb == ("XBuiltin",):
                    hist["f5_fallback_hits"] += 1
                    v.finding("F5a", "copy() lost a custom fallback factory",
                              {"lane": "DISP/C18", "steps": fmt_case(pool, r.steps), "probe": f"{d} {pool.names[tid]}", "original": xa, "copy": xb})
                elif d == "DSt" and xa[0] == "XUser" and xa[1] in union_tags:
                    hist["f5_union_hits"] += 1
                    v.finding("F5b", "copy() lost a structure hook registered for a union",
                              {"lane": "DISP/C18", "steps": fmt_case(pool, r.steps), "probe": f"{d} {pool.names[tid]}", "original": xa, "copy": xb})
                else:
                    v.violation("copy behaves differently from the original at copy time",
                                {"lane": "DISP/C18", "steps": fmt_case(pool, r.steps), "probe": f"{d} {pool.names[tid]}", "original": xa, "copy": xb})
        # diverge: register on one side only, the other side must not move
        side = rng.choice([0, 1])
        for _ in range(rng.randint(1, 4)):
            r.do(g.reg_step(side, allow_union_struct=allow_us, full=full))
            hist["divergent_regs"] += 1
        second = run_battery()
        other = 1 - side
        for key in first:
            if first[key][other] != second[key][other]:
                v.violation("a registration on one converter changed the other one",
                            {"lane": "DISP/C18", "steps": fmt_case(pool, r.steps), "probe": f"{key[0]} {pool.names[key[1]]}",
                             "before": first[key][other], "after": second[key][other], "registered_on": side})
        cases.append(r.steps)
        hist["cases"] += 1
        v.count(repr(r.steps), L.nontrivial_history(r.steps))
        if ci < 3:
            v.samples.append(fmt_case(pool, r.steps))
    gafter = [gsess.observe(0, d, by_id(pool)[tid]) for d, tid in gbattery]
    if gbefore != gafter:
        v.violation("operations on converter instances changed the global converter", {"lane": "DISP/C18", "before": gbefore, "after": gafter})
    bad = run_model(v, f"c18_{v.seed}", world_text, cases, "DISP/C18")
    if bad is not None:
        v.obligation("correspondence:DISP/C18 (model of copy() = implementation, lookups and options)", not bad,
                     "" if not bad else f"{len(bad)} sessions disagree, first: " + "; ".join(fmt_case(pool, cases[bad[0][0]])) +
                     f" | disagreeing steps {bad[0][1]} | model answers: {model_answers(world_text, cases[bad[0][0]])}")
    v.coverage["input_distribution"] = hist
    return cases
