"""TWIN battery for C08 (no model): hooks that cattrs GENERATES capture other hooks and registry state at generation time
(collection hooks capture element hooks, class hooks capture attribute hooks, the default union disambiguator reads the member
classes' hook overrides, strategies capture member hooks).  A converter on which such hooks were generated BEFORE a
registration (by structure / unstructure / get_*_hook calls) must afterwards answer every probe like a fresh converter that
only received the registrations.  Registrations go through every public path, including hooks built with
make_dict_(un)structure_fn(..., override(rename=...)) and the union strategies."""
from __future__ import annotations

import copy
import dataclasses
import random
from typing import Dict, List, NamedTuple, Optional, Tuple, TypedDict, Union

import typing

import attrs

from common import Verdict


@attrs.define
class TA:
    a: int
    k: str = "k"


@attrs.define
class TB:
    b: str


@dataclasses.dataclass
class TD_:
    d: int


@attrs.define
class TE:
    pass


@attrs.define
class THolder:
    x: TA
    n: int = 0


@dataclasses.dataclass
class TDHolder:
    x: TA
    u: Union[TA, TB]


class TNT(NamedTuple):
    x: TA
    n: int


class TTD(TypedDict):
    x: TA
    n: int


@attrs.define
class TExpr:
    pass


@attrs.define
class TLit(TExpr):
    value: int = 0


@attrs.define
class TAdd(TExpr):
    left: TExpr = attrs.Factory(TLit)
    right: TExpr = attrs.Factory(TLit)
    opt: Optional[TExpr] = None


# This module's annotations are strings (PEP 563).  Resolving them is something Converter's GENERATED hooks do on first use -- in
# place, for the whole process -- and BaseConverter does not do at all (docs/indepth.md lists PEP 563 support among what the generated
# hooks add): whether a BaseConverter case worked would depend on whether some Converter had touched the class before.  Resolve here.
for _cl in (TA, TB, TE, THolder, TExpr, TLit, TAdd):
    attrs.resolve_types(_cl)
for _cl in (TD_, TDHolder):
    _hints = typing.get_type_hints(_cl)
    for _f in dataclasses.fields(_cl):
        _f.type = _hints[_f.name]
    _cl.__annotations__ = dict(_hints)

U_AB = Union[TA, TB]
U_ABN = Union[TA, TB, None]
U_ADE = Union[TA, TD_, TE]

OUTER = [("TA", TA), ("THolder", THolder), ("TDHolder", TDHolder), ("List[TA]", List[TA]), ("Dict[str, TA]", Dict[str, TA]),
         # the None-FIRST spelling of an Optional compares and hashes equal to the None-last one (one cache entry for both): probed BEFORE it
         ("Union[None, TA]", Union[None, TA]), ("Union[None, int]", Union[None, int]), ("Optional[TA]", Optional[TA]), ("Optional[int]", Optional[int]),
         ("Tuple[TA, int]", Tuple[TA, int]), ("Tuple[TA, ...]", Tuple[TA, ...]), ("Union[TA, TB]", U_AB), ("Union[TA, TB, None]", U_ABN),
         ("Union[TA, TD_, TE]", U_ADE), ("List[Union[TA, TB]]", List[U_AB]), ("TNT", TNT), ("TTD", TTD), ("List[int]", List[int]), ("Dict[str, int]", Dict[str, int]),
         ("Set[int]", set[int]), ("TExpr", TExpr), ("TAdd", TAdd), ("List[TExpr]", List[TExpr])]
BASE_UNSUPPORTED = {"Tuple[TA, int]", "TNT", "TTD"}        # outside BaseConverter's documented support


def values_for(label):
    a, a2, b, d = TA(1), TA(2, "z"), TB("q"), TD_(5)
    return {
        "TA": [a, a2], "THolder": [THolder(a, 3)], "TDHolder": [TDHolder(a, b), TDHolder(a2, a)], "List[TA]": [[a, a2], []], "Dict[str, TA]": [{"p": a}],
        "Optional[TA]": [a, None], "Union[None, TA]": [a, None], "Union[None, int]": [3, None], "Optional[int]": [3, None], "Tuple[TA, int]": [(a, 4)], "Tuple[TA, ...]": [(a, a2)], "Union[TA, TB]": [a, b], "Union[TA, TB, None]": [a, b, None],
        "Union[TA, TD_, TE]": [a, d, TE()], "List[Union[TA, TB]]": [[a, b]], "TNT": [TNT(a, 2)], "TTD": [{"x": a, "n": 2}], "List[int]": [[1, 2]],
        "Dict[str, int]": [{"k": 1}], "Set[int]": [{1, 2}],
        "TExpr": [TLit(1), TAdd(TLit(1), TAdd(TLit(2), TLit(3)), TLit(4))], "TAdd": [TAdd(TLit(1), TAdd(TLit(2), TLit(3), TLit(5)))],
        "List[TExpr]": [[TLit(1), TAdd(TAdd(), TLit(2))]]}[label]


def payloads_for(label):
    pa = [{"a": 1}, {"a": 2, "k": "z"}, {"alpha": 3}, {"alpha": 4, "k": "y"}, {"a": 1, "_type": "TA"}, {"alpha": 1, "_type": "TA"}, {"b": "q", "_type": "TB"}, {}]
    pb = [{"b": "q"}, {"beta": "r"}]
    if label == "TA":
        return pa
    if label == "THolder":
        return [{"x": p, "n": 1} for p in pa[:4]]
    if label == "TDHolder":
        return [{"x": pa[0], "u": p} for p in pa[:4] + pb] + [{"x": pa[2], "u": pb[0]}]
    if label == "List[TA]":
        return [[p] for p in pa[:4]] + [[]]
    if label == "Dict[str, TA]":
        return [{"p": p} for p in pa[:4]]
    if label in ("Optional[TA]", "Union[None, TA]"):
        return pa[:4] + [None]
    if label in ("Optional[int]", "Union[None, int]"):
        return [3, None, "x"]
    if label == "Tuple[TA, int]":
        return [(p, 4) for p in pa[:4]]
    if label == "Tuple[TA, ...]":
        return [(p,) for p in pa[:4]]
    if label in ("Union[TA, TB]", "Union[TA, TB, None]"):
        return pa + pb + ([None] if "None" in label else [])
    if label == "Union[TA, TD_, TE]":
        return pa[:4] + [{"d": 5}, {"delta": 5}, {}]
    if label == "List[Union[TA, TB]]":
        return [[p] for p in pa[:4] + pb]
    if label == "TNT":
        return [(p, 2) for p in pa[:4]]
    if label == "TTD":
        return [{"x": p, "n": 2} for p in pa[:4]]
    if label == "List[int]":
        return [[1, 2], ["3"]]
    if label == "Dict[str, int]":
        return [{"k": 1}, {"k": "2"}]
    if label == "Set[int]":
        return [[1, 2], {3}]
    lit, lit_t = {"value": 1}, {"value": 1, "_type": "TLit"}
    add_t = {"left": lit_t, "right": {"left": lit_t, "right": lit_t, "opt": None, "_type": "TAdd"}, "opt": lit_t, "_type": "TAdd"}
    add = {"left": lit, "right": lit, "opt": None}
    if label == "TExpr":
        return [lit, lit_t, add_t, add, {}]
    if label == "TAdd":
        return [add_t, add, {"left": lit_t}]
    if label == "List[TExpr]":
        return [[lit_t, add_t], [lit], []]
    raise ValueError(label)


# ---- registrations: (name, apply(conv)); every one is deterministic and is replayed on the fresh converter
def registrations(full):
    from cattrs.gen import make_dict_structure_fn, make_dict_unstructure_fn, override
    from cattrs.strategies import configure_tagged_union, include_subclasses
    R = []
    R.append(("register_structure_hook(TA, f)", lambda c: c.register_structure_hook(TA, lambda o, _: TA(o["a"] + 100) if "a" in o else TA(o["alpha"] + 500))))
    R.append(("register_unstructure_hook(TA, f)", lambda c: c.register_unstructure_hook(TA, lambda x: {"a": x.a + 100})))
    R.append(("register_structure_hook(TA, make_dict_structure_fn(TA, conv, a=override(rename='alpha')))",
              lambda c: c.register_structure_hook(TA, make_dict_structure_fn(TA, c, a=override(rename="alpha")))))
    R.append(("register_unstructure_hook(TA, make_dict_unstructure_fn(TA, conv, a=override(rename='alpha')))",
              lambda c: c.register_unstructure_hook(TA, make_dict_unstructure_fn(TA, c, a=override(rename="alpha")))))
    R.append(("register_structure_hook(TB, make_dict_structure_fn(TB, conv, b=override(rename='beta')))",
              lambda c: c.register_structure_hook(TB, make_dict_structure_fn(TB, c, b=override(rename="beta")))))
    R.append(("register_structure_hook(TD_, make_dict_structure_fn(TD_, conv, d=override(rename='delta')))",
              lambda c: c.register_structure_hook(TD_, make_dict_structure_fn(TD_, c, d=override(rename="delta")))))
    R.append(("register_structure_hook_func(lambda t: t is TA, f)", lambda c: c.register_structure_hook_func(lambda t: t is TA, lambda o, _: TA(o.get("a", 0) + 200))))
    R.append(("register_unstructure_hook_func(lambda t: t is TA, f)", lambda c: c.register_unstructure_hook_func(lambda t: t is TA, lambda x: {"a": x.a + 200})))
    R.append(("register_structure_hook_factory(lambda t: t is TA, factory)",
              lambda c: c.register_structure_hook_factory(lambda t: t is TA, lambda t: (lambda o, _: TA(o.get("a", 0) + 300)))))
    R.append(("register_unstructure_hook_factory(lambda t: t is TA, factory(type, converter))",
              lambda c: c.register_unstructure_hook_factory(lambda t: t is TA, lambda t, conv: (lambda x: {"a": x.a + 300}))))
    # the DECORATOR form of the factory registrations, with two-argument factories that look the inner hooks up when the hook is generated
    def dec_un(c):
        @c.register_unstructure_hook_factory(lambda t: t is THolder)
        def _fac(t, conv):
            return make_dict_unstructure_fn(t, conv)

    def dec_st(c):
        @c.register_structure_hook_factory(lambda t: t is THolder)
        def _fac(t, conv):
            return make_dict_structure_fn(t, conv)

    def dec_un1(c):
        @c.register_unstructure_hook_factory(lambda t: t is TDHolder)
        def _fac(t):
            return make_dict_unstructure_fn(t, c)
    R.append(("@register_unstructure_hook_factory(lambda t: t is THolder) def factory(type, converter): return make_dict_unstructure_fn(type, converter)", dec_un))
    R.append(("@register_structure_hook_factory(lambda t: t is THolder) def factory(type, converter): return make_dict_structure_fn(type, converter)", dec_st))
    R.append(("@register_unstructure_hook_factory(lambda t: t is TDHolder) def factory(type): return make_dict_unstructure_fn(type, conv)", dec_un1))
    R.append(("register_structure_hook(int, f)", lambda c: c.register_structure_hook(int, lambda o, _: int(o) + 1000)))
    R.append(("register_unstructure_hook(int, f)", lambda c: c.register_unstructure_hook(int, lambda x: x + 1000)))
    R.append(("register_structure_hook(Union[TA, TB], f)", lambda c: c.register_structure_hook(U_AB, lambda o, _: TB("from-union-hook"))))
    R.append(("register_unstructure_hook(Union[TA, TB], f)", lambda c: c.register_unstructure_hook(U_AB, lambda x: {"u": type(x).__name__})))
    R.append(("configure_tagged_union(Union[TA, TB], conv)", lambda c: configure_tagged_union(U_AB, c)))
    R.append(("include_subclasses(TExpr, conv, union_strategy=configure_tagged_union)", lambda c: include_subclasses(TExpr, c, union_strategy=configure_tagged_union)))
    R.append(("include_subclasses(TExpr, conv)", lambda c: include_subclasses(TExpr, c)))
    if full:
        R.append(("register_structure_hook(TTD, f)", lambda c: c.register_structure_hook(TTD, lambda o, _: {"x": TA(7), "n": 70})))
    return R


def warmers(full):
    W = []
    for label, T in OUTER:
        if not full and label in BASE_UNSUPPORTED:
            continue
        W.append((f"get_structure_hook({label})", lambda c, T=T: c.get_structure_hook(T)))
        W.append((f"get_unstructure_hook({label})", lambda c, T=T: c.get_unstructure_hook(T)))
        for x in values_for(label)[:1]:
            W.append((f"unstructure({x!r}, {label})", lambda c, T=T, x=x: c.unstructure(copy.deepcopy(x), unstructure_as=T)))
        for o in payloads_for(label)[:2]:
            W.append((f"structure({o!r}, {label})", lambda c, T=T, o=o: c.structure(copy.deepcopy(o), T)))
    return W


def outcome(f):
    try:
        return ("ok", repr(f()))
    except RecursionError:
        raise
    except BaseException as e:        # noqa
        return ("err", type(e).__name__)


def probe(c, full):
    out = []
    for label, T in OUTER:
        if not full and label in BASE_UNSUPPORTED:
            continue
        for o in payloads_for(label):
            out.append((f"structure({o!r}, {label})", outcome(lambda: c.structure(copy.deepcopy(o), T))))
        for x in values_for(label):
            out.append((f"unstructure({x!r}, {label})", outcome(lambda: c.unstructure(copy.deepcopy(x), unstructure_as=T))))
    return out


def check_c08_twin(v: Verdict, n_cases: int):
    from cattrs import BaseConverter, Converter
    rng = random.Random(v.seed * 32452843 + 8)
    hist = {"cases": 0, "warming_calls": 0, "registrations": 0, "probes": 0, "converter": {"Converter": 0, "BaseConverter": 0},
            "registration_kinds": {}, "rounds": 0}
    for ci in range(n_cases):
        full = rng.random() < 0.7
        kw = {"detailed_validation": rng.random() < 0.5}
        if full:
            kw["forbid_extra_keys"] = rng.random() < 0.3
        cls = Converter if full else BaseConverter
        warmed, fresh = cls(**kw), cls(**kw)
        hist["cases"] += 1
        hist["converter"][cls.__name__] += 1
        R, W = registrations(full), warmers(full)
        steps = []
        applied = []
        for rnd in range(rng.randint(1, 3)):
            hist["rounds"] += 1
            for name, f in rng.sample(W, rng.randint(2, 8)):
                steps.append("warm: " + name)
                hist["warming_calls"] += 1
                try:
                    f(warmed)
                except RecursionError:
                    raise
                except BaseException:      # noqa  (a failing warm-up call is still a warm-up call)
                    pass
            for name, f in rng.sample(R, rng.randint(1, 3)):
                steps.append("register: " + name)
                hist["registrations"] += 1
                hist["registration_kinds"][name.split("(")[0]] = hist["registration_kinds"].get(name.split("(")[0], 0) + 1
                ra, rb = outcome(lambda: f(warmed)), outcome(lambda: f(fresh))
                applied.append(name)
                if ra[0] != rb[0]:
                    v.violation("a registration succeeds on one of {warmed converter, fresh replay} and fails on the other",
                                {"lane": "TWIN/C08", "converter": cls.__name__, "options": kw, "steps": steps, "warmed": ra, "fresh": rb})
        v.count(repr((cls.__name__, sorted(kw.items()), steps)), True)
        pa, pb = probe(warmed, full), probe(fresh, full)
        hist["probes"] += len(pa)
        for (what, xa), (_w, xb) in zip(pa, pb):
            if xa != xb:
                v.violation("warmed converter and fresh replay of the registrations disagree (generated hooks capture stale state)",
                            {"lane": "TWIN/C08", "converter": cls.__name__, "options": kw, "steps": steps, "probe": what, "warmed": xa, "fresh": xb})
                break
    strategy_after_warm(v, hist)
    v.coverage["twin_battery"] = hist


def strategy_after_warm(v: Verdict, hist, only=None, lane="TWIN/C08 strategy after use"):
    """systematic: every strategy (include_subclasses with / without a union strategy, configure_tagged_union, union passthrough) applied
    to a converter on which ONE probe type was used before (each type, each direction) vs the same strategy on a fresh converter:
    strategies build hooks from hooks they fetch from the converter, and must not pick up what earlier use left in its caches"""
    from cattrs import Converter
    from cattrs.strategies import configure_tagged_union, configure_union_passthrough, include_subclasses
    strategies = [("include_subclasses(TExpr, conv, union_strategy=configure_tagged_union)", lambda c: include_subclasses(TExpr, c, union_strategy=configure_tagged_union)),
                  ("include_subclasses(TExpr, conv)", lambda c: include_subclasses(TExpr, c)),
                  ("configure_tagged_union(Union[TA, TB], conv)", lambda c: configure_tagged_union(U_AB, c)),
                  ("configure_tagged_union(Union[TA, TB], conv, default=TA)", lambda c: configure_tagged_union(U_AB, c, default=TA)),
                  ("configure_union_passthrough(Union[int, str, None], conv)", lambda c: configure_union_passthrough(Union[int, str, None], c))]
    n = 0
    for sname, apply in strategies:
        if only is not None and not any(o in sname for o in only):
            continue
        for label, T in OUTER:
            for direction in ("unstructure", "structure", "get_unstructure_hook", "get_structure_hook"):
                for dv in (True, False):
                    warmed, fresh = Converter(detailed_validation=dv), Converter(detailed_validation=dv)
                    try:
                        if direction == "unstructure":
                            warmed.unstructure(copy.deepcopy(values_for(label)[-1]), unstructure_as=T)
                        elif direction == "structure":
                            warmed.structure(copy.deepcopy(payloads_for(label)[0]), T)
                        elif direction == "get_unstructure_hook":
                            warmed.get_unstructure_hook(T)
                        else:
                            warmed.get_structure_hook(T)
                    except RecursionError:
                        raise
                    except BaseException:      # noqa
                        pass
                    ra, rb = outcome(lambda: apply(warmed)), outcome(lambda: apply(fresh))
                    n += 1
                    steps = [f"warm: {direction}({label})", "apply: " + sname]
                    v.count(repr(("strategy-after-warm", sname, label, direction, dv)), True)
                    if ra[0] != rb[0]:
                        v.violation("a strategy can be applied to one of {used converter, fresh converter} only",
                                    {"lane": lane, "detailed_validation": dv, "steps": steps, "used": ra, "fresh": rb})
                        continue
                    pa, pb = probe(warmed, True), probe(fresh, True)
                    for (what, xa), (_w, xb) in zip(pa, pb):
                        if xa != xb:
                            v.violation("a strategy applied after the converter was used behaves differently from the same strategy on a fresh converter (it picked up cached hooks)",
                                        {"lane": lane, "detailed_validation": dv, "steps": steps, "probe": what, "used": xa, "fresh": xb})
                            break
    hist["strategy_after_warm_cases"] = n
