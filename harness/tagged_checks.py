"""TAG lane: configure_tagged_union (C13)."""
from __future__ import annotations

import dataclasses
import random
import re
from typing import Union

import attrs

from cattrs import BaseConverter, Converter
from cattrs.strategies import configure_tagged_union
from common import Verdict, parse_coq_value, run_cases_file
from lane_tpl import Interner, cN, c_list, c_pairs, c_bool


from nested_types import M0, M1, M2, M3, M0Sub, Outside

MEMBERS = [M0, M1, M2, M3]
CID = {M0: 1, M1: 2, M2: 3, M3: 4, M0Sub: 5, Outside: 6}


class Rec:
    def __init__(self, cl, d):
        self.cl, self.d = cl, d


def member_dict(x):
    return dict(attrs.asdict(x)) if attrs.has(type(x)) and not dataclasses.is_dataclass(x) else dict(dataclasses.asdict(x))


def make_tag_gen(rng, members):
    k = rng.random()
    if k < 0.4:
        return "default", (lambda cl: cl.__name__)
    if k < 0.7:
        m = {cl: f"tag{i}" for i, cl in enumerate(MEMBERS + [M0Sub, Outside])}
        return "dict", m.__getitem__
    if k < 0.9:
        return "prefixed", (lambda cl: "x_" + cl.__name__.lower())
    return "colliding", (lambda cl: "same" if cl in (M0, M1) else cl.__name__)    # not injective


def check_c13(v: Verdict, n_cfg):
    rng = random.Random(v.seed * 7919 + 13)
    intern = Interner()

    def tagid(t):
        return 100000 + intern(("tag", t))

    cases, meta = [], []
    hist = {"configs": 0, "forbid": 0, "with_default": 0, "noninjective": 0, "tag_name_collides": 0, "unstructure_obs": 0,
            "structure_obs": 0, "roundtrips": 0, "member_outside_checks": 0, "missing_tag": 0, "unknown_tag": 0, "used_under_reordered_spelling": 0}
    for ci in range(n_cfg):
        members = rng.sample(MEMBERS, rng.randint(2, 4))
        u = Union[tuple(members)]
        # the union is configured under one spelling and used under an equal one (members in another order): Union[A, B] == Union[B, A]
        respell = rng.random() < 0.5
        uq = Union[tuple(members[::-1])] if respell else u
        gen_kind, tag_gen = make_tag_gen(rng, members)
        tag_name = rng.choice(["_type", "_type", "kind", "t", "a"])
        default = rng.choice([None, None, members[0], members[-1], Outside])
        forbid = rng.random() < 0.5
        full = rng.random() < 0.7
        dv = rng.random() < 0.5
        hist["configs"] += 1
        hist["used_under_reordered_spelling"] += respell
        hist["forbid"] += forbid
        hist["with_default"] += default is not None
        hist["noninjective"] += gen_kind == "colliding" and M0 in members and M1 in members
        hist["tag_name_collides"] += tag_name in ("kind", "a")

        def mk(recording):
            kw = {"detailed_validation": dv}
            if full:
                kw["forbid_extra_keys"] = forbid
            c = (Converter if full else BaseConverter)(**kw)
            if recording:
                for cl in MEMBERS + [Outside]:
                    c.register_structure_hook(cl, lambda val, t: Rec(t, dict(val)))
                    c.register_unstructure_hook(cl, member_dict)
            kwargs = {"tag_generator": tag_gen, "tag_name": tag_name}
            if default is not None:
                kwargs["default"] = default
            configure_tagged_union(u, c, **kwargs)
            return c
        rec = mk(True)
        real = mk(False)
        plain = (Converter if full else BaseConverter)(detailed_validation=dv, **({"forbid_extra_keys": forbid} if full else {}))
        eff_forbid = forbid and full
        cfg = ("{| tg_members := %s; tg_tag := fun c => %s; tg_name := %s; tg_default := %s; tg_forbid := %s |}" % (
            c_list(cN(CID[m]) for m in members),
            "match c with " + " | ".join(f"{CID[m]}%N => {tagid(tag_gen(m))}%N" for m in CID) + " | _ => 0%N end",
            cN(intern(tag_name)), "None" if default is None else f"(Some {CID[default]}%N)", c_bool(eff_forbid)))
        desc = {"union": [m.__name__ for m in members], "tag_generator": gen_kind, "tag_name": tag_name,
                "default": getattr(default, "__name__", None), "forbid_extra_keys": eff_forbid, "converter": "Converter" if full else "BaseConverter", "dv": dv,
                "used_as": "Union[" + ", ".join(m.__name__ for m in (members[::-1] if respell else members)) + "]"}
        insts = []
        for m in members + [M0Sub]:
            fields = [a.name for a in (attrs.fields(m) if attrs.has(m) and not dataclasses.is_dataclass(m) else dataclasses.fields(m))]
            insts.append(m(**{f: rng.randrange(1, 40) for f in fields}))
        for x in insts:
            # ---- going out (recording hooks: correspondence; real hooks: oracle)
            md = member_dict(x)
            try:
                out = rec.unstructure(x, unstructure_as=uq)
                obs = "(Ok %s)" % c_pairs([(intern(k), (val if isinstance(val, int) else tagid(val))) for k, val in out.items()])
            except KeyError:
                out, obs = None, "(Err EKey)"
            except Exception as e:
                out, obs = None, f"(Err EOther)"
            hist["unstructure_obs"] += 1
            cases.append("res_eqb (unstructure_tagged N %s %s %s) %s" % (cfg, cN(CID[type(x)]), c_pairs([(intern(k), val) for k, val in md.items()]), obs))
            meta.append({**desc, "op": "unstructure", "instance": repr(x), "observed": repr(out)})
            v.count(repr((desc, repr(x))), True)
            if type(x) not in members:
                continue
            injective = len({tag_gen(m) for m in members}) == len(members)
            if not injective:
                continue
            # oracle on the real hooks
            try:
                payload = real.unstructure(x, unstructure_as=uq)
                own = plain.unstructure(x)
                if tag_name not in own:
                    if set(payload) != set(own) | {tag_name} or payload[tag_name] != tag_gen(type(x)) or any(payload[k] != own[k] for k in own):
                        v.violation("tagged union payload is not the member's own dict plus exactly the tag",
                                    {"lane": "TAG/C13", **desc, "instance": repr(x), "payload": payload, "member_dict": own})
                    back = real.structure(payload, uq)
                    hist["roundtrips"] += 1
                    if back != x or type(back) is not type(x):
                        v.violation("tagged union round trip returned another instance",
                                    {"lane": "TAG/C13", **desc, "instance": repr(x), "payload": payload, "back": repr(back)})
            except Exception as e:
                v.violation("tagged union round trip raised", {"lane": "TAG/C13", **desc, "instance": repr(x), "error": repr(e)})
            # ---- coming in: variations of the payload through the recording hooks
            base = dict(md)
            variants = [("tagged", {**base, tag_name: tag_gen(type(x))}),
                        ("missing", {k: val for k, val in base.items() if k != tag_name}),
                        ("unknown", {**base, tag_name: "nope"}),
                        ("unknown", {**base, tag_name: None}),          # present, with a value no member has: None
                        ("extra", {**base, tag_name: tag_gen(type(x)), "zz": 1}),
                        ("tag_first", {tag_name: tag_gen(type(x)), **base})]
            for vname, p in variants:
                hist["structure_obs"] += 1
                hist["missing_tag"] += vname == "missing"
                hist["unknown_tag"] += vname == "unknown"
                before = dict(p)
                try:
                    r = rec.structure(p, uq)
                    obs = "(Ok (%s, %s))" % (cN(CID[r.cl]), c_pairs([(intern(k), (val if isinstance(val, int) else tagid(val))) for k, val in r.d.items()]))
                    robs = (r.cl.__name__, r.d)
                except KeyError:
                    obs, robs = "(Err EKey)", "KeyError"
                except Exception as e:
                    obs, robs = "(Err EOther)", repr(e)
                if p != before:
                    v.violation("structuring a tagged union mutated its argument", {"lane": "TAG/C13", **desc, "payload": before, "after": p})
                cases.append("sres_eqb (structure_tagged N N.eqb %s %s) %s" % (
                    cfg, c_pairs([(intern(k), (val if isinstance(val, int) else tagid(val))) for k, val in before.items()]), obs))
                meta.append({**desc, "op": "structure", "variant": vname, "payload": before, "observed": robs})
                # oracle: missing / unknown tag -> default member or an error
                if vname in ("missing", "unknown") and tag_name not in base:
                    try:
                        got = real.structure(dict(p), uq)
                        if default is None or type(got) is not default:
                            v.violation("missing/unknown tag did not select the default member",
                                        {"lane": "TAG/C13", **desc, "variant": vname, "payload": before, "got": repr(got)})
                    except Exception as e:
                        if default is not None and default in CID and not (eff_forbid and vname == "unknown" and False):
                            # with a default member the payload must be accepted unless the default member itself rejects it
                            try:
                                plain.structure({k: val for k, val in p.items() if not (eff_forbid and k == tag_name)}, default)
                                ok_alone = True
                            except Exception:
                                ok_alone = False
                            if ok_alone:
                                v.violation("missing/unknown tag raised although a default member is configured",
                                            {"lane": "TAG/C13", **desc, "variant": vname, "payload": before, "error": repr(e)})
            # ---- members outside the union are untouched by the configuration
            hist["member_outside_checks"] += 1
            try:
                if real.unstructure(x) != plain.unstructure(x) or real.structure(plain.unstructure(x), type(x)) != x:
                    raise AssertionError("differs")
                bad_payload = {**plain.unstructure(x), "zz": 1}
                a = _outcome(lambda: real.structure(dict(bad_payload), type(x)))
                b = _outcome(lambda: plain.structure(dict(bad_payload), type(x)))
                if a != b:
                    raise AssertionError(f"extra key handled differently: {a} vs {b}")
            except Exception as e:
                v.violation("un/structuring a member outside the union changed after configure_tagged_union",
                            {"lane": "TAG/C13", **desc, "instance": repr(x), "error": repr(e)})
        if len(v.samples) < 3:
            v.samples.append(desc)
    pre = ("From V.Model Require Import Base Tagged.\n"
           "Definition d_eqb (a b : list (N * N)) : bool := (fix eq (a b : list (N * N)) := match a, b with [] , [] => true | (k, x) :: a', (l, y) :: b' => N.eqb k l && N.eqb x y && eq a' b' | _, _ => false end) a b.\n"
           "Definition dm_eqb (a b : list (N * N)) : bool := Nat.eqb (length a) (length b) && forallb (fun kv => match assoc b (fst kv) with Some x => N.eqb x (snd kv) | None => false end) a.\n"
           "Definition res_eqb (a b : result (list (N * N))) : bool := match a, b with Ok x, Ok y => dm_eqb x y | Err EKey, Err EKey => true | Err _, Err EOther => true | _, _ => false end.\n"
           "Definition sres_eqb (a b : result (N * list (N * N))) : bool := match a, b with Ok (c, x), Ok (d, y) => N.eqb c d && dm_eqb x y | Err EKey, Err EKey => true | _, _ => false end.\n")
    bad = []
    shard = 400
    for k in range(0, len(cases), shard):
        src = (pre + "Definition cs : list bool := [\n" + ";\n".join(cases[k:k + shard]) + "\n].\n"
               "Fixpoint bad (k : nat) (l : list bool) : list nat := match l with [] => [] | b :: r => if b then bad (S k) r else k :: bad (S k) r end.\n"
               "Eval vm_compute in (bad 0 cs).\n")
        rc, out = run_cases_file(f"c13_{v.seed}_{k}", src)
        vals = parse_coq_value(out)
        if rc != 0 or not vals:
            v.obligation("correspondence:TAG/C13:coqc", False, out[-700:])
            return
        if vals[-1] != "[]":
            bad += [k + int(x) for x in re.findall(r"\d+", vals[-1])]
    v.obligation("correspondence:TAG/C13 (which member hook is called with which dict; unstructure wrapper output)", not bad,
                 "" if not bad else f"{len(bad)} of {len(cases)} disagree, first: {meta[bad[0]]}")
    v.coverage["input_distribution"] = hist


def _outcome(f):
    try:
        return ("ok", repr(f()))
    except Exception as e:
        return ("err", type(e).__name__)


# ------------------------------------------------------------------------------------ C10: the tag key is not an extra

def forbidden_sets(exc):
    """every ForbiddenExtraKeysError in the exception (tree): sorted list of frozensets of the keys it names"""
    from cattrs.errors import ForbiddenExtraKeysError
    out = []

    def walk(e):
        if isinstance(e, ForbiddenExtraKeysError):
            out.append(frozenset(e.extra_fields))
        for s in getattr(e, "exceptions", ()) or ():
            walk(s)
    walk(exc)
    return sorted(out, key=sorted)


def check_c10_tagged(v: Verdict, n_cfg):
    """forbid_extra_keys x tagged unions, direct oracle (no model): a payload built as (a member's own dict) + (the tag) +
    (a known set E of extra keys) is accepted, as that member, iff E is empty, and otherwise the ForbiddenExtraKeysError
    names exactly E -- never the tag -- for known tags, and for unknown / missing tags when a default member is configured;
    top level, inside List[U] and inside an attrs class attribute; with forbid_extra_keys off the extras are inert."""
    from typing import List
    rng = random.Random(v.seed * 7919 + 10)
    hist = {"configs": 0, "payloads": 0, "with_default": 0, "unknown_tag": 0, "missing_tag": 0, "with_extras": 0, "nested_list": 0, "nested_class": 0, "forbid_off": 0}
    for ci in range(n_cfg):
        members = rng.sample(MEMBERS, rng.randint(2, 4))
        u = Union[tuple(members)]
        gen_kind, tag_gen = make_tag_gen(rng, members)
        if len({tag_gen(m) for m in members}) != len(members):
            continue
        tag_name = rng.choice(["_type", "kind", "t"])
        default = rng.choice([None, members[0], members[-1]])
        dv = rng.random() < 0.5
        forbid = rng.random() < 0.8
        hist["configs"] += 1
        hist["with_default"] += default is not None
        hist["forbid_off"] += not forbid
        c = Converter(detailed_validation=dv, forbid_extra_keys=forbid)
        kwargs = {"tag_generator": tag_gen, "tag_name": tag_name}
        if default is not None:
            kwargs["default"] = default
        configure_tagged_union(u, c, **kwargs)
        Holder = attrs.make_class("Holder", {"x": attrs.field(type=u), "n": attrs.field(type=int, default=0)})
        desc = {"battery": "C10/tagged", "union": [m.__name__ for m in members], "tag_generator": gen_kind, "tag_name": tag_name,
                "default": getattr(default, "__name__", None), "forbid_extra_keys": forbid, "detailed_validation": dv}

        def element():
            m = rng.choice(members)
            fields = [a.name for a in (attrs.fields(m) if attrs.has(m) and not dataclasses.is_dataclass(m) else dataclasses.fields(m))]
            if tag_name in fields:
                return None
            x = m(**{f: rng.randrange(1, 40) for f in fields})
            kind = rng.choice(["known", "known", "unknown", "unknown_none", "missing"]) if default is not None else "known"
            target = m
            p = member_dict(x)
            if kind != "known":
                # unknown / missing tag: the default member structures the payload
                target = default
                dfields = [a.name for a in (attrs.fields(default) if attrs.has(default) and not dataclasses.is_dataclass(default) else dataclasses.fields(default))]
                if tag_name in dfields:
                    return None
                x = default(**{f: rng.randrange(1, 40) for f in dfields})
                p = member_dict(x)
            E = set(rng.sample(["zz", "yy", "Tag"], rng.choice([0, 0, 1, 2])))
            E -= set(p)
            for k in E:
                p[k] = 1
            if kind == "known":
                p[tag_name] = tag_gen(m)
            elif kind == "unknown":
                p[tag_name] = "no-such-tag"
            elif kind == "unknown_none":
                p[tag_name] = None            # the tag key is present; its value names no member
            if rng.random() < 0.5:
                p = dict(reversed(list(p.items())))
            hist["unknown_tag"] += kind in ("unknown", "unknown_none")
            hist["missing_tag"] += kind == "missing"
            hist["with_extras"] += bool(E)
            return p, x, frozenset(E), kind

        for _ in range(6):
            shape = rng.choice(["top", "top", "list", "class"])
            n = rng.randint(1, 3) if shape == "list" else 1
            els = [element() for _ in range(n)]
            if any(e is None for e in els):
                continue
            hist["payloads"] += 1
            hist["nested_list"] += shape == "list"
            hist["nested_class"] += shape == "class"
            if shape == "top":
                payload, T, want = els[0][0], u, els[0][1]
            elif shape == "list":
                payload, T, want = [e[0] for e in els], List[u], [e[1] for e in els]
            else:
                payload, T, want = {"x": els[0][0], "n": 3}, Holder, Holder(els[0][1], 3)
            v.count(repr((desc, shape, repr(payload))), True)
            import copy as _copy
            try:
                got = ("ok", c.structure(_copy.deepcopy(payload), T))
            except Exception as e:  # noqa
                got = ("err", e)
            extras = [e[2] for e in els if e[2]]
            rpl = {**desc, "shape": shape, "payload": repr(payload), "tags": [e[3] for e in els], "extra_keys_added": [sorted(e[2]) for e in els]}
            if not forbid or not extras:
                if got[0] != "ok" or got[1] != want:
                    v.violation("a tagged-union payload without unknown keys (or with forbid_extra_keys off) was not structured as its member: the tag key counted as an extra, or extras were not inert",
                                {**rpl, "got": repr(got[1])})
                continue
            if got[0] == "ok":
                v.violation("forbid_extra_keys accepted a tagged-union payload with unknown keys", {**rpl, "got": repr(got[1])})
                continue
            named = forbidden_sets(got[1])
            expect = sorted(extras, key=sorted) if dv else [extras[0]]
            if named != expect:
                v.violation("ForbiddenExtraKeysError does not name exactly the unknown keys of a tagged-union payload (the tag key is not an extra)",
                            {**rpl, "named": [sorted(s) for s in named], "expected": [sorted(s) for s in expect], "error": repr(got[1])[:300]})
    v.coverage["c10_tagged_battery"] = hist
