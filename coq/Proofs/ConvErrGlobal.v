(* ConvErrGlobal.v -- C05, the global statement: the paths transform_error reports for a failing structure call are
   EXACTLY the positions of the failing leaves, composed through the positions on the way.

   [fpaths n t o] is the specification: it looks at the KIND of each sub-result only (accepted / failed with a leaf
   error / failed with a group) -- never at the content of an error tree -- and composes positions:
     - a position whose hook is accepted contributes nothing (no path for valid siblings);
     - a position whose hook fails with a leaf (non-group) exception contributes that position itself;
     - a sequence / homogeneous tuple position that fails with a group contributes, for every element in index
       order, [index] followed by the element's own fault paths;
     - a heterogeneous tuple likewise per position, plus its own position when the arity is wrong;
     - Optional / NewType / Annotated positions are their underlying position;
     - a class position (dict payload) contributes, for every attempted attribute in attribute order, .name followed
       by the attribute's fault paths (just .name when the key is missing or the value fails with a leaf), then its
       own position once when unknown keys are forbidden and present (or __init__ itself failed);
     - a set position contributes, per element, [index] followed by the element's fault paths, or [index] itself when the
       structured element cannot be hashed; a mapping position, per entry, [key] followed by the value's fault paths, else
       the key's, else [key] itself when the structured key cannot be hashed;
     - junk (a non-dict) at a class position, an un-iterable object at a collection position and Any/Any mappings are taken
       as reported.
   Theorem [paths_are_fault_positions]: structure n t o = Err e -> paths e [] = fpaths n t o, for every fuel, type and
   input, Converter with detailed validation, dict strategy, any forbid_extra_keys. *)
From Coq Require Import Lia.
From V.Model Require Import Base Templates Conv ConvErr.
From V.Proofs Require Import TemplatesProofs ConvErrProofs.

Section Global.
Variable E : env.
Variable cfg : ccfg.
Hypothesis H_dv : c_dv cfg = true.
Hypothesis H_gen : c_gen cfg = true.
Hypothesis H_tuple : c_tuple cfg = false.

Definition pre (s : step) (ps : list (list step)) : list (list step) := map (cons s) ps.

Fixpoint idx_paths (f : val -> list (list step)) (l : list val) (ix : N) : list (list step) :=
  match l with [] => [] | x :: r => pre (SIdx ix) (f x) ++ idx_paths f r (N.succ ix) end.

Fixpoint zip_paths (f : ty -> val -> list (list step)) (ts : list ty) (l : list val) (ix : N) : list (list step) :=
  match ts, l with t :: ts', x :: l' => pre (SIdx ix) (f t x) ++ zip_paths f ts' l' (N.succ ix) | _, _ => [] end.

(* sets: an element whose hook fails contributes its fault paths below [index]; an element that is structured but cannot be
   hashed contributes [index] itself *)
Fixpoint set_paths (f : val -> result val) (g : val -> list (list step)) (l : list val) (ix : N) : list (list step) :=
  match l with
  | [] => []
  | x :: r => pre (SIdx ix) (match f x with Err _ => g x | Ok y => if hashable y then [] else [[]] | OutOfFuel => [] end)
              ++ set_paths f g r (N.succ ix)
  end.

(* mappings: the value is tried first, then the key, then the insertion; everything is reported below [key] *)
Fixpoint map_paths (fk fv : val -> result val) (gk gv : val -> list (list step)) (kvs : list (val * val)) : list (list step) :=
  match kvs with
  | [] => []
  | (k, v) :: r =>
      pre (SIdx (key_note k))
          (match fv v with
           | Err _ => gv v
           | Ok _ => match fk k with Err _ => gk k | Ok k' => if hashable k' then [] else [[]] | OutOfFuel => [] end
           | OutOfFuel => []
           end) ++ map_paths fk fv gk gv r
  end.

Notation st := (structure E cfg).

(* attributes of a class position with a dict payload d: attempted attributes in order; a missing key or a leaf failure is the
   attribute's own position, a group failure is refined by the attribute's fault paths g *)
Fixpoint fld_paths (opt : topts) (hsn : N -> val -> result val) (d : list (N * val)) (g : N -> val -> list (list step))
         (fs : list (field val)) : list (list step) :=
  match fs with
  | [] => []
  | f :: r =>
      (if attempted val opt nov d f then
         match fetch val opt nov hsn (dict_obj d) f with
         | Err e => pre (SField (f_name f))
                        (if is_group e then match assoc d (key_of val opt nov f) with Some v => g (f_name f) v | None => [[]] end else [[]])
         | _ => []
         end
       else []) ++ fld_paths opt hsn d g r
  end.

Fixpoint fpaths (n : nat) (t : ty) (o : val) {struct n} : list (list step) :=
  match n with
  | O => []
  | S n' =>
      match st (S n') t o with
      | Ok _ | OutOfFuel => []
      | Err e =>
          if negb (is_group e) then [[]]
          else
            match t with
            | TList t' | TTupleHom t' => match iter_val E o with Ok l => idx_paths (fpaths n' t') l 0 | _ => paths e [] end
            | TTuple ts =>
                match iter_val E o, len_val E o with
                | Ok l, Ok len => zip_paths (fpaths n') ts l 0 ++ (if Nat.eqb len (length ts) then [] else [[]])
                | _, _ => paths e []
                end
            | TSet t' | TFrozenSet t' =>
                match iter_val E o with Ok l => set_paths (st n' t') (fpaths n' t') l 0 | _ => paths e [] end
            | TDict kt vt =>
                if is_any kt && is_any vt then paths e []          (* dict(o): no per-entry hooks *)
                else match items_val o with
                     | Ok kvs => map_paths (st n' kt) (st n' vt) (fpaths n' kt) (fpaths n' vt) kvs
                     | _ => paths e []
                     end
            | TOpt t' | TNewType _ t' | TAnnot t' => fpaths n' t' o
            | TClass c =>
                match e_class E c, o with
                | Some cd, VDict kvs =>
                    let d := nkeys kvs in
                    let hsn := fun fname v => match assoc (cd_types cd) fname with Some ft => st n' ft v | None => Ok v end in
                    let g := fun fname v => match assoc (cd_types cd) fname with Some ft => fpaths n' ft v | None => [] end in
                    let fs' := filter (@f_init val) (filter (included val (topt cfg c) nov) (cd_fields cd)) in
                    match field_errs val (topt cfg c) nov hsn d fs' ++ forbidden_entry val (topt cfg c) nov d (cd_fields cd) with
                    | [] => paths e []            (* nothing collected: __init__ itself failed, reported at the class position *)
                    | _ => fld_paths (topt cfg c) hsn d g fs' ++
                           match forbidden_entry val (topt cfg c) nov d (cd_fields cd) with [] => [] | _ => [[]] end
                    end
                | _, _ => paths e []
                end
            | _ => paths e []
            end
      end
  end.

(* what a child position contributes, read off the child's own result *)
Definition child_ok (f : val -> result val) (g : val -> list (list step)) : Prop :=
  forall x, match f x with Err e => paths e [] = g x | Ok _ => g x = [] | OutOfFuel => True end.

Lemma child_entry_gen (mk : N -> step) (k : N) (s : errkind) : child_paths mk [] (Some k, s) = pre (mk k) (paths s []).
Proof.
  unfold child_paths, pre. destruct (is_group s) eqn:Eg.
  - rewrite paths_prefix. cbn [app]. reflexivity.
  - rewrite (paths_leaf s [] Eg). reflexivity.
Qed.

Lemma child_entry (k : N) (s : errkind) : child_paths SIdx [] (Some k, s) = pre (SIdx k) (paths s []).
Proof.
  unfold child_paths, pre. destruct (is_group s) eqn:Eg.
  - rewrite paths_prefix. cbn [app]. reflexivity.
  - rewrite (paths_leaf s [] Eg). reflexivity.
Qed.

Lemma errs_at_paths (f : val -> result val) (g : val -> list (list step)) l : child_ok f g ->
  (forall x, In x l -> f x <> OutOfFuel) ->
  forall ix, flat_map (child_paths SIdx []) (errs_at f l ix) = idx_paths g l ix.
Proof.
  intros Hc. induction l as [|x l IH]; intros Hf ix; cbn [errs_at idx_paths flat_map]; [reflexivity|].
  assert (Hl : forall y, In y l -> f y <> OutOfFuel) by (intros y Hy; apply Hf; now right).
  pose proof (Hc x) as Hx. destruct (f x) as [y|e|] eqn:Ef.
  - rewrite Hx. cbn [pre map app]. now apply IH.
  - cbn [flat_map]. rewrite child_entry, Hx. f_equal. now apply IH.
  - exfalso. apply (Hf x); [now left | exact Ef].
Qed.

Lemma errs_at_own (f : val -> result val) l : forall ix, flat_map (own_paths []) (errs_at f l ix) = [].
Proof.
  induction l as [|x l IH]; intros ix; cbn [errs_at flat_map]; [reflexivity|].
  destruct (f x); [apply IH | cbn [flat_map own_paths fst app]; apply IH | apply IH].
Qed.

Lemma coll_det_fuel (f : val -> result val) l : forall ix acc errs,
  coll_det f l ix acc errs <> OutOfFuel -> forall x, In x l -> f x <> OutOfFuel.
Proof.
  induction l as [|y l IH]; intros ix acc errs H x Hx; [contradiction|]. cbn [coll_det] in H.
  destruct Hx as [<-|Hx].
  - intros Ey. rewrite Ey in H. now apply H.
  - destruct (f y) as [w|e|] eqn:Ey; [eapply IH; eassumption | eapply IH; eassumption | exfalso; now apply H].
Qed.

Lemma coll_err (f : val -> result val) (g : val -> list (list step)) l e : child_ok f g ->
  coll cfg f l = Err e -> paths e [] = idx_paths g l 0.
Proof.
  intros Hc H.
  assert (Hf : forall x, In x l -> f x <> OutOfFuel).
  { apply (coll_det_fuel f l 0%N [] []). unfold coll in H. rewrite H_dv in H. intros X. rewrite X in H. discriminate. }
  rewrite (coll_exact cfg H_dv f l Hf) in H.
  destruct (errs_at f l 0) as [|ne r] eqn:Ee; [discriminate|]. inversion H; subst e.
  rewrite paths_iter, <- Ee, errs_at_own, app_nil_r. now apply errs_at_paths.
Qed.

(* ---- heterogeneous tuples ---- *)
Definition zchild_ok (f : ty -> val -> result val) (g : ty -> val -> list (list step)) : Prop :=
  forall t x, match f t x with Err e => paths e [] = g t x | Ok _ => g t x = [] | OutOfFuel => True end.

Lemma zip_det_fuel (f : ty -> val -> result val) ts : forall l ix acc errs re,
  zip_det f ts l ix acc errs = Ok re ->
  snd re = errs ++ zerrs f ts l ix.
Proof.
  induction ts as [|t ts IH]; intros l ix acc errs re H; cbn [zip_det zerrs] in *; [inversion H; cbn; now rewrite app_nil_r|].
  destruct l as [|x l]; [inversion H; cbn; now rewrite app_nil_r|].
  destruct (f t x) as [y|e|] eqn:Ef; try discriminate.
  - now apply IH in H.
  - apply IH in H. now rewrite H, <- app_assoc.
Qed.

Lemma zerrs_paths (f : ty -> val -> result val) (g : ty -> val -> list (list step)) ts : zchild_ok f g ->
  forall l ix acc errs re, zip_det f ts l ix acc errs = Ok re ->
  flat_map (child_paths SIdx []) (zerrs f ts l ix) = zip_paths g ts l ix /\ flat_map (own_paths []) (zerrs f ts l ix) = [].
Proof.
  intros Hc. induction ts as [|t ts IH]; intros l ix acc errs re H; cbn [zip_det zerrs zip_paths flat_map] in *; [auto|].
  destruct l as [|x l]; [auto|].
  pose proof (Hc t x) as Hx. destruct (f t x) as [y|e|] eqn:Ef; try discriminate.
  - rewrite Hx. cbn [pre map app]. eapply IH; exact H.
  - cbn [flat_map]. rewrite child_entry, Hx. destruct (IH _ _ _ _ _ H) as [I1 I2]. split; [now rewrite I1 | cbn [own_paths fst app]; exact I2].
Qed.

Lemma fm_snoc_child errs k e :
  flat_map (child_paths SIdx []) (errs ++ [(Some k, e)]) = flat_map (child_paths SIdx []) errs ++ pre (SIdx k) (paths e []).
Proof. rewrite flat_map_app. cbn [flat_map]. now rewrite app_nil_r, child_entry. Qed.
Lemma fm_snoc_own errs (k : N) (e : errkind) :
  flat_map (own_paths []) (errs ++ [(Some k, e)]) = flat_map (own_paths []) errs.
Proof. rewrite flat_map_app. cbn [flat_map own_paths fst app]. now rewrite app_nil_r. Qed.

(* ---- sets ---- *)
Lemma set_det_paths (f : val -> result val) (g : val -> list (list step)) l : child_ok f g ->
  forall ix acc errs re, set_det f l ix acc errs = Ok re ->
  flat_map (child_paths SIdx []) (snd re) = flat_map (child_paths SIdx []) errs ++ set_paths f g l ix /\
  flat_map (own_paths []) (snd re) = flat_map (own_paths []) errs.
Proof.
  intros Hc. induction l as [|x l IH]; intros ix acc errs re H; cbn [set_det set_paths] in *.
  - inversion H; subst. cbn [snd]. now rewrite app_nil_r.
  - pose proof (Hc x) as Hx. destruct (f x) as [y|e|] eqn:Ef; cbn [bind] in H.
    + unfold set_add in H. destruct (hashable y) eqn:Eh; cbn [negb] in H.
      * destruct (IH _ _ _ _ H) as [I1 I2]. split; [rewrite I1; cbn [pre map app]; reflexivity | exact I2].
      * destruct (IH _ _ _ _ H) as [I1 I2]. rewrite fm_snoc_child in I1. rewrite fm_snoc_own in I2.
        split; [rewrite I1; cbn [paths pre map]; now rewrite <- app_assoc | exact I2].
    + destruct (IH _ _ _ _ H) as [I1 I2]. rewrite fm_snoc_child, Hx in I1. rewrite fm_snoc_own in I2.
      split; [rewrite I1; now rewrite <- app_assoc | exact I2].
    + discriminate.
Qed.

Lemma set_coll_err (f : val -> result val) (g : val -> list (list step)) l e : child_ok f g ->
  set_coll cfg f l = Err e -> is_group e = true -> paths e [] = set_paths f g l 0.
Proof.
  intros Hc H Eg. unfold set_coll in H. rewrite H_dv in H.
  destruct (set_det f l 0 [] []) as [re|e1|] eqn:Es; cbn [bind] in H; try discriminate.
  - destruct (set_det_paths f g l Hc _ _ _ _ Es) as [S1 S2]. cbn [flat_map app] in S1, S2.
    destruct (snd re) as [|ne r] eqn:Er; [discriminate|]. inversion H; subst e. rewrite paths_iter, S1, S2. now rewrite app_nil_r.
  - exfalso. clear -Es. revert Es. generalize 0%N at 1, (@nil val), (@nil (option N * errkind)).
    induction l as [|x l IHl]; intros ix acc errs Es; cbn [set_det] in Es; [discriminate|].
    destruct (do y <- f x; set_add acc y); [eapply IHl; exact Es | eapply IHl; exact Es | discriminate].
Qed.

(* ---- mappings ---- *)
Lemma map_det_paths (fk fv : val -> result val) (gk gv : val -> list (list step)) kvs : child_ok fk gk -> child_ok fv gv ->
  forall acc errs re, map_det fk fv kvs acc errs = Ok re ->
  flat_map (child_paths SIdx []) (snd re) = flat_map (child_paths SIdx []) errs ++ map_paths fk fv gk gv kvs /\
  flat_map (own_paths []) (snd re) = flat_map (own_paths []) errs.
Proof.
  intros Hk Hv. induction kvs as [|[k v] kvs IH]; intros acc errs re H; cbn [map_det map_paths] in *.
  - inversion H; subst. cbn [snd]. now rewrite app_nil_r.
  - assert (STEP : forall e ps, paths e [] = ps -> forall acc', map_det fk fv kvs acc' (errs ++ [(Some (key_note k), e)]) = Ok re ->
              flat_map (child_paths SIdx []) (snd re) = flat_map (child_paths SIdx []) errs ++ pre (SIdx (key_note k)) ps ++ map_paths fk fv gk gv kvs /\
              flat_map (own_paths []) (snd re) = flat_map (own_paths []) errs).
    { intros e ps Hp acc' X. destruct (IH _ _ _ X) as [I1 I2]. rewrite fm_snoc_child, Hp in I1. rewrite fm_snoc_own in I2.
      split; [rewrite I1; now rewrite <- app_assoc | exact I2]. }
    pose proof (Hv v) as Xv. destruct (fv v) as [v'|e|] eqn:Ev; try discriminate.
    + pose proof (Hk k) as Xk. destruct (fk k) as [k'|e|] eqn:Ek; cbn [bind] in H; try discriminate.
      * unfold dict_put in H. destruct (hashable k') eqn:Eh; cbn [negb] in H.
        -- destruct (IH _ _ _ H) as [I1 I2]. split; [rewrite I1; cbn [pre map app]; reflexivity | exact I2].
        -- eapply (STEP EType [[]]); [reflexivity | exact H].
      * eapply STEP; [exact Xk | exact H].
    + eapply STEP; [exact Xv | exact H].
Qed.

Lemma map_coll_err (fk fv : val -> result val) (gk gv : val -> list (list step)) kvs e : child_ok fk gk -> child_ok fv gv ->
  map_coll cfg fk fv kvs = Err e -> is_group e = true -> paths e [] = map_paths fk fv gk gv kvs.
Proof.
  intros Hk Hv H Eg. unfold map_coll in H. rewrite H_dv in H.
  destruct (map_det fk fv kvs [] []) as [re|e1|] eqn:Es; cbn [bind] in H; try discriminate.
  - destruct (map_det_paths fk fv gk gv kvs Hk Hv _ _ _ Es) as [S1 S2]. cbn [flat_map app] in S1, S2.
    destruct (snd re) as [|ne r] eqn:Er; [discriminate|]. inversion H; subst e. rewrite paths_iter, S1, S2. now rewrite app_nil_r.
  - exfalso. clear -Es. revert Es. generalize (@nil (val * val)), (@nil (option N * errkind)).
    induction kvs as [|[k v] kvs IHl]; intros acc errs Es; cbn [map_det] in Es; [discriminate|].
    destruct (fv v); [|eapply IHl; exact Es|discriminate].
    destruct (do k' <- fk k; dict_put acc k' a); [eapply IHl; exact Es | eapply IHl; exact Es | discriminate].
Qed.

(* ---- classes ---- *)
Lemma mem_keys_none {B} (d : list (N * B)) k : mem_N k (keys d) = false -> assoc d k = None.
Proof.
  unfold mem_N, keys. induction d as [|[k' x] d IH]; cbn [map existsb assoc fst]; [reflexivity|].
  intros H. apply Bool.orb_false_iff in H. destruct H as [H1 H2]. rewrite N.eqb_sym, H1. now apply IH.
Qed.

Lemma det_loop_fuel (opt : topts) (hsn : N -> val -> result val) (d : list (N * val)) fs : forall res errs,
  det_loop val opt nov hsn (dict_obj d) fs res errs <> OutOfFuel ->
  forall f, In f fs -> fetch val opt nov hsn (dict_obj d) f <> OutOfFuel.
Proof.
  induction fs as [|g fs IH]; intros res errs H f Hf; [contradiction|]. cbn [det_loop] in H.
  assert (NA : f_dflt g <> None -> mem_N (key_of val opt nov g) (keys d) = false -> fetch val opt nov hsn (dict_obj d) g <> OutOfFuel).
  { intros _ Hm. unfold fetch. cbn [dict_obj o_get]. rewrite (mem_keys_none d _ Hm). cbn. discriminate. }
  assert (AT : match fetch val opt nov hsn (dict_obj d) g with
               | Ok w => det_loop val opt nov hsn (dict_obj d) fs (res ++ [(f_alias g, w)]) errs
               | Err e => det_loop val opt nov hsn (dict_obj d) fs res (errs ++ [(Some (f_name g), e)])
               | OutOfFuel => OutOfFuel end <> OutOfFuel ->
               fetch val opt nov hsn (dict_obj d) f <> OutOfFuel).
  { intros X. destruct Hf as [<-|Hf].
    - intros Ey. rewrite Ey in X. now apply X.
    - destruct (fetch val opt nov hsn (dict_obj d) g); [eapply IH; eassumption | eapply IH; eassumption | exfalso; now apply X]. }
  destruct (f_dflt g) as [dv|] eqn:Ed.
  - cbn [dict_obj o_in bind] in H. destruct (mem_N (key_of val opt nov g) (keys d)) eqn:Em.
    + now apply AT.
    + destruct Hf as [<-|Hf]; [apply NA; [discriminate | reflexivity] | eapply IH; eassumption].
  - now apply AT.
Qed.

Lemma det_loop_no_err (opt : topts) (hsn : N -> val -> result val) (d : list (N * val)) fs : forall res errs e,
  det_loop val opt nov hsn (dict_obj d) fs res errs <> Err e.
Proof.
  induction fs as [|f l IHl]; intros res errs e Ed; cbn [det_loop] in Ed; [discriminate|].
  assert (X : match fetch val opt nov hsn (dict_obj d) f with
              | Ok w => det_loop val opt nov hsn (dict_obj d) l (res ++ [(f_alias f, w)]) errs
              | Err e0 => det_loop val opt nov hsn (dict_obj d) l res (errs ++ [(Some (f_name f), e0)])
              | OutOfFuel => OutOfFuel end = Err e -> False).
  { intros X. destruct (fetch val opt nov hsn (dict_obj d) f); [eapply IHl; exact X | eapply IHl; exact X | discriminate]. }
  destruct (f_dflt f); [|now apply X].
  cbn [dict_obj o_in bind] in Ed. destruct (mem_N _ _); [now apply X | eapply IHl; exact Ed].
Qed.

Lemma field_errs_paths (opt : topts) (hsn : N -> val -> result val) (d : list (N * val)) (g : N -> val -> list (list step)) fs :
  (forall f v e, fetch val opt nov hsn (dict_obj d) f = Err e -> is_group e = true -> assoc d (key_of val opt nov f) = Some v ->
                 paths e [] = g (f_name f) v) ->
  (forall f e, fetch val opt nov hsn (dict_obj d) f = Err e -> is_group e = true -> assoc d (key_of val opt nov f) <> None) ->
  flat_map (child_paths SField []) (field_errs val opt nov hsn d fs) = fld_paths opt hsn d g fs /\
  flat_map (own_paths []) (field_errs val opt nov hsn d fs) = [].
Proof.
  intros HG HK. induction fs as [|f fs [I1 I2]]; cbn [field_errs fld_paths flat_map]; [auto|].
  rewrite !flat_map_app, I1, I2. split; [f_equal | rewrite app_nil_r].
  - destruct (attempted val opt nov d f); [|reflexivity].
    destruct (fetch val opt nov hsn (dict_obj d) f) as [w|e|] eqn:Ef; try reflexivity.
    cbn [flat_map]. rewrite app_nil_r, child_entry_gen. f_equal.
    destruct (is_group e) eqn:Eg; [|now apply paths_leaf].
    destruct (assoc d (key_of val opt nov f)) as [v|] eqn:Ea; [now apply (HG f v e) | exfalso; now apply (HK f e Ef Eg)].
  - destruct (attempted val opt nov d f); [|reflexivity].
    destruct (fetch val opt nov hsn (dict_obj d) f); reflexivity.
Qed.

Theorem paths_are_fault_positions : forall n t o e, st n t o = Err e -> paths e [] = fpaths n t o.
Proof.
  induction n as [|n IH]; intros t o e H; [discriminate|].
  assert (CH : forall t', child_ok (st n t') (fpaths n t')).
  { intros t' x. destruct (st n t' x) as [y|e'|] eqn:Ex; [|now apply IH|exact I].
    destruct n; [discriminate|]. cbn [fpaths]. now rewrite Ex. }
  cbn [fpaths]. rewrite H. destruct (is_group e) eqn:Eg; cbn [negb]; [|now apply paths_leaf].
  destruct t as [|p|en|vs|t|t|ts|t|t|kt vt|t|c|nt t|t]; try reflexivity.
  - (* list *)
    cbn [structure] in H. destruct (iter_val E o) as [l|e0|] eqn:Ei; cbn [bind] in H; [|reflexivity|discriminate].
    destruct (is_any t); [discriminate|].
    destruct (coll cfg (st n t) l) as [r|e1|] eqn:Ec; cbn [bind] in H; try discriminate. inversion H; subst e1.
    eapply coll_err; [apply CH | exact Ec].
  - (* homogeneous tuple *)
    cbn [structure] in H. destruct (iter_val E o) as [l|e0|] eqn:Ei; cbn [bind] in H; [|reflexivity|discriminate].
    destruct (is_any t); [discriminate|].
    destruct (coll cfg (st n t) l) as [r|e1|] eqn:Ec; cbn [bind] in H; try discriminate. inversion H; subst e1.
    eapply coll_err; [apply CH | exact Ec].
  - (* heterogeneous tuple *)
    cbn [structure] in H. rewrite H_dv in H.
    destruct (iter_val E o) as [l|e0|] eqn:Ei; cbn [bind] in H; [|reflexivity|discriminate].
    destruct (zip_det (st n) ts l 0 [] []) as [re|e1|] eqn:Ez; cbn [bind] in H; [| |discriminate].
    2:{ (* zip_det never returns an error of its own *) exfalso. clear -Ez. revert Ez. generalize 0%N at 1, (@nil val), (@nil (option N * errkind)).
        revert l. induction ts as [|t ts IHt]; intros l ix acc errs Ez; cbn [zip_det] in Ez; [discriminate|].
        destruct l as [|x l]; [discriminate|]. destruct (st n t x); [eapply IHt; exact Ez | eapply IHt; exact Ez | discriminate]. }
    destruct (len_val E o) as [len|e2|] eqn:El; cbn [bind] in H; [|reflexivity|discriminate].
    pose proof (zip_det_fuel (st n) ts l 0%N [] [] re Ez) as Hs. cbn [app] in Hs.
    assert (ZC : zchild_ok (st n) (fpaths n)) by (intros t x; apply CH).
    destruct (zerrs_paths (st n) (fpaths n) ts ZC l 0%N [] [] re Ez) as [Z1 Z2].
    destruct (Nat.eqb len (length ts)) eqn:En.
    + rewrite Hs in H. destruct (zerrs (st n) ts l 0) as [|ne r] eqn:Ee; [discriminate|]. inversion H; subst e.
      rewrite paths_iter, Z1, Z2, !app_nil_r. reflexivity.
    + rewrite Hs in H.
      assert (He : e = EIterVal (zerrs (st n) ts l 0 ++ [(None, EValue)])).
      { destruct (zerrs (st n) ts l 0 ++ [(None, EValue)]) as [|ne r] eqn:Ee; [destruct (zerrs (st n) ts l 0); discriminate|]. now inversion H. }
      subst e. rewrite paths_iter, !flat_map_app, Z1, Z2. cbn. now rewrite !app_nil_r.
  - (* set *)
    cbn [structure] in H. destruct (iter_val E o) as [l|e0|] eqn:Ei; cbn [bind] in H; [|reflexivity|discriminate].
    destruct (is_any t).
    + destruct (set_of_list [] l) as [s0|e1|] eqn:Es; cbn [bind] in H; try discriminate. inversion H; subst e1.
      exfalso. clear -Es Eg. revert Es. generalize (@nil val). induction l as [|x l IHl]; intros acc Es; cbn [set_of_list] in Es; [discriminate|].
      unfold set_add in Es at 1. destruct (negb (hashable x)); cbn [bind] in Es; [inversion Es; subst; discriminate | eapply IHl; exact Es].
    + destruct (set_coll cfg (st n t) l) as [r|e1|] eqn:Ec; cbn [bind] in H; try discriminate. inversion H; subst e1.
      eapply set_coll_err; [apply CH | exact Ec | exact Eg].
  - (* frozenset *)
    cbn [structure] in H. destruct (iter_val E o) as [l|e0|] eqn:Ei; cbn [bind] in H; [|reflexivity|discriminate].
    destruct (is_any t).
    + destruct (set_of_list [] l) as [s0|e1|] eqn:Es; cbn [bind] in H; try discriminate. inversion H; subst e1.
      exfalso. clear -Es Eg. revert Es. generalize (@nil val). induction l as [|x l IHl]; intros acc Es; cbn [set_of_list] in Es; [discriminate|].
      unfold set_add in Es at 1. destruct (negb (hashable x)); cbn [bind] in Es; [inversion Es; subst; discriminate | eapply IHl; exact Es].
    + destruct (set_coll cfg (st n t) l) as [r|e1|] eqn:Ec; cbn [bind] in H; try discriminate. inversion H; subst e1.
      eapply set_coll_err; [apply CH | exact Ec | exact Eg].
  - (* mapping *)
    cbn [structure] in H. destruct (is_any kt && is_any vt) eqn:Ea.
    + reflexivity.
    + destruct (items_val o) as [kvs|e0|] eqn:Ei; cbn [bind] in H; [|reflexivity|discriminate].
      destruct (map_coll cfg (st n kt) (st n vt) kvs) as [r|e1|] eqn:Ec; cbn [bind] in H; try discriminate. inversion H; subst e1.
      eapply map_coll_err; [apply CH | apply CH | exact Ec | exact Eg].
  - (* Optional *)
    cbn [structure] in H. destruct o; try (now apply IH); discriminate.
  - (* class *)
    destruct (e_class E c) as [cd|] eqn:Ec; [|reflexivity]. destruct o as [| | | | | | |kvs|]; try reflexivity.
    cbn [structure] in H. rewrite Ec, H_tuple, H_gen, H_dv in H. cbn [obj_of_val] in H.
    set (d := nkeys kvs) in *.
    set (hsn := fun fname v => match assoc (cd_types cd) fname with Some ft => st n ft v | None => Ok v end) in *.
    set (fs' := filter (@f_init val) (filter (included val (topt cfg c) nov) (cd_fields cd))).
    destruct (field_errs val (topt cfg c) nov hsn d fs' ++ forbidden_entry val (topt cfg c) nov d (cd_fields cd)) as [|ne0 errs0] eqn:Ee; [reflexivity|].
    (* the class-level error is the one the detailed template built *)
    destruct (tpl_detailed val noK (topt cfg c) nov hsn (c_recheck cfg) (cd_fields cd) (dict_obj d)) as [i|e1|] eqn:Et.
    + exfalso. destruct (c_forbid cfg && true && negb false && nonstr_key (VDict kvs)); cbn [bind] in H; discriminate.
    + assert (He : e = e1).
      { destruct (c_forbid cfg && true && negb false && nonstr_key (VDict kvs)); cbn [bind] in H.
        - destruct e1; inversion H; subst; try reflexivity; discriminate.
        - now inversion H. }
      subst e1.
      assert (Hfuel : forall f, In f fs' -> fetch val (topt cfg c) nov hsn (dict_obj d) f <> OutOfFuel).
      { unfold tpl_detailed in Et. fold fs' in Et.
        destruct (det_loop val (topt cfg c) nov hsn (dict_obj d) fs' [] []) as [re|e2|] eqn:Ed; cbn [bind] in Et; try discriminate.
        - apply (det_loop_fuel (topt cfg c) hsn d fs' [] []). rewrite Ed. discriminate.
        - exfalso. exact (det_loop_no_err _ _ _ _ _ _ _ Ed). }
      assert (Hne : field_errs val (topt cfg c) nov hsn d fs' ++ forbidden_entry val (topt cfg c) nov d (cd_fields cd) <> []) by (rewrite Ee; discriminate).
      pose proof (detailed_errors_weak val noK (topt cfg c) nov hsn d (cd_fields cd) (c_recheck cfg) Hfuel Hne) as Hd.
      fold fs' in Hd. rewrite Et in Hd. inversion Hd; subst e. clear Hd.
      rewrite paths_class, !flat_map_app.
      destruct (field_errs_paths (topt cfg c) hsn d
                  (fun fname v => match assoc (cd_types cd) fname with Some ft => fpaths n ft v | None => [] end) fs') as [F1 F2].
      * intros f v e Ef Egr Ea. unfold fetch in Ef. cbn [dict_obj o_get] in Ef. rewrite Ea in Ef. cbn [bind] in Ef. unfold hsn in Ef.
        destruct (assoc (cd_types cd) (f_name f)) as [ft|]; [now apply IH | discriminate].
      * intros f e Ef Egr Ea. unfold fetch in Ef. cbn [dict_obj o_get] in Ef. rewrite Ea in Ef. cbn [bind] in Ef. inversion Ef; subst. discriminate.
      * rewrite F1, F2. unfold forbidden_entry.
        destruct (t_forbid (topt cfg c)); [|cbn [flat_map app]; now rewrite !app_nil_r].
        destruct (unknown_keys val (topt cfg c) nov (cd_fields cd) (keys d)); cbn [flat_map child_paths own_paths fst app]; now rewrite !app_nil_r.
    + exfalso. destruct (c_forbid cfg && true && negb false && nonstr_key (VDict kvs)); cbn [bind] in H; discriminate.
  - (* NewType *) cbn [structure] in H. now apply IH.
  - (* Annotated *) cbn [structure] in H. rewrite H_gen in H. now apply IH.
Qed.

End Global.
