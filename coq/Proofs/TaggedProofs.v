(* TaggedProofs.v -- tagged unions (C13). *)
From V.Model Require Import Base Tagged.
From V.Proofs Require Import TemplatesProofs.

Section TP.
Variable V : Type.
Variable veq : V -> V -> bool.
Hypothesis veq_refl : forall a, veq a a = true.
Notation tcfg := (tcfg V).

Definition injective_on (c : tcfg) : Prop :=
  forall a b, In a (tg_members c) -> In b (tg_members c) -> veq (tg_tag c a) (tg_tag c b) = true -> a = b.

Lemma tag_lookup_acc c ms t acc :
  (forall m, In m ms -> veq (tg_tag c m) t = false) -> tag_lookup V veq c ms t acc = acc.
Proof.
  revert acc. induction ms as [|m r IH]; intros acc H; cbn; [reflexivity|].
  rewrite (H m (or_introl eq_refl)). apply IH. intros x Hx. apply H. now right.
Qed.

Lemma tag_lookup_member c ms m acc :
  (forall a b, In a ms -> In b ms -> veq (tg_tag c a) (tg_tag c b) = true -> a = b) ->
  NoDup ms -> In m ms -> tag_lookup V veq c ms (tg_tag c m) acc = Some m.
Proof.
  revert acc. induction ms as [|x r IH]; intros acc Hinj Hnd Hin; [contradiction|].
  cbn. inversion Hnd as [|? ? Hn Hr]; subst. destruct Hin as [E|Hin].
  - subst x. rewrite veq_refl. apply tag_lookup_acc. intros y Hy.
    destruct (veq (tg_tag c y) (tg_tag c m)) eqn:E; [|reflexivity].
    assert (y = m) by (apply Hinj; [now right | now left | exact E]). subst. contradiction.
  - apply IH; auto. intros a b Ha Hb. apply Hinj; now right.
Qed.

Lemma member_of_own_tag c m :
  injective_on c -> NoDup (tg_members c) -> In m (tg_members c) -> member_of_tag V veq c (tg_tag c m) = Some m.
Proof. intros Hi Hn Hm. unfold member_of_tag. now apply tag_lookup_member. Qed.

Lemma assoc_dict_set_same {B} (d : list (N * B)) k v : assoc (dict_set d k v) k = Some v.
Proof.
  induction d as [|[k' v'] d IH]; cbn; [now rewrite N.eqb_refl|].
  destruct (N.eqb k' k) eqn:E; cbn; rewrite E; [reflexivity | exact IH].
Qed.

Lemma assoc_dict_set_other {B} (d : list (N * B)) k v k' : k' <> k -> assoc (dict_set d k v) k' = assoc d k'.
Proof.
  intros H. induction d as [|[a b] d IH]; cbn.
  - destruct (N.eqb k k') eqn:E; [apply N.eqb_eq in E; congruence | reflexivity].
  - destruct (N.eqb a k) eqn:E; cbn.
    + apply N.eqb_eq in E. subst a. destruct (N.eqb k k') eqn:E2; [apply N.eqb_eq in E2; congruence | reflexivity].
    + destruct (N.eqb a k'); [reflexivity | exact IH].
Qed.

Lemma dict_set_fresh' {B} (d : list (N * B)) k v : ~ In k (map fst d) -> dict_set d k v = d ++ [(k, v)].
Proof.
  induction d as [|[k' v'] d IH]; cbn; intros H; [reflexivity|].
  destruct (N.eqb k' k) eqn:E; [apply N.eqb_eq in E; subst; exfalso; apply H; now left|].
  rewrite IH; [reflexivity|]. intros X. apply H. now right.
Qed.

Lemma remove_key_app_fresh {B} (d : list (N * B)) k v : ~ In k (map fst d) -> remove_key (d ++ [(k, v)]) k = d.
Proof.
  induction d as [|[k' v'] d IH]; cbn; intros H.
  - now rewrite N.eqb_refl.
  - destruct (N.eqb k' k) eqn:E; [apply N.eqb_eq in E; subst; exfalso; apply H; now left|].
    rewrite IH; [reflexivity|]. intros X. apply H. now right.
Qed.

(* going out: the member's own dict plus exactly one extra key, the tag *)
Theorem tagged_out c cls d :
  In cls (tg_members c) -> ~ In (tg_name c) (map fst d) ->
  unstructure_tagged V c cls d = Ok (d ++ [(tg_name c, tg_tag c cls)]).
Proof.
  intros Hm Hk. unfold unstructure_tagged.
  assert (E : mem_N cls (tg_members c) = true).
  { apply existsb_exists. exists cls. split; [exact Hm | apply N.eqb_refl]. }
  rewrite E. now rewrite dict_set_fresh'.
Qed.

(* coming in: that payload reaches the hook of the same member, with the member's own dict
   (when forbidding: the tag is removed from a copy) or with the dict plus the tag *)
Theorem tagged_in c cls d :
  injective_on c -> NoDup (tg_members c) -> In cls (tg_members c) -> ~ In (tg_name c) (map fst d) ->
  structure_tagged V veq c (d ++ [(tg_name c, tg_tag c cls)]) =
  Ok (cls, if tg_forbid c then d else d ++ [(tg_name c, tg_tag c cls)]).
Proof.
  intros Hi Hn Hm Hk. unfold structure_tagged.
  assert (Ea : assoc (d ++ [(tg_name c, tg_tag c cls)]) (tg_name c) = Some (tg_tag c cls)).
  { rewrite assoc_app2, (assoc_none_notin d _ Hk). cbn. now rewrite N.eqb_refl. }
  rewrite Ea, (member_of_own_tag c cls Hi Hn Hm).
  unfold dict_pop. rewrite (remove_key_app_fresh d _ _ Hk).
  destruct (tg_default c); reflexivity.
Qed.

(* a missing tag selects the default member when one is configured, and raises otherwise *)
Theorem tagged_missing c d :
  assoc d (tg_name c) = None ->
  structure_tagged V veq c d = match tg_default c with Some dm => Ok (dm, d) | None => Err EKey end.
Proof. intros H. unfold structure_tagged. rewrite H. destruct (tg_default c); reflexivity. Qed.

(* so does an unknown tag *)
Theorem tagged_unknown c d t :
  assoc d (tg_name c) = Some t -> member_of_tag V veq c t = None ->
  structure_tagged V veq c d =
  match tg_default c with
  | Some dm => Ok (dm, if tg_forbid c then dict_pop V d (tg_name c) else d)
  | None => Err EKey
  end.
Proof. intros H1 H2. unfold structure_tagged. rewrite H1, H2. destruct (tg_default c); reflexivity. Qed.

End TP.

(* ---- the tag key and forbid_extra_keys (C10) ---- *)
Section TagExtra.
Variable V : Type.
Variable veq : V -> V -> bool.

Lemma assoc_remove_key_other {B} (d : list (N * B)) k k' : k' <> k -> assoc (remove_key d k) k' = assoc d k'.
Proof.
  intros Hne. induction d as [|[a v] d IH]; cbn; [reflexivity|].
  destruct (N.eqb a k) eqn:Eak.
  - apply N.eqb_eq in Eak. subst a. destruct (N.eqb k k') eqn:E; [apply N.eqb_eq in E; congruence | exact IH].
  - cbn. destruct (N.eqb a k'); [reflexivity | exact IH].
Qed.

Lemma assoc_remove_key_same {B} (d : list (N * B)) k : assoc (remove_key d k) k = None.
Proof.
  induction d as [|[a v] d IH]; cbn; [reflexivity|]. destruct (N.eqb a k) eqn:E; [exact IH|]. cbn. now rewrite E.
Qed.

(* whichever member hook a tagged union hands the payload to when extra keys are forbidden, the dict it hands over is the
   payload without the tag key and with every other key untouched: the member's own extra-key check sees exactly the
   payload's other keys, never the tag *)
Theorem tag_key_is_not_an_extra (c : tcfg V) (d d' : list (N * V)) (m : N) :
  tg_forbid c = true -> assoc d (tg_name c) <> None ->
  structure_tagged V veq c d = Ok (m, d') ->
  assoc d' (tg_name c) = None /\ forall k, k <> tg_name c -> assoc d' k = assoc d k.
Proof.
  intros Hf Ht H. unfold structure_tagged in H. rewrite Hf in H. unfold dict_pop in H.
  destruct (assoc d (tg_name c)) as [t|] eqn:Ea; [|contradiction].
  assert (X : d' = remove_key d (tg_name c)).
  { destruct (tg_default c); destruct (member_of_tag V veq c t); inversion H; reflexivity. }
  subst d'. split; [apply assoc_remove_key_same | intros k Hk; now apply assoc_remove_key_other].
Qed.
End TagExtra.
