(* ConvCfg.v -- the configuration of a converter in the nested model, with the template flags
   translator T1 read off the current source (Gen/GenSrc.v). *)
From V.Model Require Import Base Templates Conv.
From V.Gen Require Import GenSrc.
From V.Proofs Require Import SrcObligationsGen.

Definition mk_cfg (gen dv tup forbid : bool) : ccfg :=
  {| c_gen := gen; c_dv := dv; c_tuple := tup; c_forbid := forbid; c_recheck := src_recheck; c_kw_last := src_kw_last; c_tuple_kw := src_tuple_by_kw |}.

Lemma mk_cfg_recheck gen dv tup forbid : c_recheck (mk_cfg gen dv tup forbid) = true.
Proof. exact src_detailed_rechecks_errors. Qed.
Lemma mk_cfg_kw_last gen dv tup forbid : c_kw_last (mk_cfg gen dv tup forbid) = true.
Proof. exact src_fast_kw_last. Qed.
