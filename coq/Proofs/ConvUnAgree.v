(* ConvUnAgree.v -- C06, unstructuring side, nested: on every value of a type both converter classes have hooks for,
   BaseConverter (collections by the runtime class of their elements, classes by declared attribute types) and Converter
   (everything by declared type) produce the same data up to the documented container difference: Converter turns
   homogeneous tuples into lists, BaseConverter keeps the container class. *)
From Coq Require Import Lia.
From V.Model Require Import Base Templates Conv ConvSpec.
From V.Proofs Require Import TemplatesProofs UnstructProofs ClassSound ClassRoundtrip ConvRoundtrip ConvMono.

(* tuples read as lists, at every depth *)
Fixpoint lst (v : val) : val :=
  match v with
  | VList l | VTuple l => VList (map lst l)
  | VSet l => VSet (map lst l)
  | VFrozenSet l => VFrozenSet (map lst l)
  | VDict kvs => VDict (map (fun kv => (lst (fst kv), lst (snd kv))) kvs)
  | VInst c fs => VInst c (map (fun nv => (fst nv, lst (snd nv))) fs)
  | _ => v
  end.

(* the types BaseConverter has unstructure hooks for, at every depth *)
Fixpoint base_deep (t : ty) : bool :=
  match t with
  | TTuple _ | TNewType _ _ | TAnnot _ => false
  | TList t' | TTupleHom t' | TSet t' | TFrozenSet t' | TOpt t' => base_deep t'
  | TDict kt vt => base_deep kt && base_deep vt
  | _ => true
  end.

Section UA.
Variable E : env.
Variable cfgG cfgB : ccfg.
Hypothesis HG : c_gen cfgG = true.
Hypothesis HB : c_gen cfgB = false.
Hypothesis H_tup : c_tuple cfgB = c_tuple cfgG.

Notation ung := (unstructure E cfgG).
Notation unb := (unstructure E cfgB).

(* BaseConverter on a value of t, non-None: the hook for the value's runtime class gives the same result *)
Lemma unb_rt : forall x t, rt_value E false x t -> base_deep t = true -> x <> VNone ->
  forall n u, unb n t x = Ok u -> unb n (rt_type x) x = Ok u.
Proof.
  intros x t Hrt. induction Hrt; intros Hb Hne m u Hu; cbn [rt_type base_deep] in *; try discriminate Hb; try exact Hu.
  - (* Any: an atom *)
    destruct v; try discriminate; [contradiction|]. destruct m as [|m]; [discriminate|]. cbn [unstructure] in Hu. rewrite HB in Hu. cbn [rt_type] in Hu.
    destruct m as [|m]; [discriminate|]. cbn [unstructure] in *. rewrite HB in *. exact Hu.
  - (* literal: an atom *)
    destruct v; try discriminate; [contradiction|]. destruct m as [|m]; [discriminate|]. cbn [unstructure rt_type] in *. rewrite HB in *. exact Hu.
  - (* list *) destruct m as [|m]; [discriminate|]. cbn [unstructure] in *. rewrite HB in *. exact Hu.
  - (* homogeneous tuple *) destruct m as [|m]; [discriminate|]. cbn [unstructure] in *. rewrite HB in *. exact Hu.
  - (* set *) destruct m as [|m]; [discriminate|]. cbn [unstructure] in *. rewrite HB in *. exact Hu.
  - (* frozenset *) destruct m as [|m]; [discriminate|]. cbn [unstructure] in *. rewrite HB in *. exact Hu.
  - (* mapping *) destruct m as [|m]; [discriminate|]. cbn [unstructure] in *. rewrite HB in *. exact Hu.
  - (* Optional, None *) contradiction.
  - (* Optional, a value: runtime class, one level of fuel down *)
    destruct m as [|m]; [discriminate|]. cbn [unstructure] in Hu. rewrite HB in Hu.
    apply un_mono. destruct v; try exact Hu. contradiction.
Qed.

Definition BYb (n : nat) (y : val) : result val := match y with VNone => Ok VNone | _ => unb n (rt_type y) y end.

(* what BaseConverter's collection hooks do with an element that is a value of the declared element type *)
Lemma by_class_of_typed x t n u : rt_value E false x t -> base_deep t = true -> unb n t x = Ok u -> BYb n x = Ok u.
Proof.
  intros Hrt Hb Hu. assert (Hd : x = VNone \/ x <> VNone) by (destruct x; [left; reflexivity | right; discriminate ..]).
  destruct Hd as [->|Hne].
  - cbn [BYb]. inversion Hrt; subst; try discriminate Hb.
    + destruct n; [discriminate|]. cbn [unstructure] in Hu. rewrite HB in Hu. exact Hu.
    + destruct n; [discriminate|]. cbn [unstructure] in Hu. rewrite HB in Hu. exact Hu.
    + destruct n; [discriminate|]. cbn [unstructure] in Hu. rewrite HB in Hu. exact Hu.
    + destruct n; [discriminate|]. cbn [unstructure] in Hu. rewrite HB in Hu. exact Hu.
  - pose proof (unb_rt x t Hrt Hb Hne n u Hu) as X. destruct x; try exact X. contradiction.
Qed.

(* set elements and mapping keys: atoms, enum members and literals -- both classes give exactly the same value *)
Lemma key_agree t a n w : key_ty t = true -> base_deep t = true -> rt_value E false a t -> ung n t a = Ok w -> BYb n a = Ok w.
Proof.
  intros Hk Hb Hrt Hu. destruct n as [|n]; [discriminate|]. cbn [unstructure] in Hu. rewrite HG in Hu.
  destruct t; cbn in Hk, Hb; try discriminate; inversion Hrt; subst; unfold BYb.
  - cbn [rt_type unstructure]. rewrite HB. exact Hu.
  - cbn [rt_type unstructure]. rewrite HB. exact Hu.
  - destruct a; try discriminate; [exact Hu|]. cbn [rt_type unstructure]. rewrite HB. exact Hu.
Qed.

Definition vrel (a b : val) : Prop := lst a = lst b.
Definition prel (p q : val * val) : Prop := fst p = fst q /\ vrel (snd p) (snd q).

Lemma vdict_set_rel d d' k v v' : Forall2 prel d d' -> vrel v v' -> Forall2 prel (vdict_set d k v) (vdict_set d' k v').
Proof.
  intros H Hv. induction H as [|[k1 v1] [k2 v2] d d' Hp Hdd IH]; cbn [vdict_set].
  - constructor; [|constructor]. unfold prel. cbn. auto.
  - destruct Hp as [Hk Hr]. cbn in Hk, Hr. subst k2. destruct (val_eqb k1 k).
    + constructor; [split; [reflexivity | exact Hv] | exact Hdd].
    + constructor; [split; [reflexivity | exact Hr] | exact IH].
Qed.

Lemma dict_of_pairs_rel ps ps' : Forall2 prel ps ps' -> forall acc acc' d, Forall2 prel acc acc' ->
  dict_of_pairs acc ps = Ok d -> exists d', dict_of_pairs acc' ps' = Ok d' /\ Forall2 prel d d'.
Proof.
  intros H. induction H as [|[k v] [k' v'] ps ps' [Hk Hv] _ IH]; intros acc acc' d Ha Hd; cbn [dict_of_pairs] in *.
  - inversion Hd; subst. eauto.
  - cbn in Hk, Hv. subst k'. unfold dict_put in *. destruct (negb (hashable k)); cbn [bind] in *; [discriminate|].
    eapply IH; [|exact Hd]. now apply vdict_set_rel.
Qed.

Lemma prel_lst d d' : Forall2 prel d d' -> lst (VDict d) = lst (VDict d').
Proof.
  intros H. cbn [lst]. f_equal. induction H as [|[k v] [k' v'] d d' [Hk Hv] _ IH]; cbn [map]; [reflexivity|].
  cbn in Hk, Hv. subst k'. unfold vrel in Hv. cbn [fst snd]. now rewrite Hv, IH.
Qed.

Hypothesis H_env : forall c cd, e_class E c = Some cd ->
  wf val (topt cfgG c) nov (cd_fields cd) /\ (forall f, In f (cd_fields cd) -> f_init f = true) /\
  (forall nm ft, assoc (cd_types cd) nm = Some ft -> base_deep ft = true).

Theorem unstructure_agree : forall n t x u, rt_value E false x t -> base_deep t = true -> ung n t x = Ok u ->
  exists u', unb n t x = Ok u' /\ lst u' = lst u.
Proof.
  induction n as [|n IH]; intros t x u Hrt Hb Hu; [discriminate|].
  (* elements of a collection *)
  assert (ELEMS : forall t0 l r, base_deep t0 = true -> Forall (fun y => rt_value E false y t0) l ->
            Forall2 (fun y w => ung n t0 y = Ok w) l r -> exists r', map_res (BYb n) l = Ok r' /\ map lst r' = map lst r).
  { intros t0 l r Hb0 HF Em. induction Em as [|y w l r Hyw _ IHm]; [exists []; auto|]. inversion HF as [|? ? Hy HF']; subst.
    destruct (IH _ _ _ Hy Hb0 Hyw) as (w' & Hw' & Hl). destruct (IHm HF') as (r' & Hr' & Hlr).
    exists (w' :: r'). cbn [map_res]. rewrite (by_class_of_typed _ _ _ _ Hy Hb0 Hw'). cbn [bind]. rewrite Hr'. cbn [bind map]. now rewrite Hl, Hlr. }
  assert (KEYS : forall t0 l r, key_ty t0 = true -> base_deep t0 = true -> Forall (fun y => rt_value E false y t0) l ->
            Forall2 (fun y w => ung n t0 y = Ok w) l r -> map_res (BYb n) l = Ok r).
  { intros t0 l r Hk0 Hb0 HF Em. induction Em as [|y w l r Hyw _ IHm]; [reflexivity|]. inversion HF as [|? ? Hy HF']; subst.
    cbn [map_res]. rewrite (key_agree _ _ _ _ Hk0 Hb0 Hy Hyw). cbn [bind]. rewrite (IHm HF'). reflexivity. }
  inversion Hrt; subst; clear Hrt; cbn [base_deep] in Hb; try discriminate Hb; cbn [unstructure] in Hu |- *; rewrite HG in Hu; rewrite HB.
  - (* Any: None or an atom *)
    match goal with H : atomic _ = true |- _ => pose proof (by_class_atomic E cfgG HG n _ _ H Hu) as Hx end. subst u.
    destruct x; try discriminate; [eexists; split; reflexivity|].
    cbn [rt_type] in *. destruct n as [|n]; [discriminate|]. cbn [unstructure]. rewrite HB. eexists; split; reflexivity.
  - (* prim *) inversion Hu; subst. eexists; split; reflexivity.
  - (* enum *) exists u. split; [exact Hu | reflexivity].
  - (* literal *) inversion Hu; subst. eexists; split; reflexivity.
  - (* list *)
    cbn [iter_val bind] in *. destruct (map_res (ung n t0) l) as [r| |] eqn:Em; cbn [bind] in Hu; try discriminate. inversion Hu; subst u.
    apply map_res_forall2 in Em. destruct (ELEMS t0 l r Hb H Em) as (r' & Hr' & Hl). fold (BYb n). rewrite Hr'. cbn [bind same_class].
    eexists; split; [reflexivity|]. cbn [lst]. now rewrite Hl.
  - (* homogeneous tuple: Converter makes a list, BaseConverter keeps the tuple *)
    cbn [iter_val bind] in *. destruct (map_res (ung n t0) l) as [r| |] eqn:Em; cbn [bind] in Hu; try discriminate. inversion Hu; subst u.
    apply map_res_forall2 in Em. destruct (ELEMS t0 l r Hb H Em) as (r' & Hr' & Hl). fold (BYb n). rewrite Hr'. cbn [bind same_class].
    eexists; split; [reflexivity|]. cbn [lst]. now rewrite Hl.
  - (* set *)
    cbn [iter_val bind] in *. destruct (map_res (ung n t0) l) as [r| |] eqn:Em; cbn [bind] in Hu; try discriminate.
    apply map_res_forall2 in Em. fold (BYb n). rewrite (KEYS t0 l r H Hb H0 Em). cbn [bind same_class].
    destruct (set_of_list [] r) as [s0| |]; cbn [bind] in *; try discriminate. exists u. split; [exact Hu | reflexivity].
  - (* frozenset *)
    cbn [iter_val bind] in *. destruct (map_res (ung n t0) l) as [r| |] eqn:Em; cbn [bind] in Hu; try discriminate.
    apply map_res_forall2 in Em. fold (BYb n). rewrite (KEYS t0 l r H Hb H0 Em). cbn [bind same_class].
    destruct (set_of_list [] r) as [s0| |]; cbn [bind] in *; try discriminate. exists u. split; [exact Hu | reflexivity].
  - (* mapping *)
    apply andb_true_iff in Hb. destruct Hb as [Hbk Hbv].
    cbn [items_val bind] in *. unfold un_pairs in Hu |- *.
    destruct (map_res _ kvs) as [ps| |] eqn:Em; cbn [bind] in Hu; try discriminate.
    destruct (dict_of_pairs [] ps) as [d| |] eqn:Ed; cbn [bind] in Hu; try discriminate. inversion Hu; subst u.
    apply map_res_forall2 in Em.
    assert (PS : exists ps', map_res (fun kv => do k <- BYb n (fst kv); do v <- BYb n (snd kv); Ok (k, v)) kvs = Ok ps' /\ Forall2 prel ps ps').
    { clear Ed. match goal with X : dict_like _ |- _ => clear X end. revert H0. induction Em as [|kv p kvs ps Hp _ IHm]; intros HF; [exists []; split; [reflexivity | constructor]|].
      inversion HF as [|? ? [Hk Hv] HF']; subst. cbn in Hp.
      destruct (ung n kt (fst kv)) as [k'| |] eqn:Ek; cbn [bind] in Hp; try discriminate.
      destruct (ung n vt (snd kv)) as [v'| |] eqn:Ev; cbn [bind] in Hp; try discriminate. inversion Hp; subst p.
      destruct (IH _ _ _ Hv Hbv Ev) as (v'' & Hv'' & Hl). destruct (IHm HF') as (ps' & Hps' & Hrel).
      exists ((k', v'') :: ps'). cbn [map_res]. rewrite (key_agree _ _ _ _ H Hbk Hk Ek). cbn [bind].
      rewrite (by_class_of_typed _ _ _ _ Hv Hbv Hv''). cbn [bind]. rewrite Hps'. cbn [bind]. split; [reflexivity|].
      constructor; [split; [reflexivity | cbn; unfold vrel; now rewrite Hl] | exact Hrel]. }
    destruct PS as (ps' & Hps' & Hrel). unfold BYb in Hps'. cbv beta in Hps' |- *. rewrite Hps'. cbn [bind].
    destruct (dict_of_pairs_rel ps ps' Hrel [] [] d (Forall2_nil _) Ed) as (d' & Hd' & Hdd). rewrite Hd'. cbn [bind].
    eexists; split; [reflexivity|]. symmetry. now apply prel_lst.
  - (* Optional: None *) inversion Hu; subst. eexists; split; reflexivity.
  - (* Optional: a value *)
    assert (Hc : x = VNone \/ x <> VNone) by (destruct x; [left; reflexivity | right; discriminate ..]).
    destruct Hc as [->|Hne]; [inversion Hu; subst; eexists; split; reflexivity|].
    assert (Hu' : ung n t0 x = Ok u) by (destruct x; try exact Hu; contradiction).
    destruct (IH _ _ _ H Hb Hu') as (u' & Hu'' & Hl). exists u'. split; [|exact Hl].
    pose proof (by_class_of_typed _ _ _ _ H Hb Hu'') as X. exact X.
  - (* class *)
    match goal with X : e_class E c = Some _ |- _ => rename X into Hc end.
    match goal with X : map fst i = _ |- _ => rename X into Hkeys end.
    match goal with X : Forall _ i |- _ => rename X into HF end.
    rewrite Hc in Hu |- *. cbn [inst_fields] in Hu |- *. unfold nov in *.
    destruct (H_env c cd Hc) as (W & A_init & A_ty).
    match type of Hu with context [un_gen _ _ _ _ ?h _ _] => set (hs_g := h) in Hu end.
    match goal with |- context [un_interp_dict _ ?h _ _] => set (hs_b := h) end.
    pose (hu_g := fun nm v => match hs_g nm v with Ok w => w | _ => VNone end).
    pose (hu_b := fun nm v => match hs_b nm v with Ok w => w | _ => VNone end).
    (* what the generated / tuple hook tells about the handlers: they all succeeded *)
    assert (REL : (forall f, In f (cd_fields cd) -> hs_g (f_name f) (aval val VNone i f) = Ok (hu_g (f_name f) (aval val VNone i f))) ->
                  forall f, In f (cd_fields cd) ->
                    hs_b (f_name f) (aval val VNone i f) = Ok (hu_b (f_name f) (aval val VNone i f)) /\
                    lst (hu_b (f_name f) (aval val VNone i f)) = lst (hu_g (f_name f) (aval val VNone i f))).
    { intros Hg f Hf. pose proof (Hg f Hf) as Eg.
      pose proof (vals_ok val VNone (cd_fields cd) i Hkeys f Hf) as Ea. apply assoc_in in Ea.
      rewrite Forall_forall in HF. specialize (HF _ Ea). cbn [fst snd] in HF. unfold field_ty in HF.
      unfold hu_b, hs_b, hs_g in *. destruct (assoc (cd_types cd) (f_name f)) as [ft|] eqn:Et.
      - destruct (IH _ _ _ HF (A_ty _ _ Et) Eg) as (w' & Hw' & Hl). rewrite Hw'. split; [reflexivity|]. unfold hu_g. rewrite Et, Eg. exact Hl.
      - inversion HF; subst. match goal with X : atomic _ = true |- _ => rename X into Hat end.
        pose proof (by_class_atomic E cfgG HG n _ _ Hat Eg) as Hx. unfold hu_g. rewrite Et, Eg, Hx.
        destruct (aval val VNone i f) eqn:Eav; try discriminate; [split; reflexivity|].
        cbn [rt_type] in *. destruct n as [|n']; [discriminate|]. cbn [unstructure]. rewrite HB. split; reflexivity. }
    rewrite H_tup. destruct (c_tuple cfgG) eqn:Etup.
    + destruct (un_interp_tuple val hs_g (cd_fields cd) i) as [tt| |] eqn:Eg; cbn [bind] in Hu; try discriminate. inversion Hu; subst u. clear Hu.
      assert (H_hu : forall f, In f (cd_fields cd) -> hs_g (f_name f) (aval val VNone i f) = Ok (hu_g (f_name f) (aval val VNone i f))).
      { intros f Hf. pose proof (un_interp_tuple_handlers val hs_g (cd_fields cd) i tt Eg f Hf) as (v & w & Ea & Eh).
        rewrite (vals_ok val VNone (cd_fields cd) i Hkeys f Hf) in Ea. inversion Ea; subst v. unfold hu_g. now rewrite Eh. }
      rewrite (un_interp_tuple_all val (cd_fields cd) i Hkeys VNone hs_g hu_g H_hu) in Eg. inversion Eg; subst tt.
      rewrite (un_interp_tuple_all val (cd_fields cd) i Hkeys VNone hs_b hu_b (fun f Hf => proj1 (REL H_hu f Hf))). cbn [bind].
      eexists; split; [reflexivity|]. cbn [lst]. f_equal. unfold T. rewrite !map_map. apply map_ext_in. intros f Hf. exact (proj2 (REL H_hu f Hf)).
    + destruct (un_gen val val_eqb (topt cfgG c) (fun _ => neutral) hs_g (cd_fields cd) i) as [dd| |] eqn:Eg; cbn [bind] in Hu; try discriminate.
      inversion Hu; subst u. clear Hu.
      assert (H_hu : forall f, In f (cd_fields cd) -> hs_g (f_name f) (aval val VNone i f) = Ok (hu_g (f_name f) (aval val VNone i f))).
      { intros f Hf. unfold un_gen in Eg.
        destruct (un_literal val (topt cfgG c) (fun _ => neutral) hs_g (filter (un_included val (topt cfgG c) (fun _ => neutral)) (cd_fields cd)) i) as [lit| |] eqn:El; cbn [bind] in Eg; try discriminate.
        change (filter (un_included val (topt cfgG c) (fun _ => neutral)) (cd_fields cd))
          with (filter (included val (topt cfgG c) (fun _ : N => neutral)) (cd_fields cd)) in El.
        rewrite (inc_is_fs val (topt cfgG c) (cd_fields cd) A_init) in El.
        destruct (un_literal_handlers _ _ _ _ _ _ _ El (fun g _ => no_omit val (topt cfgG c) eq_refl g) f Hf) as (v & w & Ea & Eh).
        rewrite (vals_ok val VNone (cd_fields cd) i Hkeys f Hf) in Ea. inversion Ea; subst v. unfold hu_g. now rewrite Eh. }
      rewrite (un_gen_all val VNone (topt cfgG c) eq_refl eq_refl (cd_fields cd) W A_init i Hkeys hs_g hu_g H_hu val_eqb) in Eg. inversion Eg; subst dd.
      rewrite (un_interp_all val VNone (cd_fields cd) i Hkeys hs_b hu_b (fun f Hf => proj1 (REL H_hu f Hf))). cbn [bind].
      eexists; split; [reflexivity|]. cbn [lst]. f_equal. unfold D. rewrite !map_map. apply map_ext_in. intros f Hf. cbn [fst snd lst skey].
      f_equal. exact (proj2 (REL H_hu f Hf)).
Qed.

End UA.
