(* PassthroughProofs.v -- union passthrough (C15): the hook implements the documented rule,
   and its outcome does not depend on the order of the union's members. *)
From V.Model Require Import Base Passthrough.
From Coq Require Import Permutation.

Section PP.
Variable sub : N -> N -> bool.
Variable S : list N.

(* with the literal check done on (class, value) pairs the hook is exactly the rule *)
Theorem native_is_doc U v : structure_native sub S true U v = doc_outcome sub S U v.
Proof.
  unfold structure_native, doc_outcome, lit_hit, accepted_class.
  destruct (existsb (fun l => N.eqb (fst l) (fst v) && N.eqb (snd l) (snd v)) (lits U)); [now rewrite orb_true_r|].
  rewrite orb_false_r. reflexivity.
Qed.

(* the old check (class and value tested independently) implements the rule only when the
   literals of the union are "rectangular" *)
Definition rectangular (U : list member) : Prop :=
  forall k e, mem_N k (literal_classes U) = true -> mem_N e (literal_values U) = true ->
              existsb (fun l => N.eqb (fst l) k && N.eqb (snd l) e) (lits U) = true
              \/ mem_N k (non_literal_classes sub S U) = true.

Lemma pair_in_classes_values U k e :
  existsb (fun l => N.eqb (fst l) k && N.eqb (snd l) e) (lits U) = true ->
  mem_N k (literal_classes U) = true /\ mem_N e (literal_values U) = true.
Proof.
  unfold literal_classes, literal_values, mem_N. intros H. apply existsb_exists in H. destruct H as ([a b] & Hin & E).
  cbn in E. apply andb_true_iff in E. destruct E as [E1 E2]. apply N.eqb_eq in E1, E2. subst.
  split; apply existsb_exists.
  - exists k. split; [|apply N.eqb_refl]. change k with (fst (k, e)). now apply in_map.
  - exists e. split; [|apply N.eqb_refl]. change e with (snd (k, e)). now apply in_map.
Qed.

Theorem native_unpaired_is_doc_partial U v :
  rectangular U -> structure_native sub S false U v = doc_outcome sub S U v.
Proof.
  intros R. unfold structure_native, doc_outcome, lit_hit, accepted_class. destruct v as [k e]. cbn [fst snd].
  destruct (existsb (fun l => N.eqb (fst l) k && N.eqb (snd l) e) (lits U)) eqn:Ep.
  - destruct (pair_in_classes_values U k e Ep) as [H1 H2]. rewrite H1, H2. cbn. now rewrite orb_true_r.
  - rewrite orb_false_r.
    destruct (mem_N k (literal_classes U)) eqn:H1; cbn [andb]; [|reflexivity].
    destruct (mem_N e (literal_values U)) eqn:H2; [|reflexivity].
    destruct (R k e H1 H2) as [X|X]; [congruence|]. now rewrite X.
Qed.

(* ---- order independence ---- *)
Lemma existsb_perm {A} (f : A -> bool) l l' : Permutation l l' -> existsb f l = existsb f l'.
Proof.
  induction 1 as [| x l l' H IH | x y l | l l' l'' H1 IH1 H2 IH2]; cbn; auto.
  - now rewrite IH.
  - destruct (f x), (f y); reflexivity.
  - congruence.
Qed.

Lemma mem_N_perm k l l' : Permutation l l' -> mem_N k l = mem_N k l'.
Proof. apply existsb_perm. Qed.

Lemma filter_perm {A} (f : A -> bool) l l' : Permutation l l' -> Permutation (filter f l) (filter f l').
Proof.
  induction 1 as [| x l l' H IH | x y l | l l' l'' H1 IH1 H2 IH2]; cbn; auto.
  - destruct (f x); auto.
  - destruct (f x), (f y); auto. apply perm_swap.
  - eapply Permutation_trans; eauto.
Qed.

Lemma lits_perm U U' : Permutation U U' -> Permutation (lits U) (lits U').
Proof. intros H. unfold lits. now apply Permutation_flat_map. Qed.

Lemma nlc0_perm U U' : Permutation U U' -> Permutation (nlc0 S U) (nlc0 S U').
Proof. intros H. unfold nlc0. now apply Permutation_flat_map. Qed.

Lemma nlc_mem_perm U U' k : Permutation U U' ->
  mem_N k (non_literal_classes sub S U) = mem_N k (non_literal_classes sub S U').
Proof.
  intros H. unfold non_literal_classes, mem_N. rewrite !existsb_app.
  rewrite (existsb_perm _ _ _ (nlc0_perm U U' H)). f_equal.
  assert (E : filter (fun a => existsb (fun c => sub a c) (nlc0 S U)) S = filter (fun a => existsb (fun c => sub a c) (nlc0 S U')) S).
  { apply filter_ext. intros a. apply existsb_perm. now apply nlc0_perm. }
  now rewrite E.
Qed.

Lemma spillover_perm U U' : Permutation U U' -> Permutation (spillover sub S U) (spillover sub S U').
Proof.
  intros H. unfold spillover.
  assert (E : forall m, (match base_of m with Some c => negb (mem_N c (non_literal_classes sub S U)) | None => false end)
                      = (match base_of m with Some c => negb (mem_N c (non_literal_classes sub S U')) | None => false end)).
  { intros m. destruct (base_of m); [|reflexivity]. now rewrite (nlc_mem_perm U U' n H). }
  rewrite (filter_ext _ _ E). now apply filter_perm.
Qed.

Lemma member_eqb_refl m : member_eqb m m = true.
Proof.
  destruct m as [c|n c|vs]; cbn; rewrite ?N.eqb_refl; try reflexivity.
  induction vs as [|[a b] vs IH]; [reflexivity|]. rewrite !N.eqb_refl. cbn. exact IH.
Qed.

Lemma set_incl_perm (x y : list member) : Permutation x y ->
  forallb (fun m => existsb (member_eqb m) y) x = true.
Proof.
  intros H. apply forallb_forall. intros m Hm. apply existsb_exists. exists m. split; [|apply member_eqb_refl].
  eapply Permutation_in; eassumption.
Qed.

Theorem native_order_independent pairs U U' v :
  Permutation U U' ->
  outcome_same (structure_native sub S pairs U v) (structure_native sub S pairs U' v) = true.
Proof.
  intros H. unfold structure_native.
  assert (E1 : lit_hit pairs U v = lit_hit pairs U' v).
  { unfold lit_hit, literal_classes, literal_values. destruct pairs.
    - apply existsb_perm. now apply lits_perm.
    - rewrite (mem_N_perm (fst v) _ _ (Permutation_map fst (lits_perm U U' H))).
      rewrite (mem_N_perm (snd v) _ _ (Permutation_map snd (lits_perm U U' H))). reflexivity. }
  rewrite E1, (nlc_mem_perm U U' (fst v) H).
  destruct (lit_hit pairs U' v); [reflexivity|].
  destruct (mem_N (fst v) (non_literal_classes sub S U')); [reflexivity|].
  pose proof (spillover_perm U U' H) as Hs.
  destruct (spillover sub S U) as [|m r] eqn:E, (spillover sub S U') as [|m' r'] eqn:E'; cbn [outcome_same].
  - reflexivity.
  - apply Permutation_nil in Hs. discriminate.
  - apply Permutation_sym, Permutation_nil in Hs. discriminate.
  - rewrite (set_incl_perm _ _ Hs), (set_incl_perm _ _ (Permutation_sym Hs)). reflexivity.
Qed.

End PP.
