(* SubclassesProofs.v -- include_subclasses (automatic variant) resolves every payload to the
   exact class of the instance it came from (C14), as a corollary of the C12 theorem. *)
From V.Model Require Import Base Disambig Subclasses.
From V.Proofs Require Import DisambigProofs.
From Coq Require Import Permutation Lia.

Section SP.
Variable choose : list N -> list N.
Variable ord : list dclass -> list dclass.
Variable skip : bool.
Variable classes : list dclass.
Variable is_desc : N -> N -> bool.
Hypothesis choose_sub : forall l x, In x (choose l) -> In x l.
Hypothesis ord_perm : forall l, Permutation (ord l) l.
Hypothesis desc_refl : forall x, is_desc x x = true.
Hypothesis desc_trans : forall x y z, is_desc x y = true -> is_desc y z = true -> is_desc x z = true.
Hypothesis classes_nodup : NoDup (ids classes).

Lemma sub_union_in k c : In c (sub_union ord classes is_desc k) <-> In c classes /\ is_desc (dc_id c) k = true.
Proof.
  unfold sub_union. split.
  - intros H. apply (Permutation_in _ (ord_perm _)) in H. now apply filter_In in H.
  - intros H. apply (Permutation_in _ (Permutation_sym (ord_perm _))). now apply filter_In.
Qed.

Lemma nodup_ids_filter (f : dclass -> bool) l : NoDup (ids l) -> NoDup (ids (filter f l)).
Proof.
  unfold ids. induction l as [|x l IH]; cbn; intros H; [constructor|]. inversion H as [|? ? Hn Hr]; subst.
  destruct (f x); cbn; [constructor|]; auto.
  intros X. apply Hn. apply in_map_iff in X. destruct X as (y & E & Hy). apply filter_In in Hy.
  apply in_map_iff. exists y. tauto.
Qed.

Lemma sub_union_nodup k : NoDup (ids (sub_union ord classes is_desc k)).
Proof.
  unfold sub_union. eapply Permutation_NoDup.
  - unfold ids. apply Permutation_map. apply Permutation_sym. apply ord_perm.
  - now apply nodup_ids_filter.
Qed.

(* one application of the hook registered for class k to the payload of an instance of x (a
   descendant of k, or k itself): it hands the payload to x *)
Lemma node_step k x keys r :
  In x classes -> is_desc (dc_id x) k = true -> payload_of skip x keys ->
  key_loop choose skip (sort_desc (sub_union ord classes is_desc k)) (sort_desc (sub_union ord classes is_desc k)) [] None = Ok r ->
  dis_keys (fst r) (snd r) keys = Ok (dc_id x).
Proof.
  intros Hx Hd Hp Hrun. destruct r as [a fb].
  apply (create_dis_keys_correct choose skip choose_sub (sub_union ord classes is_desc k) a fb (sub_union_nodup k) Hrun x keys); auto.
  apply sub_union_in. auto.
Qed.

Lemma two_members {A} (l : list A) a b : In a l -> In b l -> a <> b -> 2 <= length l.
Proof.
  destruct l as [|x [|y r]]; cbn; intros Ha Hb Hne; try contradiction; [|lia].
  destruct Ha as [Ha|[]], Hb as [Hb|[]]. congruence.
Qed.

(* C14, automatic variant: whenever include_subclasses was accepted (a disambiguator exists at every
   node), structuring the payload of an instance of x as any ancestor-or-self k lands on x itself *)
Theorem auto_resolve_exact k x keys fuel :
  (forall c, node_ok choose ord skip classes is_desc c = true) ->
  (exists ck, In ck classes /\ dc_id ck = k) ->
  In x classes -> is_desc (dc_id x) k = true -> payload_of skip x keys ->
  auto_resolve choose ord skip classes is_desc (S (S fuel)) k keys = Ok (dc_id x).
Proof.
  intros Hok (ck & Hck & Eck) Hx Hd Hp.
  assert (Hself : forall n, auto_resolve choose ord skip classes is_desc (S n) (dc_id x) keys = Ok (dc_id x)).
  { intros n. cbn [auto_resolve]. destruct (Nat.ltb (length (sub_union ord classes is_desc (dc_id x))) 2) eqn:El; [reflexivity|].
    pose proof (Hok (dc_id x)) as Hn. unfold node_ok in Hn. rewrite El in Hn. cbn [orb] in Hn.
    destruct (key_loop choose skip _ _ [] None) as [r| |] eqn:Er; try discriminate. cbn [bind].
    rewrite (node_step (dc_id x) x keys r Hx (desc_refl _) Hp Er). cbn [bind]. now rewrite N.eqb_refl. }
  cbn [auto_resolve].
  destruct (Nat.ltb (length (sub_union ord classes is_desc k)) 2) eqn:El.
  - (* k has no subclasses in the tree: x, being k or a descendant, is k *)
    assert (Hxk : dc_id x = k).
    { destruct (N.eq_dec (dc_id x) k) as [E|Hne]; [exact E|]. exfalso.
      apply Nat.ltb_lt in El.
      assert (H2 : 2 <= length (sub_union ord classes is_desc k)).
      { apply (two_members _ x ck).
        - apply sub_union_in. auto.
        - apply sub_union_in. split; [exact Hck|]. rewrite Eck. apply desc_refl.
        - intros E. apply Hne. now rewrite E. }
      lia. }
    now rewrite Hxk.
  - pose proof (Hok k) as Hn. unfold node_ok in Hn. rewrite El in Hn. cbn [orb] in Hn.
    destruct (key_loop choose skip _ _ [] None) as [r| |] eqn:Er; try discriminate. cbn [bind].
    rewrite (node_step k x keys r Hx Hd Hp Er). cbn [bind].
    destruct (N.eqb (dc_id x) k) eqn:E; [apply N.eqb_eq in E; now rewrite E|].
    apply Hself.
Qed.

End SP.
