(* ConvRoundtrip.v -- C01 for the nested universe: what Converter unstructures from a value of T,
   Converter and BaseConverter (either validation mode) structure back to THE SAME value.
   Same-fuel form, induction on the fuel; the class case is ClassRoundtrip.v. *)
From Coq Require Import Lia.
From V.Model Require Import Base Templates Conv ConvSpec.
From V.Proofs Require Import TemplatesProofs UnstructProofs ClassSound ClassRoundtrip.

Section RT.
Variable E : env.
Variable cfgU cfgS : ccfg.
Variable ann : bool.

Hypothesis HU_gen : c_gen cfgU = true.
Hypothesis H_tuple : c_tuple cfgU = c_tuple cfgS.       (* a tuple needs a converter that expects tuples *)
Hypothesis H_tuple_kw : c_tuple cfgS = true -> c_tuple_kw cfgS = true.   (* kw_only attributes passed by keyword *)
Hypothesis HU_forbid : c_forbid cfgU = false.
Hypothesis HS_forbid : c_forbid cfgS = false.
Hypothesis HS_recheck : c_recheck cfgS = true.
Hypothesis HS_kw : c_kw_last cfgS = true.
Hypothesis H_ann : ann = true -> c_gen cfgS = true.      (* Annotated[...] only where the structuring side is a Converter *)

(* int(5) is 5, str("a") is "a": the constructor applied to an instance of its own class returns an equal instance of that class *)
Hypothesis H_coerce_id : forall p e, e_coerce E p (VAtom p e) = Ok (VAtom p e).

Definition rt_class_ok (c : N) (cd : cdef) : Prop :=
  wf val (topt cfgS c) nov (cd_fields cd) /\ (forall f, In f (cd_fields cd) -> f_init f = true /\ f_conv f = false).
Hypothesis H_env : forall c cd, e_class E c = Some cd -> rt_class_ok c cd.

Notation un := (unstructure E cfgU).
Notation st := (structure E cfgS).

(* ---------------- generic list lemmas ---------------- *)
Lemma map_res_forall2 {A B} (f : A -> result B) l : forall r, map_res f l = Ok r -> Forall2 (fun x y => f x = Ok y) l r.
Proof.
  induction l as [|x l IH]; intros r H; cbn [map_res] in H; [inversion H; constructor|].
  destruct (f x) as [y| |] eqn:Ef; cbn [bind] in H; try discriminate.
  destruct (map_res f l) as [ys| |]; cbn [bind] in H; try discriminate. inversion H; subst. constructor; auto.
Qed.

Lemma forall_forall2 {A B} (P : A -> Prop) (Q R : A -> B -> Prop) l r :
  Forall P l -> Forall2 Q l r -> (forall x y, P x -> Q x y -> R x y) -> Forall2 R l r.
Proof. intros HP HQ. revert HP. induction HQ as [|a b l' r' Hab _ IHq]; intros HP HR; constructor; inversion HP; subst; auto. Qed.

Lemma forall2_impl {A B} (P Q : A -> B -> Prop) : (forall a b, P a b -> Q a b) -> forall l r, Forall2 P l r -> Forall2 Q l r.
Proof. intros H l r HF. induction HF; constructor; auto. Qed.

Lemma forall2_length {A B} (P : A -> B -> Prop) l r : Forall2 P l r -> length l = length r.
Proof. induction 1; cbn; auto. Qed.

Lemma forall2_eq {A} (l r : list A) : Forall2 (fun x y => y = x) l r -> r = l.
Proof. induction 1; subst; reflexivity. Qed.

Lemma coll_rt (g : val -> result val) l r : Forall2 (fun x y => g y = Ok x) l r -> coll cfgS g r = Ok l.
Proof.
  intros H. unfold coll. destruct (c_dv cfgS).
  - assert (X : forall ix acc errs, coll_det g r ix acc errs = Ok (acc ++ l, errs)).
    { induction H as [|x y l r Hxy _ IH]; intros ix acc errs; cbn [coll_det]; [now rewrite app_nil_r|].
      rewrite Hxy, IH, <- app_assoc. reflexivity. }
    rewrite X. reflexivity.
  - induction H as [|x y l r Hxy _ IH]; cbn [coll_fast]; [reflexivity|]. rewrite Hxy. cbn [bind]. rewrite IH. reflexivity.
Qed.

Lemma st_any n y x : st n TAny y = Ok x -> y = x.
Proof. destruct n; cbn; intros H; inversion H; reflexivity. Qed.

(* ---------------- keys and set elements ---------------- *)
Definition key_enc (a : val) : val :=
  match a with
  | VEnum en i => match nth_error (e_enum E en) (N.to_nat i) with Some v => v | None => VNone end
  | _ => a
  end.

Lemma atomic_enc a : atomic a = true -> key_enc a = a.
Proof. destruct a; cbn; intros H; try discriminate; reflexivity. Qed.

Lemma key_unstructure : forall n t a a', key_ty t = true -> rt_value E ann a t -> un n t a = Ok a' -> a' = key_enc a.
Proof.
  induction n as [|n IH]; intros t a a' Hk Hrt Hu; [discriminate|].
  destruct t; cbn in Hk; try discriminate; cbn [unstructure] in Hu; rewrite HU_gen in Hu.
  - inversion Hrt; subst. inversion Hu. reflexivity.
  - inversion Hrt; subst. unfold member_value in Hu. cbn. destruct (nth_error (e_enum E e) (N.to_nat i)); inversion Hu; subst.
    match goal with H : Some _ = Some _ |- _ => inversion H; subst end. reflexivity.
  - inversion Hrt; subst. inversion Hu; subst. symmetry. now apply atomic_enc.
  - inversion Hrt; subst. eapply IH; eassumption.
  - inversion Hrt; subst. eapply IH; eassumption.
Qed.

Lemma key_map n t l r : key_ty t = true -> Forall (fun x => rt_value E ann x t) l ->
  Forall2 (fun x y => un n t x = Ok y) l r -> r = map key_enc l.
Proof.
  intros Hk HF Em. induction Em as [|a b l r Hab _ IHm]; [reflexivity|]. inversion HF; subst. cbn. f_equal; [eapply key_unstructure; eassumption | auto].
Qed.

Lemma find_member_class l k k' e : find_member l (VAtom k e) = find_member l (VAtom k' e).
Proof.
  unfold find_member. generalize 0%N. induction l as [|m l IH]; intros i; [reflexivity|].
  assert (X : val_eqb m (VAtom k e) = val_eqb m (VAtom k' e)) by (destruct m; reflexivity).
  rewrite X. destruct (val_eqb m (VAtom k' e)); [reflexivity | apply IH].
Qed.

Lemma key_enc_eqb : forall t a b, key_ty t = true -> rt_value E ann a t -> rt_value E ann b t ->
  val_eqb (key_enc a) (key_enc b) = val_eqb a b.
Proof.
  induction t; intros a b Hk Ha Hb; cbn in Hk; try discriminate.
  - inversion Ha; inversion Hb; subst. reflexivity.
  - inversion Ha as [| |en i k1 e1 Hn1 Hf1| | | | | | | | | | | |]; inversion Hb as [| |en' j k2 e2 Hn2 Hf2| | | | | | | | | | | |]; subst.
    cbn [key_enc]. rewrite Hn1, Hn2. cbn [val_eqb]. rewrite N.eqb_refl. cbn [andb].
    destruct (N.eqb e1 e2) eqn:Ee.
    + apply N.eqb_eq in Ee. subst e2. rewrite (find_member_class _ k1 k2 e1) in Hf1. rewrite Hf1 in Hf2. inversion Hf2. now rewrite N.eqb_refl.
    + destruct (N.eqb i j) eqn:Eij; [|reflexivity]. apply N.eqb_eq in Eij. subst j. rewrite Hn1 in Hn2. inversion Hn2; subst.
      rewrite N.eqb_refl in Ee. discriminate.
  - inversion Ha; inversion Hb; subst. rewrite !atomic_enc by assumption. reflexivity.
  - inversion Ha; inversion Hb; subst. now apply IHt.
  - inversion Ha; inversion Hb; subst. now apply IHt.
Qed.

Lemma key_hashable : forall t a, key_ty t = true -> rt_value E ann a t -> hashable a = true /\ hashable (key_enc a) = true.
Proof.
  induction t; intros a Hk Ha; cbn in Hk; try discriminate.
  - inversion Ha; subst. split; reflexivity.
  - inversion Ha; subst. cbn [key_enc]. match goal with H : nth_error _ _ = Some _ |- _ => rewrite H end. split; reflexivity.
  - inversion Ha; subst. rewrite atomic_enc by assumption. destruct a; try discriminate; split; reflexivity.
  - inversion Ha; subst. now apply IHt.
  - inversion Ha; subst. now apply IHt.
Qed.

Lemma key_not_any t : key_ty t = true -> is_any t = false.
Proof. destruct t; cbn; intros H; try discriminate; reflexivity. Qed.

(* ---------------- sets ---------------- *)
Lemma set_add_length acc v acc' : set_add acc v = Ok acc' -> length acc' <= S (length acc).
Proof.
  unfold set_add. destruct (negb (hashable v)); [discriminate|]. intros H. inversion H; subst.
  destruct (vmem v acc); [lia|]. rewrite app_length. cbn. lia.
Qed.
Lemma set_of_list_length l : forall acc s, set_of_list acc l = Ok s -> length s <= length acc + length l.
Proof.
  induction l as [|v l IH]; intros acc s H; cbn [set_of_list] in H; [inversion H; subst; cbn; lia|].
  destruct (set_add acc v) as [acc'| |] eqn:Ea; cbn [bind] in H; try discriminate.
  apply IH in H. apply set_add_length in Ea. cbn. lia.
Qed.

Lemma set_step acc v l : set_of_list acc (v :: l) = Ok (acc ++ v :: l) ->
  hashable v = true /\ vmem v acc = false /\ set_of_list (acc ++ [v]) l = Ok ((acc ++ [v]) ++ l).
Proof.
  cbn [set_of_list]. unfold set_add. destruct (hashable v) eqn:Eh; cbn [negb bind]; [|discriminate].
  destruct (vmem v acc) eqn:Em; intros H.
  - apply set_of_list_length in H. rewrite app_length in H. cbn in H. lia.
  - repeat split; auto. now rewrite <- app_assoc.
Qed.

Lemma vmem_enc t a acc : key_ty t = true -> rt_value E ann a t -> Forall (fun x => rt_value E ann x t) acc ->
  vmem (key_enc a) (map key_enc acc) = vmem a acc.
Proof.
  intros Hk Ha Hacc. unfold vmem. induction Hacc as [|b acc Hb _ IH]; [reflexivity|]. cbn [map existsb].
  rewrite (key_enc_eqb t a b Hk Ha Hb), IH. reflexivity.
Qed.

Lemma set_enc t l : key_ty t = true -> forall acc,
  Forall (fun x => rt_value E ann x t) acc -> Forall (fun x => rt_value E ann x t) l ->
  set_of_list acc l = Ok (acc ++ l) ->
  set_of_list (map key_enc acc) (map key_enc l) = Ok (map key_enc acc ++ map key_enc l).
Proof.
  intros Hk. induction l as [|v l IH]; intros acc Hacc Hl H; cbn [map set_of_list]; [now rewrite app_nil_r|].
  inversion Hl as [|? ? Hv Hl']; subst. destruct (set_step _ _ _ H) as (Hh & Hm & Hr).
  unfold set_add. rewrite (proj2 (key_hashable t v Hk Hv)). cbn [negb]. rewrite (vmem_enc t v acc Hk Hv Hacc), Hm. cbn [bind].
  specialize (IH (acc ++ [v])). rewrite map_app in IH. cbn [map] in IH. rewrite IH.
  - now rewrite <- app_assoc.
  - apply Forall_app. split; [exact Hacc | now constructor].
  - exact Hl'.
  - exact Hr.
Qed.

Lemma set_coll_rt (g : val -> result val) l r : Forall2 (fun x y => g y = Ok x) l r -> set_of_list [] l = Ok l -> set_coll cfgS g r = Ok l.
Proof.
  intros H Hs. unfold set_coll. destruct (c_dv cfgS).
  - assert (X : forall ix acc errs, set_of_list acc l = Ok (acc ++ l) -> set_det g r ix acc errs = Ok (acc ++ l, errs)).
    { clear Hs. induction H as [|x y l r Hxy _ IH]; intros ix acc errs Hs; cbn [set_det]; [now rewrite app_nil_r|].
      destruct (set_step _ _ _ Hs) as (Hh & Hm & Hr). rewrite Hxy. cbn [bind]. unfold set_add. rewrite Hh, Hm. cbn [negb].
      rewrite IH by exact Hr. now rewrite <- app_assoc. }
    rewrite (X 0%N [] [] Hs). reflexivity.
  - assert (X : coll_fast g r = Ok l).
    { clear Hs. induction H as [|x y l r Hxy _ IH]; cbn [coll_fast]; [reflexivity|]. rewrite Hxy. cbn [bind]. now rewrite IH. }
    rewrite X. cbn [bind]. exact Hs.
Qed.

(* ---------------- mappings ---------------- *)
Definition has_key (k : val) (d : list (val * val)) : bool := existsb (fun kv => val_eqb (fst kv) k) d.

Lemma vdict_set_cases d k v :
  (has_key k d = false -> vdict_set d k v = d ++ [(k, v)]) /\ (has_key k d = true -> length (vdict_set d k v) = length d).
Proof.
  induction d as [|[k' v'] d IH]; cbn; [split; [reflexivity | discriminate]|].
  destruct (val_eqb k' k); cbn.
  - split; [discriminate | reflexivity].
  - destruct IH as [I1 I2]. split; intros H; [now rewrite I1 | now rewrite I2].
Qed.

Lemma dict_put_length d k v d' : dict_put d k v = Ok d' -> length d' <= S (length d).
Proof.
  unfold dict_put. destruct (negb (hashable k)); [discriminate|]. intros H. inversion H; subst.
  destruct (vdict_set_cases d k v) as [I1 I2]. destruct (has_key k d); [rewrite I2 by reflexivity; lia|].
  rewrite I1 by reflexivity. rewrite app_length. cbn. lia.
Qed.
Lemma dict_of_pairs_length l : forall acc d, dict_of_pairs acc l = Ok d -> length d <= length acc + length l.
Proof.
  induction l as [|[k v] l IH]; intros acc d H; cbn [dict_of_pairs] in H; [inversion H; subst; cbn; lia|].
  destruct (dict_put acc k v) as [acc'| |] eqn:Ea; cbn [bind] in H; try discriminate.
  apply IH in H. apply dict_put_length in Ea. cbn. lia.
Qed.

Lemma dict_step acc k v l : dict_of_pairs acc ((k, v) :: l) = Ok (acc ++ (k, v) :: l) ->
  hashable k = true /\ has_key k acc = false /\ dict_of_pairs (acc ++ [(k, v)]) l = Ok ((acc ++ [(k, v)]) ++ l).
Proof.
  cbn [dict_of_pairs]. unfold dict_put. destruct (hashable k) eqn:Eh; cbn [negb bind]; [|discriminate].
  destruct (vdict_set_cases acc k v) as [I1 I2]. destruct (has_key k acc) eqn:Em; intros H.
  - apply dict_of_pairs_length in H. rewrite I2 in H by reflexivity. rewrite app_length in H. cbn in H. lia.
  - rewrite I1 in H by reflexivity. repeat split; auto. now rewrite <- app_assoc.
Qed.

Lemma dict_put_fresh acc k v : hashable k = true -> has_key k acc = false -> dict_put acc k v = Ok (acc ++ [(k, v)]).
Proof. intros Hh Hm. unfold dict_put. rewrite Hh. cbn [negb]. now rewrite (proj1 (vdict_set_cases acc k v) Hm). Qed.

Lemma has_key_enc t k acc accp : key_ty t = true -> rt_value E ann k t ->
  Forall2 (fun kv p => rt_value E ann (fst kv) t /\ fst p = key_enc (fst kv)) acc accp ->
  has_key (key_enc k) accp = has_key k acc.
Proof.
  intros Hk Hrt H. unfold has_key. induction H as [|kv p acc accp [Hkv Hp] _ IH]; [reflexivity|]. cbn [existsb].
  rewrite Hp, (key_enc_eqb t (fst kv) k Hk Hkv Hrt), IH. reflexivity.
Qed.

Lemma dict_enc t l lp : key_ty t = true ->
  Forall2 (fun kv p => rt_value E ann (fst kv) t /\ fst p = key_enc (fst kv)) l lp ->
  forall acc accp, Forall2 (fun kv p => rt_value E ann (fst kv) t /\ fst p = key_enc (fst kv)) acc accp ->
  dict_of_pairs acc l = Ok (acc ++ l) -> dict_of_pairs accp lp = Ok (accp ++ lp).
Proof.
  intros Hk H. induction H as [|[k v] [kp vp] l lp [Hrt Hp] _ IH]; intros acc accp Hacc Hd; cbn [dict_of_pairs]; [now rewrite app_nil_r|].
  cbn in Hrt, Hp. subst kp. destruct (dict_step _ _ _ _ Hd) as (Hh & Hm & Hr).
  rewrite dict_put_fresh.
  - cbn [bind]. rewrite (IH (acc ++ [(k, v)]) (accp ++ [(key_enc k, vp)])); [now rewrite <- app_assoc| |exact Hr].
    apply Forall2_app; [exact Hacc|]. constructor; [|constructor]. cbn. auto.
  - exact (proj2 (key_hashable t k Hk Hrt)).
  - rewrite (has_key_enc t k acc accp Hk Hrt Hacc). exact Hm.
Qed.

Lemma map_coll_rt (gk gv : val -> result val) kvs ps :
  Forall2 (fun kv p => gk (fst p) = Ok (fst kv) /\ gv (snd p) = Ok (snd kv)) kvs ps ->
  dict_of_pairs [] kvs = Ok kvs -> map_coll cfgS gk gv ps = Ok kvs.
Proof.
  intros H Hd. unfold map_coll. destruct (c_dv cfgS).
  - assert (X : forall acc errs, dict_of_pairs acc kvs = Ok (acc ++ kvs) -> map_det gk gv ps acc errs = Ok (acc ++ kvs, errs)).
    { clear Hd. induction H as [|[k v] [kp vp] kvs ps [Hk Hv] _ IH]; intros acc errs Hd; cbn [map_det]; [now rewrite app_nil_r|].
      cbn in Hk, Hv. destruct (dict_step _ _ _ _ Hd) as (Hh & Hm & Hr). rewrite Hv, Hk. cbn [bind]. rewrite (dict_put_fresh acc k v Hh Hm).
      rewrite IH by exact Hr. now rewrite <- app_assoc. }
    rewrite (X [] [] Hd). reflexivity.
  - assert (X : forall acc, dict_of_pairs acc kvs = Ok (acc ++ kvs) -> map_fast gk gv ps acc = Ok (acc ++ kvs)).
    { clear Hd. induction H as [|[k v] [kp vp] kvs ps [Hk Hv] _ IH]; intros acc Hd; cbn [map_fast]; [now rewrite app_nil_r|].
      cbn in Hk, Hv. destruct (dict_step _ _ _ _ Hd) as (Hh & Hm & Hr). rewrite Hk, Hv. cbn [bind]. rewrite (dict_put_fresh acc k v Hh Hm). cbn [bind].
      rewrite IH by exact Hr. now rewrite <- app_assoc. }
    exact (X [] Hd).
Qed.

(* ---------------- heterogeneous tuples ---------------- *)
Lemma zip_rt (P : val -> ty -> Prop) (fu fs' : ty -> val -> result val) l ts :
  Forall2 P l ts -> (forall x t u, P x t -> fu t x = Ok u -> fs' t u = Ok x) ->
  forall r, zip_fast fu ts l = Ok r ->
  zip_fast fs' ts r = Ok l /\ length r = length ts /\ forall ix acc errs, zip_det fs' ts r ix acc errs = Ok (acc ++ l, errs).
Proof.
  intros H HP. induction H as [|x t l ts Hxt _ IH]; intros r Hz; cbn [zip_fast] in Hz.
  - inversion Hz; subst. repeat split; intros; cbn; now rewrite ?app_nil_r.
  - destruct (fu t x) as [u| |] eqn:Eu; cbn [bind] in Hz; try discriminate.
    destruct (zip_fast fu ts l) as [us| |] eqn:Ez; cbn [bind] in Hz; try discriminate. inversion Hz; subst.
    destruct (IH us eq_refl) as (I1 & I2 & I3). pose proof (HP x t u Hxt Eu) as Hs.
    repeat split.
    + cbn [zip_fast]. rewrite Hs. cbn [bind]. now rewrite I1.
    + cbn. now rewrite I2.
    + intros ix acc errs. cbn [zip_det]. rewrite Hs, I3, <- app_assoc. reflexivity.
Qed.

(* ---------------- helpers for the class case ---------------- *)
Lemma nkeys_skey (d : list (N * val)) : nkeys (map (fun kv => (skey (fst kv), snd kv)) d) = d.
Proof. unfold nkeys. rewrite map_map. cbn. induction d as [|[k v] d IH]; cbn; [reflexivity | now rewrite IH]. Qed.

Lemma by_class_atomic n v w : atomic v = true ->
  match v with VNone => Ok VNone | _ => un n (rt_type v) v end = Ok w -> w = v.
Proof.
  destruct v; cbn; intros Ha H; try discriminate; [now inversion H|].
  destruct n; [discriminate|]. cbn [unstructure] in H. rewrite HU_gen in H. now inversion H.
Qed.

Lemma un_literal_handlers (V : Type) (opt : topts) (ov : N -> fov) (hs : N -> V -> result V) l (i : inst V) lit :
  un_literal V opt ov hs l i = Ok lit -> (forall f, In f l -> omit_default V opt ov f = false) ->
  forall f, In f l -> exists v w, assoc i (f_name f) = Some v /\ hs (f_name f) v = Ok w.
Proof.
  revert lit. induction l as [|g l IH]; intros lit H Ho f Hf; [contradiction|]. cbn [un_literal] in H.
  rewrite (Ho g) in H by now left. unfold getattr in H.
  destruct (assoc i (f_name g)) as [v|] eqn:Ea; cbn [bind] in H; try discriminate.
  destruct (hs (f_name g) v) as [w| |] eqn:Eh; cbn [bind] in H; try discriminate.
  destruct (un_literal V opt ov hs l i) as [rest| |] eqn:Er; cbn [bind] in H; try discriminate.
  destruct Hf as [Hf|Hf]; [subst; eauto|]. eapply IH; eauto. intros h Hh. apply Ho. now right.
Qed.

Lemma un_interp_tuple_handlers (V : Type) (hs : N -> V -> result V) l (i : inst V) tt :
  un_interp_tuple V hs l i = Ok tt ->
  forall f, In f l -> exists v w, assoc i (f_name f) = Some v /\ hs (f_name f) v = Ok w.
Proof.
  revert tt. induction l as [|g l IH]; intros tt H f Hf; [contradiction|]. cbn [un_interp_tuple] in H.
  unfold getattr in H.
  destruct (assoc i (f_name g)) as [v|] eqn:Ea; cbn [bind] in H; try discriminate.
  destruct (hs (f_name g) v) as [w| |] eqn:Eh; cbn [bind] in H; try discriminate.
  destruct (un_interp_tuple V hs l i) as [rest| |] eqn:Er; cbn [bind] in H; try discriminate.
  destruct Hf as [Hf|Hf]; [subst; eauto|]. eapply IH; eauto.
Qed.

(* a value other than None never unstructures to None *)
Lemma un_not_none : forall n t x u, rt_value E ann x t -> x <> VNone -> un n t x = Ok u -> u <> VNone.
Proof.
  induction n as [|n IH]; intros t x u Hrt Hne Hu; [discriminate|].
  inversion Hrt; subst; clear Hrt; cbn [unstructure] in Hu; rewrite HU_gen in Hu.
  - match goal with H : atomic _ = true |- _ => apply (by_class_atomic n _ _ H) in Hu end. now subst.
  - inversion Hu; subst. discriminate.
  - unfold member_value in Hu. match goal with H : nth_error _ _ = Some _ |- _ => rewrite H in Hu end. inversion Hu; subst. discriminate.
  - inversion Hu; subst. exact Hne.
  - cbn [iter_val bind] in Hu. destruct (map_res _ l); cbn [bind] in Hu; try discriminate. inversion Hu. discriminate.
  - cbn [iter_val bind] in Hu. destruct (map_res _ l); cbn [bind] in Hu; try discriminate. inversion Hu. discriminate.
  - destruct (Nat.ltb _ _); [discriminate|]. destruct (zip_fast _ _ _); cbn [bind] in Hu; try discriminate. inversion Hu. discriminate.
  - cbn [iter_val bind] in Hu. destruct (map_res _ l); cbn [bind] in Hu; try discriminate.
    destruct (set_of_list _ _); cbn [bind] in Hu; try discriminate. inversion Hu. discriminate.
  - cbn [iter_val bind] in Hu. destruct (map_res _ l); cbn [bind] in Hu; try discriminate.
    destruct (set_of_list _ _); cbn [bind] in Hu; try discriminate. inversion Hu. discriminate.
  - cbn [items_val bind] in Hu. destruct (un_pairs _ _ _); cbn [bind] in Hu; try discriminate. inversion Hu. discriminate.
  - contradiction.
  - destruct x; try contradiction; eapply IH; eassumption.
  - match goal with H : e_class E c = Some _ |- _ => rewrite H in Hu end. cbn [inst_fields] in Hu. destruct (c_tuple cfgU).
    + destruct (un_interp_tuple _ _ _ _); cbn [bind] in Hu; try discriminate. inversion Hu. discriminate.
    + destruct (un_gen _ _ _ _ _ _ _); cbn [bind] in Hu; try discriminate. inversion Hu. discriminate.
  - eapply IH; eassumption.
  - eapply IH; eassumption.
Qed.

(* ---------------- the theorem ---------------- *)
Theorem roundtrip : forall n t x u, rt_value E ann x t -> un n t x = Ok u -> st n t u = Ok x.
Proof.
  induction n as [|n IH]; intros t x u Hrt Hu; [discriminate|].
  inversion Hrt; subst; clear Hrt; cbn [unstructure] in Hu; rewrite HU_gen in Hu; cbn [structure].
  - (* Any *) match goal with H : atomic _ = true |- _ => apply (by_class_atomic n _ _ H) in Hu end. now subst.
  - (* prim *) inversion Hu; subst. apply H_coerce_id.
  - (* enum *) unfold member_value in Hu. match goal with H : nth_error _ _ = Some _ |- _ => rewrite H in Hu end. inversion Hu; subst.
    match goal with H : find_member _ _ = Some _ |- _ => rewrite H end. reflexivity.
  - (* literal *) inversion Hu; subst. match goal with H : vmem _ _ = true |- _ => rewrite H end. reflexivity.
  - (* list *)
    cbn [iter_val] in Hu. cbn [bind] in Hu. destruct (map_res (un n t0) l) as [r| |] eqn:Em; cbn [bind] in Hu; try discriminate. inversion Hu; subst.
    cbn [iter_val bind]. apply map_res_forall2 in Em.
    assert (F : Forall2 (fun x y => st n t0 y = Ok x) l r) by (eapply forall_forall2; [eassumption | exact Em |]; intros; eapply IH; eassumption).
    destruct (is_any t0) eqn:Ea.
    + destruct t0; try discriminate. f_equal. f_equal. apply forall2_eq. eapply forall2_impl; [|exact F]. intros a b Hab. now apply st_any in Hab.
    + rewrite (coll_rt _ _ _ F). reflexivity.
  - (* homogeneous tuple *)
    cbn [iter_val] in Hu. cbn [bind] in Hu. destruct (map_res (un n t0) l) as [r| |] eqn:Em; cbn [bind] in Hu; try discriminate. inversion Hu; subst.
    cbn [iter_val bind]. apply map_res_forall2 in Em.
    assert (F : Forall2 (fun x y => st n t0 y = Ok x) l r) by (eapply forall_forall2; [eassumption | exact Em |]; intros; eapply IH; eassumption).
    destruct (is_any t0) eqn:Ea.
    + destruct t0; try discriminate. f_equal. f_equal. apply forall2_eq. eapply forall2_impl; [|exact F]. intros a b Hab. now apply st_any in Hab.
    + rewrite (coll_rt _ _ _ F). reflexivity.
  - (* heterogeneous tuple *)
    match goal with H : Forall2 (rt_value E ann) _ _ |- _ => rename H into HF end.
    assert (Hlen : length l = length ts) by (eapply forall2_length; exact HF).
    rewrite Hlen, Nat.ltb_irrefl in Hu.
    destruct (zip_fast (un n) ts l) as [r| |] eqn:Ez; cbn [bind] in Hu; try discriminate. inversion Hu; subst.
    destruct (zip_rt (rt_value E ann) (un n) (st n) l ts HF (fun x t u => IH t x u) r Ez) as (Z1 & Z2 & Z3).
    cbn [iter_val len_val bind]. rewrite Z2, Nat.eqb_refl. destruct (c_dv cfgS).
    + rewrite Z3. cbn [bind fst snd app]. reflexivity.
    + cbn [negb]. rewrite Z1. reflexivity.
  - (* set *)
    match goal with H : key_ty _ = true |- _ => rename H into Hk end.
    match goal with H : Forall _ l |- _ => rename H into HF end.
    match goal with H : set_like l |- _ => rename H into HS end.
    cbn [iter_val bind] in Hu. destruct (map_res (un n t0) l) as [r| |] eqn:Em; cbn [bind] in Hu; try discriminate.
    apply map_res_forall2 in Em.
    assert (Hr : r = map key_enc l) by (eapply key_map; eassumption).
    subst r. pose proof (set_enc t0 l Hk [] (Forall_nil _) HF HS) as Hse. cbn in Hse. rewrite Hse in Hu. cbn [bind] in Hu. inversion Hu; subst.
    cbn [iter_val bind]. rewrite (key_not_any _ Hk).
    assert (F : Forall2 (fun x y => st n t0 y = Ok x) l (map key_enc l)) by (eapply forall_forall2; [exact HF | exact Em |]; intros; eapply IH; eassumption).
    rewrite (set_coll_rt _ _ _ F HS). reflexivity.
  - (* frozenset *)
    match goal with H : key_ty _ = true |- _ => rename H into Hk end.
    match goal with H : Forall _ l |- _ => rename H into HF end.
    match goal with H : set_like l |- _ => rename H into HS end.
    cbn [iter_val bind] in Hu. destruct (map_res (un n t0) l) as [r| |] eqn:Em; cbn [bind] in Hu; try discriminate.
    apply map_res_forall2 in Em.
    assert (Hr : r = map key_enc l) by (eapply key_map; eassumption).
    subst r. pose proof (set_enc t0 l Hk [] (Forall_nil _) HF HS) as Hse. cbn in Hse. rewrite Hse in Hu. cbn [bind] in Hu. inversion Hu; subst.
    cbn [iter_val bind]. rewrite (key_not_any _ Hk).
    assert (F : Forall2 (fun x y => st n t0 y = Ok x) l (map key_enc l)) by (eapply forall_forall2; [exact HF | exact Em |]; intros; eapply IH; eassumption).
    rewrite (set_coll_rt _ _ _ F HS). reflexivity.
  - (* mapping *)
    match goal with H : key_ty _ = true |- _ => rename H into Hk end.
    match goal with H : Forall _ kvs |- _ => rename H into HF end.
    match goal with H : dict_like kvs |- _ => rename H into HD end.
    cbn [items_val bind] in Hu. unfold un_pairs in Hu.
    destruct (map_res _ kvs) as [ps| |] eqn:Em; cbn [bind] in Hu; try discriminate.
    apply map_res_forall2 in Em.
    assert (R : Forall2 (fun kv p => un n kt (fst kv) = Ok (fst p) /\ un n vt (snd kv) = Ok (snd p)) kvs ps).
    { eapply forall2_impl; [|exact Em]. intros kv p Hp. cbn in Hp.
      destruct (un n kt (fst kv)) as [k'| |]; cbn [bind] in Hp; try discriminate.
      destruct (un n vt (snd kv)) as [v'| |]; cbn [bind] in Hp; try discriminate. inversion Hp; subst. cbn. auto. }
    assert (Hps : dict_of_pairs [] ps = Ok ps).
    { apply (dict_enc kt kvs ps Hk) with (acc := []) (accp := []); [|constructor|exact HD].
      eapply forall_forall2; [exact HF | exact R|]. intros kv p [Hkr _] [Hku _]. split; [exact Hkr|]. eapply key_unstructure; eassumption. }
    rewrite Hps in Hu. cbn [bind] in Hu. inversion Hu; subst.
    rewrite (key_not_any _ Hk). cbn [andb items_val bind].
    assert (F : Forall2 (fun kv p => st n kt (fst p) = Ok (fst kv) /\ st n vt (snd p) = Ok (snd kv)) kvs ps).
    { eapply forall_forall2; [exact HF | exact R|]. intros kv p [Hkr Hvr] [Hku Hvu]. split; eapply IH; eassumption. }
    rewrite (map_coll_rt _ _ _ _ F HD). reflexivity.
  - (* Optional: None *) inversion Hu; subst. reflexivity.
  - (* Optional: a value *)
    assert (Hc : x = VNone \/ x <> VNone) by (destruct x; [left; reflexivity | right; discriminate ..]).
    destruct Hc as [->|Hne]; [inversion Hu; subst; reflexivity|].
    assert (Hu' : un n t0 x = Ok u) by (destruct x; try exact Hu; contradiction).
    pose proof (un_not_none n t0 x u H Hne Hu') as Hnu. pose proof (IH _ _ _ H Hu') as Hs.
    destruct u; try exact Hs. contradiction.
  - (* class *)
    match goal with X : e_class E c = Some _ |- _ => rename X into Hc end.
    match goal with X : map fst i = _ |- _ => rename X into Hkeys end.
    match goal with X : Forall _ i |- _ => rename X into HF end.
    rewrite Hc in Hu |- *. cbn [inst_fields] in Hu. unfold nov in *.
    destruct (H_env c cd Hc) as (W & HA).
    assert (A_init : forall f, In f (cd_fields cd) -> f_init f = true) by (intros f Hf; now destruct (HA f Hf)).
    assert (A_conv : forall f, In f (cd_fields cd) -> f_conv f = false) by (intros f Hf; now destruct (HA f Hf)).
    assert (Ht : topt cfgU c = topt cfgS c) by (unfold topt; now rewrite HU_forbid, HS_forbid).
    rewrite Ht in Hu.
    match type of Hu with context [un_gen _ _ _ _ ?h _ _] => set (hs_u := h) in Hu end.
    match goal with |- context [tpl_interp_dict _ _ ?h _ _] => set (hs_s := h) end.
    pose (hu := fun nm v => match hs_u nm v with Ok w => w | _ => VNone end).
    assert (H_inv' : forall f, In f (cd_fields cd) -> hs_u (f_name f) (aval val VNone i f) = Ok (hu (f_name f) (aval val VNone i f)) ->
              hs_s (f_name f) (hu (f_name f) (aval val VNone i f)) = Ok (aval val VNone i f)).
    { intros f Hf Eh. pose proof (vals_ok val VNone (cd_fields cd) i Hkeys f Hf) as Ea. apply assoc_in in Ea.
      rewrite Forall_forall in HF. specialize (HF _ Ea). cbn [fst snd] in HF.
      unfold hs_u in Eh. unfold hs_s. unfold field_ty in HF.
      destruct (assoc (cd_types cd) (f_name f)) as [ft|].
      - eapply IH; eassumption.
      - inversion HF; subst. match goal with X : atomic _ = true |- _ => rewrite (by_class_atomic n _ _ X Eh) end. reflexivity. }
    rewrite H_tuple in Hu. destruct (c_tuple cfgS) eqn:Etup.
    { (* tuple strategy *)
      destruct (un_interp_tuple val hs_u (cd_fields cd) i) as [tt| |] eqn:Eg; cbn [bind] in Hu; try discriminate.
      inversion Hu; subst u. clear Hu.
      assert (H_hu : forall f, In f (cd_fields cd) ->
                hs_u (f_name f) (aval val VNone i f) = Ok (hu (f_name f) (aval val VNone i f))).
      { intros f Hf. pose proof (un_interp_tuple_handlers val hs_u (cd_fields cd) i tt Eg f Hf) as (v & w & Ea & Eh).
        rewrite (vals_ok val VNone (cd_fields cd) i Hkeys f Hf) in Ea. inversion Ea; subst v. unfold hu. now rewrite Eh. }
      rewrite (un_interp_tuple_all val (cd_fields cd) i Hkeys VNone hs_u hu H_hu) in Eg. inversion Eg; subst tt. clear Eg.
      assert (Hkw : c_tuple_kw cfgS = true) by (apply H_tuple_kw; first [exact Etup | reflexivity]). rewrite Hkw.
      rewrite (class_rt_tuple val noK (cd_fields cd) (wf_alias _ _ _ _ W) (wf_name _ _ _ _ W) A_init A_conv i Hkeys VNone hs_s hu
                 (fun f Hf => H_inv' f Hf (H_hu f Hf))); [|reflexivity].
      rewrite andb_false_r. reflexivity. }
    destruct (un_gen val val_eqb (topt cfgS c) (fun _ => neutral) hs_u (cd_fields cd) i) as [dd| |] eqn:Eg; cbn [bind] in Hu; try discriminate.
    inversion Hu; subst u. clear Hu.
    assert (H_hu : forall f, In f (cd_fields cd) ->
              hs_u (f_name f) (aval val VNone i f) = Ok (hu (f_name f) (aval val VNone i f))).
    { intros f Hf. unfold un_gen in Eg.
      destruct (un_literal val (topt cfgS c) (fun _ => neutral) hs_u (filter (un_included val (topt cfgS c) (fun _ => neutral)) (cd_fields cd)) i) as [lit| |] eqn:El; cbn [bind] in Eg; try discriminate.
      change (filter (un_included val (topt cfgS c) (fun _ => neutral)) (cd_fields cd))
        with (filter (included val (topt cfgS c) (fun _ : N => neutral)) (cd_fields cd)) in El.
      rewrite (inc_is_fs val (topt cfgS c) (cd_fields cd) A_init) in El.
      destruct (un_literal_handlers _ _ _ _ _ _ _ El (fun g _ => no_omit val (topt cfgS c) eq_refl g) f Hf) as (v & w & Ea & Eh).
      rewrite (vals_ok val VNone (cd_fields cd) i Hkeys f Hf) in Ea. inversion Ea; subst v. unfold hu. now rewrite Eh. }
    rewrite (un_gen_all val VNone (topt cfgS c) eq_refl eq_refl (cd_fields cd) W A_init i Hkeys hs_u hu H_hu val_eqb) in Eg.
    inversion Eg; subst dd. clear Eg.
    cbn [obj_of_val]. rewrite nkeys_skey.
    assert (H_inv : forall f, In f (cd_fields cd) ->
              hs_s (f_name f) (hu (f_name f) (aval val VNone i f)) = Ok (aval val VNone i f)) by (intros f Hf; exact (H_inv' f Hf (H_hu f Hf))).
    rewrite HS_forbid. cbn [andb].
    assert (Of : t_forbid (topt cfgS c) = false) by (cbn; exact HS_forbid).
    destruct (c_gen cfgS); [destruct (c_dv cfgS)|].
    + rewrite HS_recheck.
      rewrite (class_rt_detailed val VNone noK (topt cfgS c) eq_refl eq_refl (cd_fields cd) W A_init A_conv i Hkeys hs_s hu H_inv Of). reflexivity.
    + rewrite HS_kw.
      rewrite (class_rt_fast val VNone noK (topt cfgS c) eq_refl eq_refl (cd_fields cd) W A_init A_conv i Hkeys hs_s hu H_inv Of). reflexivity.
    + pose proof (interp_refines_spec val noK (topt cfgS c) eq_refl Of hs_s (cd_fields cd) W A_init (D val VNone (cd_fields cd) i hu)) as R.
      rewrite (spec_roundtrip val VNone noK (topt cfgS c) eq_refl eq_refl (cd_fields cd) W A_init A_conv i Hkeys hs_s hu H_inv Of) in R.
      destruct (tpl_interp_dict val noK hs_s (cd_fields cd) (dict_obj (D val VNone (cd_fields cd) i hu))) as [j| |]; cbn in R; try discriminate.
      inversion R; subst. reflexivity.
  - (* NewType *) eapply IH; eassumption.
  - (* Annotated *)
    rewrite (H_ann eq_refl). eapply IH; eassumption.
Qed.


(* ================= totality: enough fuel always exists ================= *)
Fixpoint vsize (v : val) : nat :=
  match v with
  | VList l | VTuple l | VSet l | VFrozenSet l => S ((fix sum (l : list val) : nat := match l with [] => 0 | x :: r => vsize x + sum r end) l)
  | VDict kvs => S ((fix sum (l : list (val * val)) : nat := match l with [] => 0 | (k, x) :: r => vsize k + vsize x + sum r end) kvs)
  | VInst _ fs => S ((fix sum (l : list (N * val)) : nat := match l with [] => 0 | (_, x) :: r => vsize x + sum r end) fs)
  | _ => 1
  end.
Definition lsum (l : list val) : nat := (fix sum (l : list val) : nat := match l with [] => 0 | x :: r => vsize x + sum r end) l.
Definition dsum (l : list (val * val)) : nat := (fix sum (l : list (val * val)) : nat := match l with [] => 0 | (k, x) :: r => vsize k + vsize x + sum r end) l.
Definition fsum (l : list (N * val)) : nat := (fix sum (l : list (N * val)) : nat := match l with [] => 0 | (_, x) :: r => vsize x + sum r end) l.

Lemma lsum_in x l : In x l -> vsize x <= lsum l.
Proof. induction l as [|y l IHl]; cbn; intros H; [contradiction|]. destruct H as [<-|H]; [lia|]. specialize (IHl H). unfold lsum in IHl. lia. Qed.
Lemma dsum_in k x l : In (k, x) l -> vsize k + vsize x <= dsum l.
Proof. induction l as [|[k' y] l IHl]; cbn; intros H; [contradiction|]. destruct H as [H|H]; [inversion H; subst; lia|]. specialize (IHl H). unfold dsum in IHl. lia. Qed.
Lemma fsum_in nm x l : In (nm, x) l -> vsize x <= fsum l.
Proof. induction l as [|[m y] l IHl]; cbn; intros H; [contradiction|]. destruct H as [H|H]; [inversion H; subst; lia|]. specialize (IHl H). unfold fsum in IHl. lia. Qed.

Local Arguments Nat.max : simpl never.
(* how many wrapper steps a type can spend before it consumes a layer of the value *)
Fixpoint tw (t : ty) : nat := match t with TOpt t' | TNewType _ t' | TAnnot t' => S (tw t') | TAny => 2 | _ => 1 end.
Fixpoint maxw (t : ty) : nat :=
  match t with
  | TOpt t' | TNewType _ t' | TAnnot t' => Nat.max (S (tw t')) (maxw t')
  | TList t' | TTupleHom t' | TSet t' | TFrozenSet t' => Nat.max 1 (maxw t')
  | TTuple ts => (fix m (l : list ty) : nat := match l with [] => 1 | x :: r => Nat.max (maxw x) (m r) end) ts
  | TDict k v => Nat.max (maxw k) (maxw v)
  | TAny => 2
  | _ => 1
  end.
Definition tmax (l : list ty) : nat := (fix m (l : list ty) : nat := match l with [] => 1 | x :: r => Nat.max (maxw x) (m r) end) l.

Lemma tmax_ge1 ts : 1 <= tmax ts.
Proof. induction ts as [|y ts IHt]; cbn; [lia|]. unfold tmax in IHt. eapply Nat.le_trans; [exact IHt | apply Nat.le_max_r]. Qed.
Lemma maxw_ge1 t : 1 <= maxw t.
Proof.
  induction t; cbn [maxw]; try lia; try (apply Nat.le_max_l); try (apply (tmax_ge1 ts)).
  all: try (eapply Nat.le_trans; [exact IHt | apply Nat.le_max_r]).
  all: try (eapply Nat.le_trans; [exact IHt1 | apply Nat.le_max_l]).
Qed.
Lemma tw_le_maxw t : tw t <= maxw t.
Proof.
  destruct t; cbn [tw maxw]; try lia; try apply Nat.le_max_l; try apply (tmax_ge1 ts).
  eapply Nat.le_trans; [apply (maxw_ge1 t1) | apply Nat.le_max_l].
Qed.
Lemma tmax_in t ts : In t ts -> maxw t <= tmax ts.
Proof.
  induction ts as [|y ts IHt]; cbn; intros H; [contradiction|]. destruct H as [<-|H]; [apply Nat.le_max_l|].
  specialize (IHt H). unfold tmax in IHt. eapply Nat.le_trans; [exact IHt | apply Nat.le_max_r].
Qed.
Lemma max_le_l a b c : Nat.max a b <= c -> a <= c.
Proof. intros H. eapply Nat.le_trans; [apply Nat.le_max_l | exact H]. Qed.
Lemma max_le_r a b c : Nat.max a b <= c -> b <= c.
Proof. intros H. eapply Nat.le_trans; [apply Nat.le_max_r | exact H]. Qed.

Variable M : nat.
(* the declared attribute types of the environment's classes spend at most M wrapper steps in a row *)
Hypothesis H_M : forall c cd nm ft, e_class E c = Some cd -> assoc (cd_types cd) nm = Some ft -> maxw ft <= M.
Hypothesis H_M2 : 2 <= M.

Lemma map_res_total {A B} (f : A -> result B) l : Forall (fun x => exists y, f x = Ok y) l -> exists r, map_res f l = Ok r.
Proof.
  induction 1 as [|x l (y & Hy) _ (r & Hr)]; [exists []; reflexivity|]. exists (y :: r). cbn [map_res]. rewrite Hy. cbn [bind]. rewrite Hr. reflexivity.
Qed.

Lemma zip_total (f : ty -> val -> result val) l ts : Forall2 (fun x t => exists u, f t x = Ok u) l ts -> exists r, zip_fast f ts l = Ok r.
Proof.
  induction 1 as [|x t l ts (u & Hu) _ (r & Hr)]; [exists []; reflexivity|]. exists (u :: r). cbn [zip_fast]. rewrite Hu. cbn [bind]. rewrite Hr. reflexivity.
Qed.
Lemma forall2_in {A B} (P Q : A -> B -> Prop) l r : Forall2 P l r -> (forall x y, In x l -> In y r -> P x y -> Q x y) -> Forall2 Q l r.
Proof.
  induction 1 as [|x y l r Hxy _ IHf]; intros H; constructor.
  - apply H; [now left | now left | exact Hxy].
  - apply IHf. intros a b Ha Hb. apply H; now right.
Qed.

Theorem un_total : forall n t x, rt_value E ann x t -> maxw t <= M -> vsize x * S M + tw t <= n -> exists u, un n t x = Ok u.
Proof.
  induction n as [|n IH]; intros t x Hrt Hm Hn; [pose proof (tw_le_maxw t); destruct t; cbn in Hn; lia|].
  inversion Hrt; subst; clear Hrt; cbn [unstructure]; rewrite HU_gen.
  - (* Any *)
    destruct x; try discriminate; [eexists; reflexivity|]. cbn [rt_type]. cbn in Hn. destruct n; [lia|]. cbn [unstructure]. rewrite HU_gen. eexists; reflexivity.
  - eexists; reflexivity.
  - unfold member_value. match goal with X : nth_error _ _ = Some _ |- _ => rewrite X end. eexists; reflexivity.
  - eexists; reflexivity.
  - (* list *)
    cbn [iter_val bind]. cbn [maxw] in Hm. apply max_le_r in Hm. cbn [vsize tw] in Hn. fold (lsum l) in Hn.
    destruct (map_res_total (un n t0) l) as (r & Hr).
    { rewrite Forall_forall in *. intros y Hy. apply IH; [now apply H | exact Hm|]. pose proof (lsum_in y l Hy). pose proof (tw_le_maxw t0). nia. }
    rewrite Hr. eexists; reflexivity.
  - (* homogeneous tuple *)
    cbn [iter_val bind]. cbn [maxw] in Hm. apply max_le_r in Hm. cbn [vsize tw] in Hn. fold (lsum l) in Hn.
    destruct (map_res_total (un n t0) l) as (r & Hr).
    { rewrite Forall_forall in *. intros y Hy. apply IH; [now apply H | exact Hm|]. pose proof (lsum_in y l Hy). pose proof (tw_le_maxw t0). nia. }
    rewrite Hr. eexists; reflexivity.
  - (* heterogeneous tuple *)
    match goal with X : Forall2 (rt_value E ann) _ _ |- _ => rename X into HF end.
    rewrite (forall2_length _ _ _ HF), Nat.ltb_irrefl. cbn [maxw] in Hm. fold (tmax ts) in Hm. cbn [vsize tw] in Hn. fold (lsum l) in Hn.
    destruct (zip_total (un n) l ts) as (r & Hr).
    { eapply forall2_in; [exact HF|]. intros y t' Hy Ht' Hyt. apply IH; [exact Hyt | |].
      - eapply Nat.le_trans; [apply (tmax_in t' ts Ht') | exact Hm].
      - pose proof (lsum_in y l Hy). pose proof (tw_le_maxw t'). pose proof (tmax_in t' ts Ht'). nia. }
    rewrite Hr. eexists; reflexivity.
  - (* set *)
    match goal with X : key_ty _ = true |- _ => rename X into Hk end.
    match goal with X : Forall _ l |- _ => rename X into HF end.
    match goal with X : set_like l |- _ => rename X into HS end.
    cbn [iter_val bind]. cbn [maxw] in Hm. apply max_le_r in Hm. cbn [vsize tw] in Hn. fold (lsum l) in Hn.
    destruct (map_res_total (un n t0) l) as (r & Hr).
    { rewrite Forall_forall in *. intros y Hy. apply IH; [now apply HF | exact Hm|]. pose proof (lsum_in y l Hy). pose proof (tw_le_maxw t0). nia. }
    rewrite Hr. cbn [bind]. apply map_res_forall2 in Hr. rewrite (key_map n t0 l r Hk HF Hr).
    pose proof (set_enc t0 l Hk [] (Forall_nil _) HF HS) as Hse. cbn in Hse. rewrite Hse. eexists; reflexivity.
  - (* frozenset *)
    match goal with X : key_ty _ = true |- _ => rename X into Hk end.
    match goal with X : Forall _ l |- _ => rename X into HF end.
    match goal with X : set_like l |- _ => rename X into HS end.
    cbn [iter_val bind]. cbn [maxw] in Hm. apply max_le_r in Hm. cbn [vsize tw] in Hn. fold (lsum l) in Hn.
    destruct (map_res_total (un n t0) l) as (r & Hr).
    { rewrite Forall_forall in *. intros y Hy. apply IH; [now apply HF | exact Hm|]. pose proof (lsum_in y l Hy). pose proof (tw_le_maxw t0). nia. }
    rewrite Hr. cbn [bind]. apply map_res_forall2 in Hr. rewrite (key_map n t0 l r Hk HF Hr).
    pose proof (set_enc t0 l Hk [] (Forall_nil _) HF HS) as Hse. cbn in Hse. rewrite Hse. eexists; reflexivity.
  - (* mapping *)
    match goal with X : key_ty _ = true |- _ => rename X into Hk end.
    match goal with X : Forall _ kvs |- _ => rename X into HF end.
    match goal with X : dict_like kvs |- _ => rename X into HD end.
    cbn [items_val bind]. unfold un_pairs. cbn [maxw] in Hm. cbn [vsize tw] in Hn. fold (dsum kvs) in Hn.
    destruct (map_res_total (fun kv => do k <- un n kt (fst kv); do v <- un n vt (snd kv); Ok (k, v)) kvs) as (ps & Hps).
    { rewrite Forall_forall in *. intros [k v] Hkv. destruct (HF _ Hkv) as [Hkr Hvr]. cbn [fst snd] in *.
      pose proof (dsum_in k v kvs Hkv). pose proof (tw_le_maxw kt). pose proof (tw_le_maxw vt).
      destruct (IH kt k Hkr (max_le_l _ _ _ Hm)) as (k' & Ek); [apply max_le_l in Hm; nia|].
      destruct (IH vt v Hvr (max_le_r _ _ _ Hm)) as (v' & Ev); [apply max_le_r in Hm; nia|].
      rewrite Ek, Ev. eexists; reflexivity. }
    rewrite Hps. cbn [bind]. apply map_res_forall2 in Hps.
    assert (R : Forall2 (fun kv p => un n kt (fst kv) = Ok (fst p) /\ un n vt (snd kv) = Ok (snd p)) kvs ps).
    { eapply forall2_impl; [|exact Hps]. intros kv p Hp. cbn in Hp.
      destruct (un n kt (fst kv)) as [k'| |]; cbn [bind] in Hp; try discriminate.
      destruct (un n vt (snd kv)) as [v'| |]; cbn [bind] in Hp; try discriminate. inversion Hp; subst. cbn. auto. }
    assert (Hd : dict_of_pairs [] ps = Ok ps).
    { apply (dict_enc kt kvs ps Hk) with (acc := []) (accp := []); [|constructor|exact HD].
      eapply forall_forall2; [exact HF | exact R|]. intros kv p [Hkr _] [Hku _]. split; [exact Hkr|]. eapply key_unstructure; eassumption. }
    rewrite Hd. eexists; reflexivity.
  - eexists; reflexivity.
  - (* Optional: a value *)
    cbn [maxw] in Hm. cbn [tw] in Hn.
    assert (G : exists u, un n t0 x = Ok u) by (apply IH; [assumption | exact (max_le_r _ _ _ Hm) | lia]).
    destruct x; try exact G. eexists; reflexivity.
  - (* class *)
    match goal with X : e_class E c = Some _ |- _ => rename X into Hc end.
    match goal with X : map fst i = _ |- _ => rename X into Hkeys end.
    match goal with X : Forall _ i |- _ => rename X into HF end.
    rewrite Hc. cbn [inst_fields]. unfold nov.
    destruct (H_env c cd Hc) as (W & HA).
    assert (Ht : topt cfgU c = topt cfgS c) by (unfold topt; now rewrite HU_forbid, HS_forbid). rewrite Ht.
    match goal with |- context [un_gen _ _ _ _ ?h _ _] => set (hs_u := h) end.
    pose (hu := fun nm v => match hs_u nm v with Ok w => w | _ => VNone end).
    assert (A_init : forall f, In f (cd_fields cd) -> f_init f = true) by (intros f Hf; now destruct (HA f Hf)).
    cbn [vsize tw] in Hn. fold (fsum i) in Hn.
    assert (H_hu : forall f, In f (cd_fields cd) -> hs_u (f_name f) (aval val VNone i f) = Ok (hu (f_name f) (aval val VNone i f))).
    { intros f Hf. pose proof (vals_ok val VNone (cd_fields cd) i Hkeys f Hf) as Ea. apply assoc_in in Ea.
      rewrite Forall_forall in HF. pose proof (HF _ Ea) as Hv. cbn [fst snd] in Hv. pose proof (fsum_in _ _ _ Ea) as Hsz.
      assert (G : exists w, hs_u (f_name f) (aval val VNone i f) = Ok w).
      { unfold hs_u. unfold field_ty in Hv. destruct (assoc (cd_types cd) (f_name f)) as [ft|] eqn:Et.
        - pose proof (H_M c cd _ _ Hc Et) as Hft. pose proof (tw_le_maxw ft). apply IH; [exact Hv | exact Hft | nia].
        - inversion Hv; subst. destruct (aval val VNone i f); try discriminate; [eexists; reflexivity|]. cbn [rt_type].
          destruct n; [cbn in Hn; lia|]. cbn [unstructure]. rewrite HU_gen. eexists; reflexivity. }
      destruct G as (w & Hw). unfold hu. now rewrite Hw. }
    destruct (c_tuple cfgU).
    + rewrite (un_interp_tuple_all val (cd_fields cd) i Hkeys VNone hs_u hu H_hu). eexists; reflexivity.
    + rewrite (un_gen_all val VNone (topt cfgS c) eq_refl eq_refl (cd_fields cd) W A_init i Hkeys hs_u hu H_hu val_eqb). eexists; reflexivity.
  - (* NewType *)
    cbn [maxw] in Hm. cbn [tw] in Hn. apply IH; [assumption | exact (max_le_r _ _ _ Hm) | lia].
  - (* Annotated *)
    cbn [maxw] in Hm. cbn [tw] in Hn. apply IH; [assumption | exact (max_le_r _ _ _ Hm) | lia].
Qed.

(* C01 with the fuel made explicit: a value of T has an unstructured form, and structuring it gives the value back *)
Theorem roundtrip_total : forall t x, rt_value E ann x t -> maxw t <= M ->
  exists n u, un n t x = Ok u /\ st n t u = Ok x.
Proof.
  intros t x Hrt Hm. exists (vsize x * S M + tw t). destruct (un_total _ t x Hrt Hm (Nat.le_refl _)) as (u & Hu).
  exists u. split; [exact Hu|]. eapply roundtrip; eassumption.
Qed.

End RT.
