(* ThreadsProofs.v -- with a thread-local working set no schedule can make a thread fail (C19). *)
From V.Model Require Import Base Threads.
From Coq Require Import Lia.

Section TP.
Variable fields : cls -> list (cls * bool).

(* per-thread invariant: the working set is exactly the classes of the generators in progress,
   and nothing has failed *)
Definition tinv (t : thread) : Prop := ws t = map (fun fr => fst (fst fr)) (stack t) /\ failed t = false.
Definition sinv (s : sys) : Prop := Forall tinv (threads s).

Lemma Forall_firstn' {A} (P : A -> Prop) n : forall l, Forall P l -> Forall P (firstn n l).
Proof. induction n as [|n IH]; intros l H; cbn; [constructor|]. destruct l; [constructor|]. inversion H; subst. constructor; auto. Qed.
Lemma Forall_skipn' {A} (P : A -> Prop) n : forall l, Forall P l -> Forall P (skipn n l).
Proof. induction n as [|n IH]; intros l H; cbn; [exact H|]. destruct l; [constructor|]. inversion H; subst. auto. Qed.

Lemma Forall_set_nth {A} (P : A -> Prop) l i x :
  Forall P l -> P x -> Forall P (firstn i l ++ [x] ++ skipn (S i) l).
Proof.
  intros H Hx. apply Forall_app. split; [now apply Forall_firstn'|].
  apply Forall_app. split; [constructor; [exact Hx | constructor] | now apply Forall_skipn'].
Qed.

Lemma step_inv s i : sinv s -> sinv (step fields true true s i).
Proof.
  intros H. unfold step. destruct (nth_error (threads s) i) as [t|] eqn:E; [|exact H].
  assert (Ht : tinv t).
  { unfold sinv in H. rewrite Forall_forall in H. apply H. eapply nth_error_In; eassumption. }
  destruct Ht as [Hws Hf]. rewrite Hf.
  destruct (stack t) as [|[[c [|[d dc] ds]] cached] below] eqn:Es; cbn [map fst] in Hws.
  - destruct (todo t) as [|c rest]; [exact H|].
    destruct (mem_N c (cache s)).
    + apply Forall_set_nth; [exact H|]. split; cbn; [exact Hws | reflexivity].
    + unfold eff_ws. rewrite Hws. cbn [mem_N existsb].
      unfold enter. apply Forall_set_nth; [exact H|]. split; cbn; [now rewrite Hws | exact Hf].
  - apply Forall_set_nth; [exact H|]. split; cbn; [|reflexivity].
    rewrite Hws. cbn. now rewrite N.eqb_refl.
  - destruct ((dc && mem_N d (cache s)) || (true && mem_N d (eff_ws true s t))) eqn:Ec.
    + apply Forall_set_nth; [exact H|]. split; cbn; [exact Hws | reflexivity].
    + apply Bool.orb_false_iff in Ec. destruct Ec as [_ Ec]. cbn [andb] in Ec. rewrite Ec.
      unfold enter. apply Forall_set_nth; [exact H|]. split; cbn; [now rewrite Hws | exact Hf].
Qed.

Lemma run_inv sched : forall s, sinv s -> sinv (run fields true true s sched).
Proof. induction sched as [|i sched IH]; intros s H; cbn; [exact H|]. apply IH. now apply step_inv. Qed.

Lemma init_inv reqs : sinv (init reqs).
Proof.
  unfold sinv, init. cbn. induction reqs as [|r reqs IH]; cbn; constructor; [|exact IH]. split; reflexivity.
Qed.

(* every schedule of any number of threads, any class graph, any requests *)
Theorem no_thread_fails reqs sched : any_failed (run fields true true (init reqs) sched) = false.
Proof.
  pose proof (run_inv sched (init reqs) (init_inv reqs)) as H.
  unfold any_failed. apply Bool.not_true_is_false. intros X. apply existsb_exists in X. destruct X as (t & Hin & Hf).
  unfold sinv in H. rewrite Forall_forall in H. destruct (H t Hin) as [_ Hn]. congruence.
Qed.

(* ---- what a thread has completed is a prefix of what it was asked for, in order: nothing skipped, nothing twice ---- *)
Fixpoint bottom (st : list (cls * list (cls * bool) * bool)) : option cls :=
  match st with [] => None | [fr] => Some (fst (fst fr)) | _ :: r => bottom r end.

Definition rinv (t : thread) (r : list cls) : Prop :=
  finished t ++ todo t = r /\ (stack t <> [] -> exists c rest, todo t = c :: rest /\ bottom (stack t) = Some c).

Lemma Forall2_upd {A B} (P : A -> B -> Prop) (t' : A) l r : Forall2 P l r ->
  forall i t, nth_error l i = Some t -> (forall x, nth_error r i = Some x -> P t' x) -> Forall2 P (firstn i l ++ [t'] ++ skipn (S i) l) r.
Proof.
  induction 1 as [|a b l r Hab Hlr IH]; intros i t Hn Hp; [destruct i; discriminate|].
  destruct i as [|i]; cbn.
  - constructor; [apply Hp; reflexivity | exact Hlr].
  - constructor; [exact Hab|]. eapply IH; [exact Hn | exact Hp].
Qed.

Lemma Forall2_nth {A B} (P : A -> B -> Prop) l r : Forall2 P l r ->
  forall i t, nth_error l i = Some t -> exists x, nth_error r i = Some x /\ P t x.
Proof.
  induction 1 as [|a b l r Hab Hlr IH]; intros i t Hn; [destruct i; discriminate|].
  destruct i as [|i]; cbn in *; [inversion Hn; subst; eauto | eauto].
Qed.

Lemma bottom_cons fr st : st <> [] -> bottom (fr :: st) = bottom st.
Proof. destruct st; [contradiction | reflexivity]. Qed.

Lemma bottom_top c fs b fs' b' below : bottom ((c, fs, b) :: below) = bottom ((c, fs', b') :: below).
Proof. destruct below; reflexivity. Qed.
Lemma bottom_push fr x below : bottom (fr :: x :: below) = bottom (x :: below).
Proof. reflexivity. Qed.

Lemma step_rinv reqs s i : sinv s -> Forall2 rinv (threads s) reqs -> Forall2 rinv (threads (step fields true true s i)) reqs.
Proof.
  intros HS H. unfold step. destruct (nth_error (threads s) i) as [t|] eqn:E; [|exact H].
  assert (Ht : tinv t).
  { unfold sinv in HS. rewrite Forall_forall in HS. apply HS. eapply nth_error_In; eassumption. }
  destruct Ht as [Hws Hf]. rewrite Hf.
  destruct (Forall2_nth _ _ _ H i t E) as (r & Er & Hfin & Hbot).
  assert (U : forall t', rinv t' r -> Forall2 rinv (firstn i (threads s) ++ [t'] ++ skipn (S i) (threads s)) reqs).
  { intros t' Ht'. eapply Forall2_upd; [exact H | exact E |]. intros x Ex. rewrite Er in Ex. inversion Ex; subst. exact Ht'. }
  destruct (stack t) as [|[[c [|[d dc] ds]] cached] below] eqn:Es; cbn [map fst] in Hws.
  - destruct (todo t) as [|c rest] eqn:Et; [exact H|].
    destruct (mem_N c (cache s)).
    + apply U. split; cbn; [now rewrite <- app_assoc | intros X; contradiction].
    + unfold eff_ws. rewrite Hws. cbn [mem_N existsb]. unfold enter, set_thread. cbn [threads]. apply U. split; cbn; [exact Hfin|].
      intros _. exists c, rest. split; reflexivity.
  - destruct (Hbot ltac:(discriminate)) as (c0 & rest & Et & Eb).
    unfold set_thread. cbn [threads]. apply U. split; cbn.
    + destruct below as [|fr below']; [|exact Hfin].
      cbn in Eb. inversion Eb; subst c0. rewrite Et in Hfin |- *. cbn [tl]. now rewrite <- app_assoc.
    + intros Hne. destruct below as [|fr below']; [contradiction|]. exists c0, rest. split; [exact Et|].
      rewrite bottom_push in Eb. exact Eb.
  - destruct (Hbot ltac:(discriminate)) as (c0 & rest & Et & Eb).
    destruct ((dc && mem_N d (cache s)) || (true && mem_N d (eff_ws true s t))) eqn:Ec;
      [|apply Bool.orb_false_iff in Ec; destruct Ec as [_ Ec]; cbn [andb] in Ec; rewrite Ec].
    + unfold set_thread. cbn [threads]. apply U. split; cbn [finished todo stack]; [exact Hfin|]. intros _. exists c0, rest. split; [exact Et|].
      rewrite (bottom_top c ds cached ((d, dc) :: ds) cached). exact Eb.
    + unfold enter, set_thread. cbn [threads]. apply U. split; cbn [finished todo stack]; [exact Hfin|]. intros _. exists c0, rest. split; [exact Et|].
      rewrite bottom_push. rewrite (bottom_top c ds cached ((d, dc) :: ds) cached). exact Eb.
Qed.

Lemma run_rinv reqs sched : forall s, sinv s -> Forall2 rinv (threads s) reqs -> Forall2 rinv (threads (run fields true true s sched)) reqs.
Proof.
  induction sched as [|i sched IH]; intros s HS H; cbn; [exact H|]. apply IH; [now apply step_inv | now apply step_rinv].
Qed.

Lemma init_rinv reqs : Forall2 rinv (threads (init reqs)) reqs.
Proof.
  unfold init. cbn. induction reqs as [|r reqs IH]; cbn; constructor; [|exact IH]. split; [reflexivity | intros X; contradiction].
Qed.

(* every schedule: each thread's completed requests followed by its pending ones are exactly its requests, in order *)
Theorem finished_is_a_prefix reqs sched :
  Forall2 (fun t r => failed t = false /\ finished t ++ todo t = r) (threads (run fields true true (init reqs) sched)) reqs.
Proof.
  pose proof (run_rinv reqs sched (init reqs) (init_inv reqs) (init_rinv reqs)) as H.
  pose proof (run_inv sched (init reqs) (init_inv reqs)) as HS. unfold sinv in HS. rewrite Forall_forall in HS.
  revert HS. induction H as [|t r l rs [Hfin _] _ IH]; intros HS; constructor.
  - split; [apply (HS t); now left | exact Hfin].
  - apply IH. intros x Hx. apply HS. now right.
Qed.

(* ... so a thread with nothing left to do has completed exactly its requests: what the sequential execution completes *)
Corollary idle_thread_completed_its_requests reqs sched i t r :
  nth_error (threads (run fields true true (init reqs) sched)) i = Some t -> nth_error reqs i = Some r ->
  todo t = [] -> failed t = false /\ finished t = r.
Proof.
  intros Ht Hr Htodo. destruct (Forall2_nth _ _ _ (finished_is_a_prefix reqs sched) i t Ht) as (x & Ex & Hf & Hp).
  rewrite Hr in Ex. injection Ex as Hx. rewrite <- Hx in Hp. rewrite Htodo, app_nil_r in Hp. auto.
Qed.

End TP.
