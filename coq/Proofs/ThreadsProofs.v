(* ThreadsProofs.v -- with a thread-local working set no schedule can make a thread fail (C19). *)
From V.Model Require Import Base Threads.
From Coq Require Import Lia.

Section TP.
Variable fields : cls -> list (cls * bool).

(* per-thread invariant: the working set is exactly the classes of the generators in progress,
   and nothing has failed *)
Definition tinv (t : thread) : Prop := ws t = map (fun fr => fst (fst fr)) (stack t) /\ failed t = false.
Definition sinv (s : sys) : Prop := Forall tinv (threads s).

Lemma Forall_firstn' {A} (P : A -> Prop) n : forall l, Forall P l -> Forall P (firstn n l).
Proof. induction n as [|n IH]; intros l H; cbn; [constructor|]. destruct l; [constructor|]. inversion H; subst. constructor; auto. Qed.
Lemma Forall_skipn' {A} (P : A -> Prop) n : forall l, Forall P l -> Forall P (skipn n l).
Proof. induction n as [|n IH]; intros l H; cbn; [exact H|]. destruct l; [constructor|]. inversion H; subst. auto. Qed.

Lemma Forall_set_nth {A} (P : A -> Prop) l i x :
  Forall P l -> P x -> Forall P (firstn i l ++ [x] ++ skipn (S i) l).
Proof.
  intros H Hx. apply Forall_app. split; [now apply Forall_firstn'|].
  apply Forall_app. split; [constructor; [exact Hx | constructor] | now apply Forall_skipn'].
Qed.

Lemma step_inv s i : sinv s -> sinv (step fields true s i).
Proof.
  intros H. unfold step. destruct (nth_error (threads s) i) as [t|] eqn:E; [|exact H].
  assert (Ht : tinv t).
  { unfold sinv in H. rewrite Forall_forall in H. apply H. eapply nth_error_In; eassumption. }
  destruct Ht as [Hws Hf]. rewrite Hf.
  destruct (stack t) as [|[[c [|[d dc] ds]] cached] below] eqn:Es; cbn [map fst] in Hws.
  - destruct (todo t) as [|c rest]; [exact H|].
    destruct (mem_N c (cache s)).
    + apply Forall_set_nth; [exact H|]. split; cbn; [exact Hws | reflexivity].
    + unfold eff_ws. rewrite Hws. cbn [mem_N existsb].
      unfold enter. apply Forall_set_nth; [exact H|]. split; cbn; [now rewrite Hws | exact Hf].
  - apply Forall_set_nth; [exact H|]. split; cbn; [|reflexivity].
    rewrite Hws. cbn. now rewrite N.eqb_refl.
  - destruct ((dc && mem_N d (cache s)) || mem_N d (eff_ws true s t)).
    + apply Forall_set_nth; [exact H|]. split; cbn; [exact Hws | reflexivity].
    + unfold enter. apply Forall_set_nth; [exact H|]. split; cbn; [now rewrite Hws | exact Hf].
Qed.

Lemma run_inv sched : forall s, sinv s -> sinv (run fields true s sched).
Proof. induction sched as [|i sched IH]; intros s H; cbn; [exact H|]. apply IH. now apply step_inv. Qed.

Lemma init_inv reqs : sinv (init reqs).
Proof.
  unfold sinv, init. cbn. induction reqs as [|r reqs IH]; cbn; constructor; [|exact IH]. split; reflexivity.
Qed.

(* every schedule of any number of threads, any class graph, any requests *)
Theorem no_thread_fails reqs sched : any_failed (run fields true (init reqs) sched) = false.
Proof.
  pose proof (run_inv sched (init reqs) (init_inv reqs)) as H.
  unfold any_failed. apply Bool.not_true_is_false. intros X. apply existsb_exists in X. destruct X as (t & Hin & Hf).
  unfold sinv in H. rewrite Forall_forall in H. destruct (H t Hin) as [_ Hn]. congruence.
Qed.

End TP.
