(* YamlRoundtrip.v -- C16 for the pyyaml preconfigured converter, inside the model: what the converter unstructures from a value
   of T, pushed through dumps and the library's loads ([ywire]: frozensets and tuples -> lists; sets, bytes and mapping keys
   survive), is structured back to THE SAME value.  Same-fuel form, induction on the fuel, parallel to JsonRoundtrip. *)
From Coq Require Import Lia.
From V.Model Require Import Base Templates Conv ConvSpec Preconf PreconfSpec.
From V.Proofs Require Import TemplatesProofs UnstructProofs ClassSound ClassRoundtrip ConvRoundtrip JsonRoundtrip.

Section YRT.
Variable E : env.
Variable cfgU cfgS : ccfg.
Variable ann : bool.

Hypothesis HU_gen : c_gen cfgU = true.
Hypothesis HS_gen : c_gen cfgS = true.                   (* PyyamlConverter is a Converter *)
Hypothesis H_tuple : c_tuple cfgU = c_tuple cfgS.
Hypothesis H_tuple_kw : c_tuple cfgS = true -> c_tuple_kw cfgS = true.
Hypothesis HU_forbid : c_forbid cfgU = false.
Hypothesis HS_forbid : c_forbid cfgS = false.
Hypothesis HS_recheck : c_recheck cfgS = true.
Hypothesis HS_kw : c_kw_last cfgS = true.
Hypothesis H_coerce_id : forall p e, e_coerce E p (VAtom p e) = Ok (VAtom p e).
Hypothesis H_env : forall c cd, e_class E c = Some cd -> rt_class_ok cfgS c cd.

Notation un := (unstructure E cfgU).
Notation st := (structure E cfgS).
Notation rtv := (rt_value E ann).

Let A_ann : ann = true -> c_gen cfgS = true := fun _ => HS_gen.

Lemma ywire_atomic v : atomic v = true -> ywire v = v.
Proof. destruct v; cbn; try discriminate; reflexivity. Qed.
Lemma ywire_list l : ywire (VList l) = VList (map ywire l).
Proof. unfold ywire. cbn [yamlify yaml_rt]. now rewrite map_map. Qed.
Lemma ywire_tuple l : ywire (VTuple l) = VList (map ywire l).
Proof. unfold ywire. cbn [yamlify yaml_rt]. now rewrite map_map. Qed.
Lemma ywire_set l : ywire (VSet l) = VSet (map ywire l).
Proof. unfold ywire. cbn [yamlify yaml_rt]. now rewrite map_map. Qed.
Lemma ywire_frozenset l : ywire (VFrozenSet l) = VList (map ywire l).
Proof. unfold ywire. cbn [yamlify yaml_rt]. now rewrite map_map. Qed.
Lemma ywire_dict kvs : ywire (VDict kvs) = VDict (map (fun kv => (ywire (fst kv), ywire (snd kv))) kvs).
Proof. unfold ywire. cbn [yamlify yaml_rt]. now rewrite map_map. Qed.
Lemma ywire_not_none u : u <> VNone -> ywire u <> VNone.
Proof. destruct u; intros H; try contradiction; unfold ywire; cbn [yamlify yaml_rt]; discriminate. Qed.

Lemma ywire_class_dict (d : list (N * val)) :
  ywire (VDict (sk d)) = VDict (sk (map (fun kv => (fst kv, ywire (snd kv))) d)).
Proof. rewrite ywire_dict. f_equal. unfold sk. rewrite !map_map. apply map_ext. intros [k v]. reflexivity. Qed.

Lemma zip_fast_ywire (fu : ty -> val -> result val) ts : forall l r, zip_fast fu ts l = Ok r ->
  zip_fast (fun t x => do u <- fu t x; Ok (ywire u)) ts l = Ok (map ywire r).
Proof.
  induction ts as [|t ts IH]; intros l r H; cbn [zip_fast] in *; [inversion H; reflexivity|].
  destruct l as [|x l]; [inversion H; reflexivity|].
  destruct (fu t x) as [u| |]; cbn [bind] in *; try discriminate.
  destruct (zip_fast fu ts l) as [us| |] eqn:Ez; cbn [bind] in *; try discriminate. inversion H; subst.
  rewrite (IH l us Ez). reflexivity.
Qed.

Theorem yaml_roundtrip : forall n t x u, rtv x t -> un n t x = Ok u -> st n t (ywire u) = Ok x.
Proof.
  induction n as [|n IH]; intros t x u Hj Hu; [discriminate|].
  inversion Hj; subst; clear Hj; cbn [unstructure] in Hu; rewrite HU_gen in Hu; cbn [structure].
  - (* Any *) match goal with H : atomic _ = true |- _ => rename H into Ha end.
    apply (by_class_atomic E cfgU HU_gen n _ _ Ha) in Hu. subst u. now rewrite (ywire_atomic _ Ha).
  - (* prim *) inversion Hu; subst. rewrite (ywire_atomic (VAtom p e) eq_refl). apply H_coerce_id.
  - (* enum *) unfold member_value in Hu. match goal with H : nth_error _ _ = Some _ |- _ => rewrite H in Hu end. inversion Hu; subst.
    rewrite (ywire_atomic (VAtom k e) eq_refl).
    match goal with H : find_member _ _ = Some _ |- _ => rewrite H end. reflexivity.
  - (* literal *) inversion Hu; subst. match goal with H : atomic _ = true |- _ => rewrite (ywire_atomic _ H) end.
    match goal with H : vmem _ _ = true |- _ => rewrite H end. reflexivity.
  - (* list *)
    cbn [iter_val] in Hu. cbn [bind] in Hu. destruct (map_res (un n t0) l) as [r| |] eqn:Em; cbn [bind] in Hu; try discriminate. inversion Hu; subst.
    rewrite ywire_list. cbn [iter_val bind]. apply map_res_forall2 in Em.
    assert (F : Forall2 (fun x y => st n t0 y = Ok x) l (map ywire r)).
    { apply forall2_map_r. eapply forall_forall2; [eassumption | exact Em |]. intros a b Ha Hab. eapply IH; eassumption. }
    destruct (is_any t0) eqn:Ea.
    + destruct t0; try discriminate. f_equal. f_equal. apply forall2_eq. eapply forall2_impl; [|exact F]. intros a b Hab. now apply st_any in Hab.
    + rewrite (coll_rt _ _ _ _ F). reflexivity.
  - (* homogeneous tuple *)
    cbn [iter_val] in Hu. cbn [bind] in Hu. destruct (map_res (un n t0) l) as [r| |] eqn:Em; cbn [bind] in Hu; try discriminate. inversion Hu; subst.
    rewrite ywire_list. cbn [iter_val bind]. apply map_res_forall2 in Em.
    assert (F : Forall2 (fun x y => st n t0 y = Ok x) l (map ywire r)).
    { apply forall2_map_r. eapply forall_forall2; [eassumption | exact Em |]. intros a b Ha Hab. eapply IH; eassumption. }
    destruct (is_any t0) eqn:Ea.
    + destruct t0; try discriminate. f_equal. f_equal. apply forall2_eq. eapply forall2_impl; [|exact F]. intros a b Hab. now apply st_any in Hab.
    + rewrite (coll_rt _ _ _ _ F). reflexivity.
  - (* heterogeneous tuple *)
    match goal with H : Forall2 (rt_value E ann) _ _ |- _ => rename H into HF end.
    assert (Hlen : length l = length ts) by (eapply forall2_length; exact HF).
    rewrite Hlen, Nat.ltb_irrefl in Hu.
    destruct (zip_fast (un n) ts l) as [r| |] eqn:Ez; cbn [bind] in Hu; try discriminate. inversion Hu; subst.
    pose proof (zip_fast_ywire (un n) ts l r Ez) as Ez'.
    destruct (zip_rt (rt_value E ann) (fun t x => do u <- un n t x; Ok (ywire u)) (st n) l ts HF) with (r := map ywire r) as (Z1 & Z2 & Z3); [|exact Ez'|].
    { intros a ta ua Ha Hua. destruct (un n ta a) as [w| |] eqn:Ew; cbn [bind] in Hua; try discriminate. inversion Hua; subst. eapply IH; eassumption. }
    rewrite ywire_tuple. cbn [iter_val len_val bind]. rewrite Z2, Nat.eqb_refl. destruct (c_dv cfgS).
    + rewrite Z3. cbn [bind fst snd app]. reflexivity.
    + cbn [negb]. rewrite Z1. reflexivity.
  - (* set *)
    match goal with H : key_ty _ = true |- _ => rename H into Hk end.
    match goal with H : Forall _ l |- _ => rename H into HF end.
    match goal with H : set_like l |- _ => rename H into HS end.
    cbn [iter_val bind] in Hu. destruct (map_res (un n t0) l) as [r| |] eqn:Em; cbn [bind] in Hu; try discriminate.
    apply map_res_forall2 in Em.
    assert (Hr : r = map (key_enc E) l) by (eapply (key_map E cfgU cfgS ann HU_gen A_ann); [exact Hk | exact HF | exact Em]).
    subst r. pose proof (set_enc E cfgS ann A_ann t0 l Hk [] (Forall_nil _) HF HS) as Hse. cbn in Hse. rewrite Hse in Hu. cbn [bind] in Hu. inversion Hu; subst.
    rewrite ywire_set. cbn [iter_val bind]. rewrite (key_not_any _ Hk).
    assert (F : Forall2 (fun x y => st n t0 y = Ok x) l (map ywire (map (key_enc E) l))).
    { apply forall2_map_r. eapply forall_forall2; [exact HF | exact Em |]. intros a b Ha Hab. eapply IH; eassumption. }
    rewrite (set_coll_rt _ _ _ _ F HS). reflexivity.
  - (* frozenset *)
    match goal with H : key_ty _ = true |- _ => rename H into Hk end.
    match goal with H : Forall _ l |- _ => rename H into HF end.
    match goal with H : set_like l |- _ => rename H into HS end.
    cbn [iter_val bind] in Hu. destruct (map_res (un n t0) l) as [r| |] eqn:Em; cbn [bind] in Hu; try discriminate.
    apply map_res_forall2 in Em.
    assert (Hr : r = map (key_enc E) l) by (eapply (key_map E cfgU cfgS ann HU_gen A_ann); [exact Hk | exact HF | exact Em]).
    subst r. pose proof (set_enc E cfgS ann A_ann t0 l Hk [] (Forall_nil _) HF HS) as Hse. cbn in Hse. rewrite Hse in Hu. cbn [bind] in Hu. inversion Hu; subst.
    rewrite ywire_frozenset. cbn [iter_val bind]. rewrite (key_not_any _ Hk).
    assert (F : Forall2 (fun x y => st n t0 y = Ok x) l (map ywire (map (key_enc E) l))).
    { apply forall2_map_r. eapply forall_forall2; [exact HF | exact Em |]. intros a b Ha Hab. eapply IH; eassumption. }
    rewrite (set_coll_rt _ _ _ _ F HS). reflexivity.
  - (* mapping *)
    match goal with H : key_ty _ = true |- _ => rename H into Hk end.
    match goal with H : Forall _ kvs |- _ => rename H into HF end.
    match goal with H : dict_like kvs |- _ => rename H into HD end.
    cbn [items_val bind] in Hu. unfold un_pairs in Hu.
    destruct (map_res _ kvs) as [ps| |] eqn:Em; cbn [bind] in Hu; try discriminate.
    apply map_res_forall2 in Em.
    assert (R : Forall2 (fun kv p => un n kt (fst kv) = Ok (fst p) /\ un n vt (snd kv) = Ok (snd p)) kvs ps).
    { eapply forall2_impl; [|exact Em]. intros kv p Hp. cbn in Hp.
      destruct (un n kt (fst kv)) as [k'| |]; cbn [bind] in Hp; try discriminate.
      destruct (un n vt (snd kv)) as [v'| |]; cbn [bind] in Hp; try discriminate. inversion Hp; subst. cbn. auto. }
    assert (Hps : dict_of_pairs [] ps = Ok ps).
    { apply (dict_enc E cfgS ann A_ann kt kvs ps Hk) with (acc := []) (accp := []); [|constructor|exact HD].
      eapply forall_forall2; [exact HF | exact R|]. intros kv p [Hkr _] [Hku _]. split; [exact Hkr|].
      eapply (key_unstructure E cfgU cfgS ann HU_gen A_ann); [exact Hk | exact Hkr | exact Hku]. }
    rewrite Hps in Hu. cbn [bind] in Hu. inversion Hu; subst.
    rewrite ywire_dict. rewrite (key_not_any _ Hk). cbn [andb items_val bind].
    assert (F : Forall2 (fun kv p => st n kt (fst p) = Ok (fst kv) /\ st n vt (snd p) = Ok (snd kv)) kvs (map (fun kv => (ywire (fst kv), ywire (snd kv))) ps)).
    { apply forall2_map_r. eapply forall_forall2; [exact HF | exact R|]. intros kv p [Hkr Hvr] [Hku Hvu]. cbn [fst snd].
      split; eapply IH; eassumption. }
    rewrite (map_coll_rt _ _ _ _ _ F HD). reflexivity.
  - (* Optional: None *) inversion Hu; subst. reflexivity.
  - (* Optional: a value *)
    assert (Hc : x = VNone \/ x <> VNone) by (destruct x; [left; reflexivity | right; discriminate ..]).
    destruct Hc as [->|Hne]; [inversion Hu; subst; reflexivity|].
    assert (Hu' : un n t0 x = Ok u) by (destruct x; try exact Hu; contradiction).
    match goal with H : rt_value E ann x t0 |- _ => rename H into Hjx end.
    pose proof (un_not_none E cfgU cfgS ann HU_gen H_tuple A_ann n t0 x u Hjx Hne Hu') as Hnu. pose proof (IH _ _ _ Hjx Hu') as Hs.
    pose proof (ywire_not_none u Hnu) as Hw.
    destruct (ywire u); try exact Hs. contradiction.
  - (* class *)
    match goal with X : e_class E c = Some _ |- _ => rename X into Hc end.
    match goal with X : map fst i = _ |- _ => rename X into Hkeys end.
    match goal with X : Forall _ i |- _ => rename X into HF end.
    rewrite Hc in Hu |- *. cbn [inst_fields] in Hu. unfold nov in *.
    destruct (H_env c cd Hc) as (W & HA).
    assert (A_init : forall f, In f (cd_fields cd) -> f_init f = true) by (intros f Hf; now destruct (HA f Hf)).
    assert (A_conv : forall f, In f (cd_fields cd) -> f_conv f = false) by (intros f Hf; now destruct (HA f Hf)).
    assert (Ht : topt cfgU c = topt cfgS c) by (unfold topt; now rewrite HU_forbid, HS_forbid).
    rewrite Ht in Hu.
    match type of Hu with context [un_gen _ _ _ _ ?h _ _] => set (hs_u := h) in Hu end.
    match goal with |- context [tpl_interp_dict _ _ ?h _ _] => set (hs_s := h) end.
    pose (hu := fun nm v => match hs_u nm v with Ok w => w | _ => VNone end).
    pose (hw := fun nm v => ywire (hu nm v)).
    assert (H_inv' : forall f, In f (cd_fields cd) -> hs_u (f_name f) (aval val VNone i f) = Ok (hu (f_name f) (aval val VNone i f)) ->
              hs_s (f_name f) (hw (f_name f) (aval val VNone i f)) = Ok (aval val VNone i f)).
    { intros f Hf Eh. pose proof (vals_ok val VNone (cd_fields cd) i Hkeys f Hf) as Ea. apply assoc_in in Ea.
      rewrite Forall_forall in HF. specialize (HF _ Ea). cbn [fst snd] in HF.
      unfold hs_u in Eh. unfold hs_s, hw. unfold field_ty in HF.
      destruct (assoc (cd_types cd) (f_name f)) as [ft|].
      - eapply IH; eassumption.
      - inversion HF; subst. match goal with X : atomic _ = true |- _ => rename X into Ha end.
        rewrite (by_class_atomic E cfgU HU_gen n _ _ Ha Eh). now rewrite (ywire_atomic _ Ha). }
    rewrite H_tuple in Hu. destruct (c_tuple cfgS) eqn:Etup.
    { (* tuple strategy *)
      destruct (un_interp_tuple val hs_u (cd_fields cd) i) as [tt| |] eqn:Eg; cbn [bind] in Hu; try discriminate.
      inversion Hu; subst u. clear Hu.
      assert (H_hu : forall f, In f (cd_fields cd) ->
                hs_u (f_name f) (aval val VNone i f) = Ok (hu (f_name f) (aval val VNone i f))).
      { intros f Hf. pose proof (un_interp_tuple_handlers val hs_u (cd_fields cd) i tt Eg f Hf) as (v & w & Ea & Eh).
        rewrite (vals_ok val VNone (cd_fields cd) i Hkeys f Hf) in Ea. inversion Ea; subst v. unfold hu. now rewrite Eh. }
      rewrite (un_interp_tuple_all val (cd_fields cd) i Hkeys VNone hs_u hu H_hu) in Eg. inversion Eg; subst tt. clear Eg.
      assert (Hkw : c_tuple_kw cfgS = true) by (apply H_tuple_kw; first [exact Etup | reflexivity]). rewrite Hkw.
      rewrite ywire_tuple.
      rewrite (class_rt_tuple val noK (cd_fields cd) (wf_alias _ _ _ _ W) (wf_name _ _ _ _ W) A_init A_conv i Hkeys VNone hs_s hw
                 (fun f Hf => H_inv' f Hf (H_hu f Hf))); [|cbn [seq_obj_of_val o_iter iter_val]; unfold T; now rewrite map_map].
      rewrite andb_false_r. reflexivity. }
    destruct (un_gen val val_eqb (topt cfgS c) (fun _ => neutral) hs_u (cd_fields cd) i) as [dd| |] eqn:Eg; cbn [bind] in Hu; try discriminate.
    inversion Hu; subst u. clear Hu.
    assert (H_hu : forall f, In f (cd_fields cd) ->
              hs_u (f_name f) (aval val VNone i f) = Ok (hu (f_name f) (aval val VNone i f))).
    { intros f Hf. unfold un_gen in Eg.
      destruct (un_literal val (topt cfgS c) (fun _ => neutral) hs_u (filter (un_included val (topt cfgS c) (fun _ => neutral)) (cd_fields cd)) i) as [lit| |] eqn:El; cbn [bind] in Eg; try discriminate.
      change (filter (un_included val (topt cfgS c) (fun _ => neutral)) (cd_fields cd))
        with (filter (included val (topt cfgS c) (fun _ : N => neutral)) (cd_fields cd)) in El.
      rewrite (inc_is_fs val (topt cfgS c) (cd_fields cd) A_init) in El.
      destruct (un_literal_handlers _ _ _ _ _ _ _ El (fun g _ => no_omit val (topt cfgS c) eq_refl g) f Hf) as (v & w & Ea & Eh).
      rewrite (vals_ok val VNone (cd_fields cd) i Hkeys f Hf) in Ea. inversion Ea; subst v. unfold hu. now rewrite Eh. }
    rewrite (un_gen_all val VNone (topt cfgS c) eq_refl eq_refl (cd_fields cd) W A_init i Hkeys hs_u hu H_hu val_eqb) in Eg.
    inversion Eg; subst dd. clear Eg.
    change (map (fun kv : N * val => (skey (fst kv), snd kv)) (D val VNone (cd_fields cd) i hu)) with (sk (D val VNone (cd_fields cd) i hu)).
    rewrite ywire_class_dict.
    assert (HD' : map (fun kv : N * val => (fst kv, ywire (snd kv))) (D val VNone (cd_fields cd) i hu) = D val VNone (cd_fields cd) i hw).
    { unfold D. rewrite map_map. reflexivity. }
    rewrite HD'. unfold sk. cbn [obj_of_val]. rewrite nkeys_skey.
    assert (H_inv : forall f, In f (cd_fields cd) ->
              hs_s (f_name f) (hw (f_name f) (aval val VNone i f)) = Ok (aval val VNone i f)) by (intros f Hf; exact (H_inv' f Hf (H_hu f Hf))).
    rewrite HS_forbid. cbn [andb].
    assert (Of : t_forbid (topt cfgS c) = false) by (cbn; exact HS_forbid).
    rewrite HS_gen. destruct (c_dv cfgS).
    + rewrite HS_recheck.
      rewrite (class_rt_detailed val VNone noK (topt cfgS c) eq_refl eq_refl (cd_fields cd) W A_init A_conv i Hkeys hs_s hw H_inv Of). reflexivity.
    + rewrite HS_kw.
      rewrite (class_rt_fast val VNone noK (topt cfgS c) eq_refl eq_refl (cd_fields cd) W A_init A_conv i Hkeys hs_s hw H_inv Of). reflexivity.
  - (* NewType *) eapply IH; eassumption.
  - (* Annotated *) rewrite HS_gen. eapply IH; eassumption.
Qed.


(* ... and dumps always has something to write: enough fuel exists for every value of the type *)
Theorem yaml_roundtrip_total (M : nat) :
  (forall c cd nm ft, e_class E c = Some cd -> assoc (cd_types cd) nm = Some ft -> maxw ft <= M) -> 2 <= M ->
  forall t x, rtv x t -> maxw t <= M -> exists n u, un n t x = Ok u /\ st n t (ywire u) = Ok x.
Proof.
  intros HM HM2 t x Hj Hw. exists (vsize x * S M + tw t).
  destruct (un_total E cfgU cfgS ann HU_gen H_tuple HU_forbid HS_forbid A_ann H_env M HM HM2 (vsize x * S M + tw t) t x Hj Hw (le_n _)) as (u & Hu).
  exists u. split; [exact Hu | exact (yaml_roundtrip _ _ _ _ Hj Hu)].
Qed.

End YRT.
