(* ConvSound.v -- C02 for the nested universe: whatever the input, a value returned by `structure`
   conforms to the requested type at every depth.  Induction on the fuel; the class case is the
   class-level soundness of ClassSound.v with the recursive calls as handlers. *)
From Coq Require Import Lia.
From V.Model Require Import Base Templates Conv ConvSpec.
From V.Proofs Require Import TemplatesProofs ClassSound.

Section Sound.
Variable E : env.
Variable cfg : ccfg.

(* the Python constructors return instances of their own class; len() and iter() of an atom agree *)
Hypothesis H_coerce : forall p o v, e_coerce E p o = Ok v -> exists e, v = VAtom p e.
Hypothesis H_len : forall v l k, e_iter E v = Ok l -> e_len E v = Ok k -> length l = k.

(* the classes of the environment are classes attrs / dataclasses would create, their defaults conform *)
Definition class_ok (c : N) (cd : cdef) : Prop :=
  wf val (topt cfg c) nov (cd_fields cd) /\
  (forall f d, In f (cd_fields cd) -> f_dflt f = Some d -> conforms E d (field_ty cd (f_name f))).
Hypothesis H_env : forall c cd, e_class E c = Some cd -> class_ok c cd.

(* under the tuple strategy: keyword-only attributes by keyword, init=False attributes left out (not finding F27's positional passing) *)
Hypothesis H_tuple : c_tuple cfg = true -> c_tuple_kw cfg = true.
Hypothesis H_recheck : c_recheck cfg = true.
Hypothesis H_kw_last : c_kw_last cfg = true.

Notation structure := (structure E cfg).

(* ---------------- element loops ---------------- *)
Lemma coll_fast_ok (f : val -> result val) l : forall r, coll_fast f l = Ok r -> Forall2 (fun x y => f x = Ok y) l r.
Proof.
  induction l as [|x l IH]; intros r H; cbn [coll_fast] in H.
  - inversion H. constructor.
  - destruct (f x) as [y| |] eqn:Ef; cbn [bind] in H; try discriminate.
    destruct (coll_fast f l) as [ys| |]; cbn [bind] in H; try discriminate.
    inversion H; subst. constructor; auto.
Qed.

Lemma coll_det_ok (f : val -> result val) l : forall ix acc errs acc' errs',
  coll_det f l ix acc errs = Ok (acc', errs') ->
  (exists e2, errs' = errs ++ e2) /\
  (errs' = [] -> exists r, acc' = acc ++ r /\ Forall2 (fun x y => f x = Ok y) l r).
Proof.
  induction l as [|x l IH]; intros ix acc errs acc' errs' H; cbn [coll_det] in H.
  - inversion H; subst. split; [exists []; now rewrite app_nil_r|]. intros _. exists []. rewrite app_nil_r. split; [reflexivity | constructor].
  - destruct (f x) as [y|e|] eqn:Ef; try discriminate.
    + destruct (IH _ _ _ _ _ H) as ((e2 & He) & Hr). split; [eauto|].
      intros Hn. destruct (Hr Hn) as (r & Ha & Hf). exists (y :: r). rewrite <- app_assoc in Ha. split; [exact Ha|]. constructor; auto.
    + destruct (IH _ _ _ _ _ H) as ((e2 & He) & Hr). split; [exists ((Some ix, e) :: e2); rewrite He, <- app_assoc; reflexivity|].
      intros Hn. subst errs'. destruct errs; discriminate.
Qed.

Lemma coll_ok (f : val -> result val) l r : coll cfg f l = Ok r -> Forall2 (fun x y => f x = Ok y) l r.
Proof.
  unfold coll. destruct (c_dv cfg).
  - destruct (coll_det f l 0 [] []) as [[acc errs]| |] eqn:Ed; cbn [bind]; try discriminate. cbn [fst snd].
    destruct errs; [|discriminate]. intros H. inversion H; subst.
    destruct (coll_det_ok _ _ _ _ _ _ _ Ed) as (_ & Hr). destruct (Hr eq_refl) as (r0 & Ha & Hf). cbn in Ha. now subst.
  - apply coll_fast_ok.
Qed.

Lemma forall2_forall {A B} (P : A -> B -> Prop) (Q : B -> Prop) l r :
  Forall2 P l r -> (forall x y, P x y -> Q y) -> Forall Q r.
Proof. induction 1; intros H2; constructor; eauto. Qed.

(* ---------------- sets ---------------- *)
Lemma set_add_in acc v acc' : set_add acc v = Ok acc' -> forall y, In y acc' -> In y acc \/ y = v.
Proof.
  unfold set_add. destruct (negb (hashable v)); [discriminate|]. intros H. inversion H; subst.
  intros y Hy. destruct (vmem v acc); [now left|]. apply in_app_or in Hy. destruct Hy as [Hy|[Hy|[]]]; auto.
Qed.

Lemma set_of_list_in l : forall acc s, set_of_list acc l = Ok s -> forall y, In y s -> In y acc \/ In y l.
Proof.
  induction l as [|v l IH]; intros acc s H y Hy; cbn [set_of_list] in H.
  - inversion H; subst. now left.
  - destruct (set_add acc v) as [acc'| |] eqn:Ea; cbn [bind] in H; try discriminate.
    destruct (IH _ _ H y Hy) as [X|X]; [|right; now right].
    destruct (set_add_in _ _ _ Ea y X) as [Y|Y]; [now left | right; left; auto].
Qed.

Lemma set_det_ok (f : val -> result val) l : forall ix acc errs acc' errs',
  set_det f l ix acc errs = Ok (acc', errs') ->
  (exists e2, errs' = errs ++ e2) /\
  (errs' = [] -> forall y, In y acc' -> In y acc \/ exists x, In x l /\ f x = Ok y).
Proof.
  induction l as [|x l IH]; intros ix acc errs acc' errs' H; cbn [set_det] in H.
  - inversion H; subst. split; [exists []; now rewrite app_nil_r|]. intros _ y Hy. now left.
  - destruct (f x) as [y0|e|] eqn:Ef; cbn [bind] in H; try discriminate.
    + destruct (set_add acc y0) as [acc1|e|] eqn:Ea; try discriminate.
      * destruct (IH _ _ _ _ _ H) as (He & Hr). split; [exact He|].
        intros Hn y Hy. destruct (Hr Hn y Hy) as [X|(x' & Hx & Hf)].
        -- destruct (set_add_in _ _ _ Ea y X) as [Y|Y]; [now left|]. subst. right. exists x. split; [now left | exact Ef].
        -- right. exists x'. split; [now right | exact Hf].
      * destruct (IH _ _ _ _ _ H) as ((e2 & He) & _). split; [exists ((Some ix, e) :: e2); rewrite He, <- app_assoc; reflexivity|].
        intros Hn. subst errs'. destruct errs; discriminate.
    + destruct (IH _ _ _ _ _ H) as ((e2 & He) & _). split; [exists ((Some ix, e) :: e2); rewrite He, <- app_assoc; reflexivity|].
      intros Hn. subst errs'. destruct errs; discriminate.
Qed.

Lemma set_coll_ok (f : val -> result val) l s : set_coll cfg f l = Ok s -> forall y, In y s -> exists x, In x l /\ f x = Ok y.
Proof.
  unfold set_coll. destruct (c_dv cfg).
  - destruct (set_det f l 0 [] []) as [[acc errs]| |] eqn:Ed; cbn [bind]; try discriminate. cbn [fst snd].
    destruct errs; [|discriminate]. intros H. inversion H; subst. intros y Hy.
    destruct (set_det_ok _ _ _ _ _ _ _ Ed) as (_ & Hr). destruct (Hr eq_refl y Hy) as [[]|X]. exact X.
  - destruct (coll_fast f l) as [ys| |] eqn:Ec; cbn [bind]; try discriminate. intros H y Hy.
    destruct (set_of_list_in _ _ _ H y Hy) as [[]|X].
    apply coll_fast_ok in Ec. clear -Ec X. induction Ec as [|a b l r Hab _ IH]; [contradiction|].
    destruct X as [X|X]; [subst; exists a; split; [now left | exact Hab]|].
    destruct (IH X) as (x & Hx & Hf). exists x. split; [now right | exact Hf].
Qed.

(* ---------------- heterogeneous tuples ---------------- *)
Lemma zip_fast_ok (P : val -> ty -> Prop) (f : ty -> val -> result val) :
  (forall t x y, f t x = Ok y -> P y t) ->
  forall ts l r, zip_fast f ts l = Ok r -> length ts <= length l -> Forall2 P r ts.
Proof.
  intros HP. induction ts as [|t ts IH]; intros l r H Hl; cbn [zip_fast] in H.
  - inversion H. constructor.
  - destruct l as [|x l]; [cbn in Hl; lia|].
    destruct (f t x) as [y| |] eqn:Ef; cbn [bind] in H; try discriminate.
    destruct (zip_fast f ts l) as [ys| |] eqn:Ez; cbn [bind] in H; try discriminate.
    inversion H; subst. constructor; [eapply HP; eassumption|]. eapply IH; [eassumption|]. cbn in Hl. lia.
Qed.

Lemma zip_det_ok (P : val -> ty -> Prop) (f : ty -> val -> result val) :
  (forall t x y, f t x = Ok y -> P y t) ->
  forall ts l ix acc errs acc' errs', zip_det f ts l ix acc errs = Ok (acc', errs') ->
  (exists e2, errs' = errs ++ e2) /\
  (errs' = [] -> length ts <= length l -> exists r, acc' = acc ++ r /\ Forall2 P r ts).
Proof.
  intros HP. induction ts as [|t ts IH]; intros l ix acc errs acc' errs' H; cbn [zip_det] in H.
  - inversion H; subst. split; [exists []; now rewrite app_nil_r|]. intros _ _. exists []. rewrite app_nil_r. split; [reflexivity | constructor].
  - destruct l as [|x l].
    + inversion H; subst. split; [exists []; now rewrite app_nil_r|]. intros _ Hl. cbn in Hl. lia.
    + destruct (f t x) as [y|e|] eqn:Ef; try discriminate.
      * destruct (IH _ _ _ _ _ _ H) as (He & Hr). split; [exact He|].
        intros Hn Hl. destruct (Hr Hn) as (r & Ha & Hf); [cbn in Hl; lia|]. exists (y :: r). rewrite <- app_assoc in Ha.
        split; [exact Ha|]. constructor; [eapply HP; eassumption | exact Hf].
      * destruct (IH _ _ _ _ _ _ H) as ((e2 & He) & _). split; [exists ((Some ix, e) :: e2); rewrite He, <- app_assoc; reflexivity|].
        intros Hn. subst errs'. destruct errs; discriminate.
Qed.

(* len(o) is the number of things iterating o yields *)
Lemma len_iter o l k : iter_val E o = Ok l -> len_val E o = Ok k -> length l = k.
Proof.
  destruct o; cbn; intros H1 H2; try discriminate; try (inversion H1; inversion H2; subst; reflexivity).
  - eapply H_len; eassumption.
  - inversion H1; inversion H2; subst. apply map_length.
Qed.

(* ---------------- mappings ---------------- *)
Definition pair_ok (PK PV : val -> Prop) (kv : val * val) : Prop := PK (fst kv) /\ PV (snd kv).

Lemma vdict_set_ok (PK PV : val -> Prop) d k v : Forall (pair_ok PK PV) d -> PK k -> PV v -> Forall (pair_ok PK PV) (vdict_set d k v).
Proof.
  induction d as [|[k' v'] d IH]; cbn; intros Hd Hk Hv.
  - repeat constructor; assumption.
  - inversion Hd as [|? ? [H1 H2] Hr]; subst. destruct (val_eqb k' k).
    + constructor; [split; assumption | assumption].
    + constructor; [split; assumption | auto].
Qed.

Lemma dict_put_ok (PK PV : val -> Prop) d k v d' : dict_put d k v = Ok d' -> Forall (pair_ok PK PV) d -> PK k -> PV v -> Forall (pair_ok PK PV) d'.
Proof. unfold dict_put. destruct (negb (hashable k)); [discriminate|]. intros H. inversion H; subst. apply vdict_set_ok. Qed.

Lemma map_fast_ok (PK PV : val -> Prop) (fk fv : val -> result val) :
  (forall x y, fk x = Ok y -> PK y) -> (forall x y, fv x = Ok y -> PV y) ->
  forall kvs acc d, map_fast fk fv kvs acc = Ok d -> Forall (pair_ok PK PV) acc -> Forall (pair_ok PK PV) d.
Proof.
  intros HK HV. induction kvs as [|[k v] kvs IH]; intros acc d H Ha; cbn [map_fast] in H.
  - now inversion H; subst.
  - destruct (fk k) as [k'| |] eqn:Ek; cbn [bind] in H; try discriminate.
    destruct (fv v) as [v'| |] eqn:Ev; cbn [bind] in H; try discriminate.
    destruct (dict_put acc k' v') as [acc'| |] eqn:Ep; cbn [bind] in H; try discriminate.
    eapply IH; [exact H|]. eapply dict_put_ok; eauto.
Qed.

Lemma map_det_ok (PK PV : val -> Prop) (fk fv : val -> result val) :
  (forall x y, fk x = Ok y -> PK y) -> (forall x y, fv x = Ok y -> PV y) ->
  forall kvs acc errs acc' errs', map_det fk fv kvs acc errs = Ok (acc', errs') ->
  Forall (pair_ok PK PV) acc -> Forall (pair_ok PK PV) acc'.
Proof.
  intros HK HV. induction kvs as [|[k v] kvs IH]; intros acc errs acc' errs' H Ha; cbn [map_det] in H.
  - now inversion H; subst.
  - destruct (fv v) as [v'|e|] eqn:Ev; try discriminate.
    + destruct (fk k) as [k'|e|] eqn:Ek; cbn [bind] in H; try discriminate.
      * destruct (dict_put acc k' v') as [acc1|e|] eqn:Ep; try discriminate.
        -- eapply IH; [exact H|]. eapply dict_put_ok; eauto.
        -- eapply IH; eauto.
      * eapply IH; eauto.
    + eapply IH; eauto.
Qed.

Lemma map_coll_ok (PK PV : val -> Prop) (fk fv : val -> result val) kvs d :
  (forall x y, fk x = Ok y -> PK y) -> (forall x y, fv x = Ok y -> PV y) ->
  map_coll cfg fk fv kvs = Ok d -> Forall (pair_ok PK PV) d.
Proof.
  intros HK HV. unfold map_coll. destruct (c_dv cfg).
  - destruct (map_det fk fv kvs [] []) as [[acc errs]| |] eqn:Ed; cbn [bind]; try discriminate. cbn [fst snd].
    destruct errs; [|discriminate]. intros H. inversion H; subst. eapply map_det_ok; eauto.
  - intros H. eapply map_fast_ok; eauto.
Qed.

Lemma dict_val_shape o v : dict_val E o = Ok v -> exists kvs, v = VDict kvs.
Proof.
  unfold dict_val.
  assert (G : forall r, (do l <- r; do ps <- map_res (pair_of E) l; do d <- dict_of_pairs [] ps; Ok (VDict d)) = Ok v -> exists kvs, v = VDict kvs).
  { intros r H. destruct r as [l| |]; cbn [bind] in H; try discriminate.
    destruct (map_res (pair_of E) l) as [ps| |]; cbn [bind] in H; try discriminate.
    destruct (dict_of_pairs [] ps) as [d| |]; cbn [bind] in H; try discriminate. inversion H; eauto. }
  destruct o; try apply G. intros H; inversion H; eauto.
Qed.

Lemma all_any l : Forall (fun x => conforms E x TAny) l.
Proof. induction l; constructor; auto using CAny. Qed.

(* ---------------- the theorem ---------------- *)
Theorem structure_sound : forall n t o v, structure n t o = Ok v -> conforms E v t.
Proof.
  induction n as [|n IH]; intros t o v H; [discriminate|].
  destruct t; cbn [Conv.structure] in H.
  - (* Any *) constructor.
  - (* prim *) destruct (H_coerce _ _ _ H) as (e & ->). constructor.
  - (* enum *)
    destruct o; try (destruct (find_member (e_enum E e) _); inversion H; subst; constructor).
    destruct (N.eqb en e) eqn:Ee; [|discriminate]. apply N.eqb_eq in Ee. inversion H; subst. constructor.
  - (* literal *) destruct (vmem o vs) eqn:Em; [|discriminate]. inversion H; subst. now constructor.
  - (* list *)
    destruct (iter_val E o) as [l| |]; cbn [bind] in H; try discriminate.
    destruct (is_any t) eqn:Ea.
    + destruct t; try discriminate. inversion H; subst. constructor. apply all_any.
    + destruct (coll cfg (structure n t) l) as [r| |] eqn:Ec; cbn [bind] in H; try discriminate.
      inversion H; subst. constructor. apply coll_ok in Ec. eapply forall2_forall; [exact Ec|]. intros x y Hxy. eapply IH; exact Hxy.
  - (* homogeneous tuple *)
    destruct (iter_val E o) as [l| |]; cbn [bind] in H; try discriminate.
    destruct (is_any t) eqn:Ea.
    + destruct t; try discriminate. inversion H; subst. constructor. apply all_any.
    + destruct (coll cfg (structure n t) l) as [r| |] eqn:Ec; cbn [bind] in H; try discriminate.
      inversion H; subst. constructor. apply coll_ok in Ec. eapply forall2_forall; [exact Ec|]. intros x y Hxy. eapply IH; exact Hxy.
  - (* heterogeneous tuple *)
    assert (HP : forall t x y, structure n t x = Ok y -> conforms E y t) by (intros; eapply IH; eassumption).
    destruct (c_dv cfg).
    + destruct (iter_val E o) as [l| |] eqn:Ei; cbn [bind] in H; try discriminate.
      destruct (zip_det (structure n) ts l 0 [] []) as [[acc errs]| |] eqn:Ez; cbn [bind] in H; try discriminate.
      destruct (len_val E o) as [len| |] eqn:El; cbn [bind] in H; try discriminate. cbn [fst snd] in H.
      destruct (Nat.eqb len (length ts)) eqn:Eq.
      * destruct errs; [|discriminate]. inversion H; subst. apply Nat.eqb_eq in Eq.
        destruct (zip_det_ok _ _ HP _ _ _ _ _ _ _ Ez) as (_ & Hr).
        destruct (Hr eq_refl) as (r & Ha & Hf); [rewrite (len_iter _ _ _ Ei El); lia|]. cbn in Ha. subst. now constructor.
      * destruct (errs ++ [(None, EValue)]) eqn:Ee; [|discriminate]. apply app_eq_nil in Ee. destruct Ee; discriminate.
    + destruct (len_val E o) as [len| |] eqn:El; cbn [bind] in H; try discriminate.
      destruct (Nat.eqb len (length ts)) eqn:Eq; cbn [negb] in H; [|discriminate]. apply Nat.eqb_eq in Eq.
      destruct (iter_val E o) as [l| |] eqn:Ei; cbn [bind] in H; try discriminate.
      destruct (zip_fast (structure n) ts l) as [r| |] eqn:Ez; cbn [bind] in H; try discriminate.
      inversion H; subst. constructor. eapply zip_fast_ok; [exact HP | exact Ez|]. rewrite (len_iter _ _ _ Ei El). lia.
  - (* set *)
    destruct (iter_val E o) as [l| |]; cbn [bind] in H; try discriminate.
    destruct (is_any t) eqn:Ea.
    + destruct t; try discriminate. destruct (set_of_list [] l) as [s| |]; cbn [bind] in H; try discriminate.
      inversion H; subst. constructor. apply all_any.
    + destruct (set_coll cfg (structure n t) l) as [s| |] eqn:Ec; cbn [bind] in H; try discriminate.
      inversion H; subst. constructor. apply Forall_forall. intros y Hy.
      destruct (set_coll_ok _ _ _ Ec y Hy) as (x & _ & Hf). eapply IH; exact Hf.
  - (* frozenset *)
    destruct (iter_val E o) as [l| |]; cbn [bind] in H; try discriminate.
    destruct (is_any t) eqn:Ea.
    + destruct t; try discriminate. destruct (set_of_list [] l) as [s| |]; cbn [bind] in H; try discriminate.
      inversion H; subst. constructor. apply all_any.
    + destruct (set_coll cfg (structure n t) l) as [s| |] eqn:Ec; cbn [bind] in H; try discriminate.
      inversion H; subst. constructor. apply Forall_forall. intros y Hy.
      destruct (set_coll_ok _ _ _ Ec y Hy) as (x & _ & Hf). eapply IH; exact Hf.
  - (* mapping *)
    destruct (is_any t1 && is_any t2) eqn:Ea.
    + apply andb_prop in Ea. destruct Ea as [E1 E2]. destruct t1; try discriminate. destruct t2; try discriminate.
      assert (X : forall kvs, conforms E (VDict kvs) (TDict TAny TAny)).
      { intros kvs. constructor. apply Forall_forall. intros kv _. split; constructor. }
      destruct (dict_val_shape _ _ H) as (kvs & ->). apply X.
    + destruct (items_val o) as [kvs| |]; cbn [bind] in H; try discriminate.
      destruct (map_coll cfg (structure n t1) (structure n t2) kvs) as [d| |] eqn:Em; cbn [bind] in H; try discriminate.
      inversion H; subst. constructor.
      apply (map_coll_ok (fun k => conforms E k t1) (fun x => conforms E x t2)) in Em.
      * exact Em.
      * intros x y Hxy. eapply IH; exact Hxy.
      * intros x y Hxy. eapply IH; exact Hxy.
  - (* Optional *)
    destruct o; try (apply COptSome; eapply IH; exact H). inversion H; subst. constructor.
  - (* class *)
    destruct (e_class E c) as [cd|] eqn:Ec; [|discriminate].
    destruct (H_env c cd Ec) as (W & Hd).
    set (hs := fun fname v0 => match assoc (cd_types cd) fname with Some ft => structure n ft v0 | None => Ok v0 end) in *.
    assert (Fin : forall i, (forall nm v, assoc i nm = Some v -> entry_ok val hs (cd_fields cd) nm v) -> conforms E (VInst c i) (TClass c)).
    { intros i HS. econstructor; [exact Ec|]. intros nm av A. destruct (HS nm av A) as (f & Hf & Hn & Hv). split.
      - rewrite <- Hn. now apply in_map.
      - destruct Hv as [Hv|(w & Hw)].
        + rewrite <- Hn. eapply Hd; [exact Hf | exact Hv].
        + unfold hs in Hw. unfold field_ty. destruct (assoc (cd_types cd) nm); [eapply IH; exact Hw | constructor]. }
    assert (HK : forall (n0 : N) (v0 : val), noK n0 v0 = Ok v0) by reflexivity.
    destruct (c_tuple cfg) eqn:Et.
    + (* tuple strategy *)
      rewrite (H_tuple eq_refl) in H. cbn [negb] in H. rewrite andb_false_r in H. cbn [andb] in H.
      destruct (tpl_interp_tuple val noK hs true (cd_fields cd) (seq_obj_of_val E o)) as [i| |] eqn:Er; cbn [bind] in H; try discriminate.
      inversion H; subst v. apply Fin. eapply interp_tuple_sound; [exact HK | exact (wf_alias _ _ _ _ W) | exact Er].
    + match type of H with (do i <- ?r'; _) = _ => destruct r' as [i| |] eqn:Er; cbn [bind] in H; try discriminate end.
      inversion H; subst v. clear H. apply Fin.
      match type of Er with (if ?b then _ else ?r) = _ => destruct b; [destruct r as [j|e|] eqn:Er0; try discriminate; [|destruct e; discriminate] | rename Er into Er0; rename i into j] end.
      all: try (inversion Er; subst j).
      all: destruct (c_gen cfg); [destruct (c_dv cfg)|].
      all: try rewrite H_recheck in Er0; try rewrite H_kw_last in Er0.
      all: try (eapply detailed_sound; [exact HK | exact (wf_alias _ _ _ _ W) | exact (wf_name _ _ _ _ W) | exact Er0]).
      all: try (eapply fast_sound; [exact HK | exact W | exact Er0]).
      all: try (eapply interp_dict_sound; [exact HK | exact (wf_alias _ _ _ _ W) | exact Er0]).
  - (* NewType *) constructor. eapply IH; exact H.
  - (* Annotated *) destruct (c_gen cfg); [|discriminate]. constructor. eapply IH; exact H.
Qed.

End Sound.
